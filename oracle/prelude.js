// Shared prelude: evaluated in boa and in V8 before every program. Defines print() and
// __show() on the global object, using only syntax and primordials captured here.
(function (global) {
  'use strict';
  const emit = global.__emit;
  const apply = Reflect.apply;
  const jsonStringify = JSON.stringify;
  const isArray = Array.isArray;
  const ownKeys = Reflect.ownKeys;
  const getDesc = Reflect.getOwnPropertyDescriptor;
  const getProto = Reflect.getPrototypeOf;
  const NumberToString = Number.prototype.toString;
  const BigIntToString = typeof BigInt === 'function' ? BigInt.prototype.toString : null;
  const SymbolDesc = getDesc(Symbol.prototype, 'description').get;
  const objIs = Object.is;
  const ErrorCtor = Error;
  const errProtos = [];
  const errNames = ['TypeError', 'RangeError', 'ReferenceError', 'SyntaxError', 'EvalError', 'URIError', 'AggregateError', 'Error'];
  for (let i = 0; i < errNames.length; i++) {
    const c = global[errNames[i]];
    if (typeof c === 'function') errProtos[errProtos.length] = [c.prototype, errNames[i]];
  }
  function errClass(o) {
    let p = o, n = 0;
    while (p !== null && n < 16) {
      for (let i = 0; i < errProtos.length; i++) if (errProtos[i][0] === p) return errProtos[i][1];
      p = getProto(p);
      n++;
    }
    return null;
  }
  function show(v, depth, stack) {
    const t = typeof v;
    if (v === undefined) return 'undefined';
    if (v === null) return 'null';
    if (t === 'boolean') return v ? 'true' : 'false';
    if (t === 'number') {
      if (v !== v) return 'NaN';
      if (v === 0) return objIs(v, -0) ? '-0' : '0';
      return apply(NumberToString, v, []);
    }
    if (t === 'bigint') return apply(BigIntToString, v, []) + 'n';
    if (t === 'string') return jsonStringify(v);
    if (t === 'symbol') {
      const d = apply(SymbolDesc, v, []);
      return d === undefined ? 'Symbol()' : 'Symbol(' + d + ')';
    }
    if (t === 'function') return '[Function]';
    // object
    // the global object is not shown by content: which of its properties exist, and in which order, depends on the
    // embedding (V8's vm contexts create the sandbox property of a `var` when it is first assigned)
    if (v === global) return '[global]';
    for (let i = 0; i < stack.length; i++) if (stack[i] === v) return '<cycle>';
    if (depth > 4) return '<deep>';
    const ec = errClass(v);
    if (ec !== null) return 'Error<' + ec + '>';
    stack[stack.length] = v;
    let out;
    if (isArray(v)) {
      out = '[';
      const n = v.length;
      for (let i = 0; i < n && i < 64; i++) {
        if (i > 0) out += ',';
        out += (i in v) ? show(v[i], depth + 1, stack) : '<hole>';
      }
      if (n > 64) out += ',...' + n;
      out += ']';
    } else {
      out = '{';
      const keys = ownKeys(v);
      let first = true, shown = 0;
      for (let i = 0; i < keys.length && shown < 64; i++) {
        const k = keys[i];
        const d = getDesc(v, k);
        if (d === undefined || !d.enumerable) continue;
        if (!first) out += ',';
        first = false;
        shown++;
        out += (typeof k === 'symbol' ? show(k, 0, stack) : k) + ':';
        if ('value' in d) out += show(d.value, depth + 1, stack);
        else out += '<accessor>';
      }
      out += '}';
    }
    stack.length = stack.length - 1;
    return out;
  }
  function __show(v) {
    try { return show(v, 0, []); } catch (e) { return '<show-threw>'; }
  }
  function print() {
    let s = '';
    for (let i = 0; i < arguments.length; i++) {
      if (i > 0) s += ' ';
      const a = arguments[i];
      s += typeof a === 'string' ? a : __show(a);
    }
    emit(s);
  }
  let ticks = 0;
  function __tick() {
    if (++ticks > 3000) throw new ErrorCtor('fuel');
  }
  const def = Reflect.defineProperty;
  def(global, '__tick', { value: __tick, writable: false, enumerable: false, configurable: false });
  def(global, '__show', { value: __show, writable: false, enumerable: false, configurable: false });
  def(global, 'print', { value: print, writable: true, enumerable: false, configurable: true });
})(globalThis);
