// Reference oracle: runs session jobs (see harness/bvh/src/session.rs) on V8.
// usage: node [flags] node_runner.js <jobs.jsonl> <out.jsonl> <prelude.js> [timeout_ms]
'use strict';
const vm = require('vm');
const fs = require('fs');

const [jobsPath, outPath, preludePath, timeoutArg] = process.argv.slice(2);
const timeoutMs = timeoutArg ? parseInt(timeoutArg, 10) : 5000;
const preludeSrc = fs.readFileSync(jobsPath === '--server' ? outPath : preludePath, 'utf8');
const preludeScript = new vm.Script(preludeSrc, { filename: 'prelude.js' });

function fixSurrogates(s) {
  return s.replace(/[\uD800-\uDFFF]/gu, (c) => '\\u' + c.charCodeAt(0).toString(16).toUpperCase().padStart(4, '0'));
}

function runJob(job) {
  const trace = [];
  const emit = (...args) => {
    if (trace.length < 20000) trace.push(fixSurrogates(args.map((a) => { try { return String(a); } catch (e) { return '<emit-threw>'; } }).join(' ')));
  };
  const sandbox = {};
  Object.defineProperty(sandbox, '__emit', { value: emit, writable: true, enumerable: false, configurable: true });
  Object.defineProperty(sandbox, '__gc', { value: () => {}, writable: true, enumerable: false, configurable: true });
  Object.defineProperty(sandbox, '__detach', { value: (b) => { if (!(b instanceof ArrayBuffer) && Object.prototype.toString.call(b) !== '[object ArrayBuffer]') throw new TypeError('__detach: not an ArrayBuffer'); structuredClone(b, { transfer: [b] }); }, writable: true, enumerable: false, configurable: true });
  for (const k of ['__f', '__t', '__a']) Object.defineProperty(sandbox, k, { value: undefined, writable: true, enumerable: false, configurable: true });
  const ctx = vm.createContext(sandbox, { microtaskMode: 'afterEvaluate' });
  if (!job.no_prelude) preludeScript.runInContext(ctx);
  trace.length = 0;
  const show = (v) => {
    let f;
    try { f = vm.runInContext('__show', ctx); } catch (e) { return '<no-show>'; }
    try { return fixSurrogates(f(v)); } catch (e) { return '<show-threw>'; }
  };
  const completion = (thunk) => {
    try {
      const v = thunk();
      return 'value:' + show(v);
    } catch (e) {
      if (e && e.code === 'ERR_SCRIPT_EXECUTION_TIMEOUT') return 'inconclusive:timeout';
      return 'throw:' + show(e);
    }
  };
  const steps = [];
  for (const step of job.steps || []) {
    const op = step.op || 'eval';
    const t0 = trace.length;
    let c;
    if (op === 'eval' || op === 'eval_async') {
      let script = null;
      try {
        script = new vm.Script(step.src, { filename: 'job.js' });
      } catch (e) {
        c = 'early:' + (e instanceof SyntaxError ? 'SyntaxError' : 'Other');
      }
      if (script) c = completion(() => script.runInContext(ctx, { timeout: timeoutMs }));
    } else if (op === 'call' || op === 'callm' || op === 'construct') {
      const name = step.name || '__main';
      c = completion(() => {
        const f = vm.runInContext(name, ctx);
        const args = step.args || [];
        if (op === 'construct') {
          sandbox.__f = f; sandbox.__a = args;
          return vm.runInContext('Reflect.construct(__f, __a)', ctx, { timeout: timeoutMs });
        }
        let thisv;
        if (op === 'callm') thisv = vm.runInContext(name.slice(0, name.lastIndexOf('.')), ctx);
        // run inside the context so that microtasks are drained like after an evaluation
        sandbox.__f = f; sandbox.__t = thisv; sandbox.__a = args;
        return vm.runInContext('Reflect.apply(__f, __t, __a)', ctx, { timeout: timeoutMs });
      });
    } else if (op === 'jobs' || op === 'jobs_async') {
      c = 'value:undefined'; // microtasks were already drained after the evaluation
    } else {
      c = 'skip:unsupported-op:' + op;
    }
    steps.push({ c, t: [t0, trace.length] });
  }
  return { id: job.id, steps, trace };
}

if (jobsPath === '--server') {
  // server mode: one JSON job per stdin line, one JSON result per stdout line
  let buf = '';
  const chunk = Buffer.alloc(1 << 16);
  for (;;) {
    let nl;
    while ((nl = buf.indexOf('\n')) < 0) {
      let n;
      try { n = fs.readSync(0, chunk, 0, chunk.length, null); } catch (e) { if (e.code === 'EAGAIN') continue; n = 0; }
      if (n === 0) process.exit(0);
      buf += chunk.toString('utf8', 0, n);
    }
    const line = buf.slice(0, nl);
    buf = buf.slice(nl + 1);
    if (!line.trim()) continue;
    let res;
    try { res = runJob(JSON.parse(line)); } catch (e) { res = { fatal: 'runner:' + String(e && e.message) }; }
    fs.writeSync(1, JSON.stringify(res) + '\n');
  }
}
const lines = fs.readFileSync(jobsPath, 'utf8').split('\n');
const out = fs.openSync(outPath, 'a');
let index = 0;
for (const line of lines) {
  if (!line.trim()) { index++; continue; }
  const job = JSON.parse(line);
  let res;
  try {
    res = runJob(job);
  } catch (e) {
    res = { id: job.id, fatal: 'runner:' + String(e && e.message) };
  }
  res.index = index++;
  fs.writeSync(out, JSON.stringify(res) + '\n');
}
fs.closeSync(out);
