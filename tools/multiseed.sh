#!/bin/bash
# tools/multiseed.sh "<seeds>" "<checks>" [tier]   -- runs ./check for every pair, logs under .work/logs/ms, prints a summary line per run
cd "$(dirname "$0")/.."
seeds="$1"; checks="$2"; tier="${3:-quick}"
mkdir -p .work/logs/ms
for s in $seeds; do
  for c in $checks; do
    log=.work/logs/ms/${c}_${tier}_s${s}.log
    t0=$(date +%s)
    VERIF_SEED=$s ./check $c --tier $tier > $log 2>&1
    rc=$?
    mkdir -p .work/evidence_snap; cp evidence/$c.json .work/evidence_snap/${c}_${tier}_s${s}.json 2>/dev/null
    echo "$(date +%H:%M:%S) $c seed=$s tier=$tier exit=$rc wall=$(( $(date +%s) - t0 ))s violations=$(grep -c '^VIOLATION' $log) known=$(grep -c '^KNOWN-FINDING' $log)" >> .work/logs/ms/summary.txt
  done
done
