#!/usr/bin/env python3
"""ad-hoc: run sources (args, or lines of a file with -f) on boa and node, print both"""
import sys, json
sys.path.insert(0,'/verif')
from vlib import build, runner
b = build.ensure('bvh','native')
srcs = sys.argv[1:]
if srcs and srcs[0]=='-f':
    srcs=[open(p).read() for p in srcs[1:]]
jobs=[{"id":i,"steps":[{"op":"eval","src":s},{"op":"jobs"}]} for i,s in enumerate(srcs)]
rb = runner.run_bvh(b,'session',jobs,'cmp',shards=min(16,len(jobs)))
rn = runner.run_node(jobs,'cmp',shards=1)
for s,x,y in zip(srcs,rb,rn):
    cb=[t['c'] for t in x.get('steps',[])]; cn=[t['c'] for t in y.get('steps',[])]
    same = cb==cn and x.get('trace')==y.get('trace')
    print(('SAME ' if same else 'DIFF ')+s[:200].replace('\n',' '))
    if not same:
        print('  boa ', cb, x.get('trace'), x.get('fatal'))
        print('  node', cn, y.get('trace'), y.get('fatal'))
