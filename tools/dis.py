#!/usr/bin/env python3
"""disassemble + structural check of a JS source (debug aid)"""
import sys, json
sys.path.insert(0,'/verif')
from vlib import build, runner
from vlib.monitors import codeblock
b=build.ensure('bvh','native')
src=sys.argv[1] if len(sys.argv)>1 and sys.argv[1]!='-f' else open(sys.argv[2]).read()
r=runner.run_bvh(b,'session',[{"id":0,"dump":True,"samples":True,"no_prelude":True,"steps":[{"op":"eval","src":src}]}],'dis',shards=1)[0]
print(r.get('fatal'), [s['c'] for s in r.get('steps',[])])
for d in r['dumps']:
    F,state=codeblock.check_block(d)
    sm={}
    tr=[(s[1],s[2],tuple(s[3:])) for s in r['depth_samples'] if s[0]==d['id']]
    for (a_,b_,dd) in tr: sm.setdefault(a_,[]).append((b_,dd))
    TF,cnt=codeblock.check_transitions(d,state,tr)
    print('== block',d['id'],repr(d['name']),'regs',d['register_count'],'handlers',d['handlers'])
    for i in d['instructions']:
        print('%5d %-28s %-14s %-14s %s'%(i['pc'],i['op'],state.get(i['pc']),sm.get(i['pc'],''),i['args'][len(i['op']):][:90]))
    for f in F+TF: print('  FINDING',f)
    print('  transitions',{k:v for k,v in cnt.items() if k!='ops'})
