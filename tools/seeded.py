#!/usr/bin/env python3
"""Mutation drills: run checks against a seeded change.

  tools/seeded.py run <id> [--checks C03,C04] [--tier quick] [--seed N] [--worktree DIR]
      creates a scratch worktree of /repo HEAD under /tmp/seeded-wt/<id> (or uses --worktree), applies
      /verif/seeded/<id>/patch.diff there, runs the listed checks (default: meta.json "property") with
      VERIF_REPO=<worktree> VERIF_OUT=/verif/.work/seeded-out/<id>, stores the verdicts in
      /verif/seeded/<id>/result.json and removes the worktree and its build output.
  tools/seeded.py table
      prints the drill table (DESIGN.md appendix B) from seeded/*/meta.json and result.json

Nothing here is used by a registered check; the brief's own way of running a drill
(git -C /repo apply ...; ./check ...; git -C /repo checkout -- .) gives the same verdicts.
"""
import argparse
import glob
import json
import os
import shutil
import subprocess
import sys
import time

VERIF = os.path.dirname(os.path.dirname(os.path.abspath(__file__)))


def sh(cmd, **kw):
    return subprocess.run(cmd, stdout=subprocess.PIPE, stderr=subprocess.STDOUT, text=True, **kw)


def run(a):
    sdir = os.path.join(VERIF, "seeded", a.id)
    meta = json.load(open(os.path.join(sdir, "meta.json")))
    checks = a.checks.split(",") if a.checks else [meta["property"]]
    wt = a.worktree
    made = False
    if not wt:
        wt = "/tmp/seeded-wt/%s" % a.id
        os.makedirs("/tmp/seeded-wt", exist_ok=True)
        sh(["git", "-C", "/repo", "worktree", "remove", "--force", wt])
        p = sh(["git", "-C", "/repo", "worktree", "add", "--detach", wt, "HEAD"])
        if p.returncode:
            print(p.stdout)
            return 2
        made = True
        p = sh(["git", "-C", wt, "apply", os.path.join(sdir, "patch.diff")])
        if p.returncode:
            print("patch does not apply:\n" + p.stdout)
            sh(["git", "-C", "/repo", "worktree", "remove", "--force", wt])
            return 2
    out = os.path.join(VERIF, ".work", "seeded-out", a.id)
    shutil.rmtree(out, ignore_errors=True)
    os.makedirs(out, exist_ok=True)
    env = dict(os.environ, VERIF_REPO=wt, VERIF_OUT=out, VERIF_SEED=str(a.seed), VERIF_TIER=a.tier)
    results = []
    try:
        for c in checks:
            t0 = time.time()
            p = sh([os.path.join(VERIF, "check"), c, "--tier", a.tier], env=env)
            lines = p.stdout.strip().splitlines()
            viol = [l for l in lines if l.startswith("VIOLATION")]
            r = {"check": c, "tier": a.tier, "seed": a.seed, "exit": p.returncode, "violations": len(viol),
                 "first_violation": viol[0] if viol else None, "last_line": lines[-1] if lines else "", "wall_s": round(time.time() - t0)}
            what = None
            if viol:
                try:
                    rp = viol[0].split("replay=")[1].strip()
                    what = json.load(open(rp)).get("what")
                except Exception:
                    pass
            r["what"] = what
            results.append(r)
            with open(os.path.join(out, c + ".log"), "w") as f:
                f.write(p.stdout)
            print(json.dumps(r))
    finally:
        import hashlib
        tag = "-alt" + hashlib.sha1(wt.rstrip("/").encode()).hexdigest()[:8]
        for d in glob.glob(os.path.join(VERIF, ".targets", "*" + tag)) + glob.glob(os.path.join(VERIF, ".work", "harness" + tag)):
            shutil.rmtree(d, ignore_errors=True)
        for f in glob.glob(os.path.join(VERIF, ".targets", "*" + tag + ".lock")):
            os.unlink(f)
        if made:
            sh(["git", "-C", "/repo", "worktree", "remove", "--force", wt])
    rf = os.path.join(sdir, "result.json")
    prev = json.load(open(rf)) if os.path.exists(rf) else {"runs": []}
    prev["runs"] = [x for x in prev["runs"] if not any(x["check"] == r["check"] and x["tier"] == r["tier"] and x["seed"] == r["seed"] for r in results)] + results
    prev["caught_by"] = sorted({x["check"] for x in prev["runs"] if x["exit"] == 1 and x["violations"]})
    # every run ever made, oldest first (a check that missed the change and was strengthened afterwards shows up twice)
    rev = sh(["git", "-C", VERIF, "log", "-1", "--format=%h"]).stdout.strip()
    for r in results:
        prev.setdefault("history", []).append({"verif_commit": rev, "time": time.strftime("%Y-%m-%dT%H:%M:%SZ", time.gmtime()), "check": r["check"], "tier": r["tier"],
                                               "seed": r["seed"], "exit": r["exit"], "violations": r["violations"]})
    with open(rf, "w") as f:
        json.dump(prev, f, indent=1)
    return 0


def table(_a):
    print("| id | property | change | needs | caught by | not caught by |")
    print("|---|---|---|---|---|---|")
    for m in sorted(glob.glob(os.path.join(VERIF, "seeded", "*", "meta.json"))):
        d = os.path.dirname(m)
        meta = json.load(open(m))
        rf = os.path.join(d, "result.json")
        res = json.load(open(rf)) if os.path.exists(rf) else {"runs": [], "caught_by": []}
        missed = sorted({x["check"] for x in res["runs"]} - set(res["caught_by"]))
        print("| %s | %s | %s | %s | %s | %s |" % (os.path.basename(d), meta.get("property"), meta.get("summary", "").replace("|", "/"),
                                               meta.get("needs", "").replace("|", "/"), ", ".join(res["caught_by"]) or "-", ", ".join(missed) or "-"))
    return 0


def main():
    ap = argparse.ArgumentParser()
    sub = ap.add_subparsers(dest="cmd", required=True)
    r = sub.add_parser("run")
    r.add_argument("id")
    r.add_argument("--checks")
    r.add_argument("--tier", default="quick")
    r.add_argument("--seed", type=int, default=0)
    r.add_argument("--worktree")
    t = sub.add_parser("table")
    a = ap.parse_args()
    return run(a) if a.cmd == "run" else table(a)


if __name__ == "__main__":
    sys.exit(main())
