#!/bin/sh
# Builds the harness binaries from files on disk only (offline).
set -e
cd "$(dirname "$0")"
exec python3 -m vlib.setup
