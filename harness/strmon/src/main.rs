//! strmon — model-based monitor for `boa_string` (property C11: string behaviour depends only on
//! the code-unit sequence).
//!
//! For a code-unit sequence `u` the same string is built through every public constructor of
//! boa_string; every operation on every construction is compared with a naive model on the plain
//! `Vec<u16>`, and every pair of constructions with each other.
//!
//!   strmon exhaustive <maxlen> <shard> <nshards>   all strings of length <= maxlen over the 12-symbol alphabet
//!   strmon random <seed> <count> <maxlen>          random strings (length <= maxlen <= 64), richer alphabet
//!   strmon replay <hex-units> [<hex-units of other strings to compare with>...]
//!   options (anywhere): --lite (reduced workload, for Miri); --avoid str-eq-latin1-nonascii,str-eq-utf16-length,builder-empty-extend-unallocated
//!
//! Output: one JSON object on stdout. Exit code 0 = all held, 1 = violation (in the JSON), 2 = usage.

#[macro_use]
mod ctx;
mod check;
mod ctor;
mod model;
mod refc;
mod util;

use ctx::{Ctx, Viol};
use std::cell::RefCell;
use std::collections::BTreeSet;
use std::panic::{AssertUnwindSafe, catch_unwind};
use util::{Rng, hex, json_str, json_units, parse_hex};

const ALPHABET: [u16; 12] = [0x61, 0x30, 0x20, 0x7F, 0x80, 0xE9, 0xFF, 0x100, 0x3C0, 0xD800, 0xDC00, 0xFFFF];

thread_local! {
    static LAST_PANIC: RefCell<String> = const { RefCell::new(String::new()) };
}

struct Run {
    ctx: Ctx,
    arena: ctor::Arena,
    strings: u64,
    nontrivial: u64,
    constructions: u64,
    max_len: usize,
    len_hist: Vec<u64>,
    seen: BTreeSet<Vec<u16>>,
    samples: Vec<String>,
    violation: Option<(Vec<u16>, Vec<Vec<u16>>, Viol)>,
}

impl Run {
    /// returns false when a violation was found (stop)
    fn one(&mut self, u: &[u16], others: &[Vec<u16>]) -> bool {
        let fresh = self.seen.insert(u.to_vec());
        let r = catch_unwind(AssertUnwindSafe(|| check::check_string(&mut self.ctx, &mut self.arena, u, others)));
        self.strings += 1;
        self.max_len = self.max_len.max(u.len());
        if self.len_hist.len() <= u.len() {
            self.len_hist.resize(u.len() + 1, 0);
        }
        self.len_hist[u.len()] += 1;
        match r {
            Ok(Ok((count, classes))) => {
                self.constructions += count as u64;
                if fresh && !u.is_empty() && classes >= 2 {
                    self.nontrivial += 1;
                }
                if self.samples.len() < 4 && (self.strings % 97 == 1 || u.len() >= 3) && fresh {
                    self.samples.push(format!(
                        "{{\"units\":{},\"constructions\":{},\"representation_classes\":{}}}",
                        json_units(u),
                        count,
                        classes
                    ));
                }
                true
            }
            Ok(Err(v)) => {
                self.violation = Some((u.to_vec(), others.to_vec(), v));
                false
            }
            Err(_) => {
                let msg = LAST_PANIC.with(|p| p.borrow().clone());
                self.violation = Some((
                    u.to_vec(),
                    others.to_vec(),
                    Viol::new("panic", &[], "no panic".to_string(), msg),
                ));
                false
            }
        }
    }
}

fn gen_random(rng: &mut Rng, maxlen: usize) -> Vec<u16> {
    const WS: [u16; 27] = [
        0x09, 0x0A, 0x0B, 0x0C, 0x0D, 0x20, 0xA0, 0x1680, 0x2000, 0x2001, 0x2005, 0x200A, 0x2028, 0x2029, 0x202F,
        0x205F, 0x3000, 0xFEFF, // white space / line terminators
        0x85, 0x180E, 0x200B, 0x200C, 0x2060, 0x1C, 0x1F, 0x00, 0xFFFE, // look-alikes that are NOT white space
    ];
    const NUMERIC: &[u8] = b"0123456789.+-eExInfinity";
    let len = match rng.below(10) {
        0..=4 => rng.below(9.min(maxlen + 1)),
        5..=7 => rng.below(25.min(maxlen + 1)),
        _ => rng.below(maxlen + 1),
    };
    // theme of the string decides the representation it will naturally get
    let theme = rng.below(8);
    // a small private alphabet makes repeats (overlapping matches for index_of) likely
    let small: Vec<u16> = (0..2 + rng.below(3)).map(|_| unit(rng, 8, &WS)).collect();
    let mut out: Vec<u16> = Vec::with_capacity(len + 1);
    while out.len() < len {
        match theme {
            0 => out.push(0x20 + rng.below(0x5F) as u16),                      // ASCII
            1 => out.push(rng.below(0x100) as u16),                            // Latin-1
            2 => out.push(*rng.pick(&small)),                                  // repeats
            3 => {
                // number-like with white-space padding
                if out.len() < 2 || out.len() + 2 >= len {
                    out.push(*rng.pick(&WS[..18]));
                } else {
                    out.push(u16::from(*rng.pick(NUMERIC)));
                }
            }
            4 => {
                // surrogate-heavy
                match rng.below(4) {
                    0 => out.push(0xD800 + rng.below(0x400) as u16),
                    1 => out.push(0xDC00 + rng.below(0x400) as u16),
                    2 => {
                        out.push(0xD800 + rng.below(0x400) as u16);
                        if out.len() < len {
                            out.push(0xDC00 + rng.below(0x400) as u16);
                        }
                    }
                    _ => out.push(unit(rng, 4, &WS)),
                }
            }
            5 => {
                // white space at the ends, anything inside
                if out.len() < 3 || out.len() + 3 >= len {
                    out.push(*rng.pick(&WS));
                } else {
                    out.push(unit(rng, 8, &WS));
                }
            }
            _ => {
                if rng.below(8) == 7 && out.len() + 1 < len {
                    out.push(0xD800 + rng.below(0x400) as u16);
                    out.push(0xDC00 + rng.below(0x400) as u16);
                } else {
                    out.push(unit(rng, 8, &WS));
                }
            }
        }
    }
    out.truncate(len);
    out
}

/// one code unit of a kind drawn from 0..kinds
fn unit(rng: &mut Rng, kinds: usize, ws: &[u16]) -> u16 {
    match rng.below(kinds) {
        0 | 1 => 0x20 + rng.below(0x5F) as u16,
        2 => *rng.pick(ws),
        3 => 0x80 + rng.below(0x80) as u16,
        4 => {
            // BMP, not a surrogate
            let x = 0x100 + rng.below(0xFF00 - 0x800) as u16;
            if x >= 0xD800 { x + 0x800 } else { x }
        }
        5 => *rng.pick(&[0x100u16, 0x161, 0x3C0, 0x2028, 0xFEFF, 0xFFFF, 0xFF, 0x7F, 0x80]),
        6 => 0xD800 + rng.below(0x800) as u16,
        _ => rng.below(0x80) as u16,
    }
}

fn usage() -> ! {
    eprintln!("usage: strmon exhaustive <maxlen> <shard> <nshards> | random <seed> <count> <maxlen> | replay <hex> [<hex>...]  [--avoid a,b]");
    std::process::exit(2)
}

#[allow(clippy::too_many_lines)]
fn main() -> std::process::ExitCode {
    std::panic::set_hook(Box::new(|info| {
        let loc = info.location().map(|l| format!("{}:{}", l.file(), l.line())).unwrap_or_default();
        let msg = if let Some(s) = info.payload().downcast_ref::<&str>() {
            (*s).to_string()
        } else if let Some(s) = info.payload().downcast_ref::<String>() {
            s.clone()
        } else {
            "<non-string panic payload>".to_string()
        };
        LAST_PANIC.with(|p| *p.borrow_mut() = format!("panic at {loc}: {msg}"));
    }));

    let mut args: Vec<String> = Vec::new();
    let mut ctx = Ctx::default();
    let mut avoid_names: Vec<String> = Vec::new();
    let mut it = std::env::args().skip(1);
    while let Some(a) = it.next() {
        if a == "--avoid" {
            for f in it.next().unwrap_or_default().split(',').filter(|s| !s.is_empty()) {
                match f {
                    "str-eq-latin1-nonascii" => ctx.avoid_str_eq_latin1 = true,
                    "str-eq-utf16-length" => ctx.avoid_str_eq_utf16 = true,
                    "builder-empty-extend-unallocated" => ctx.avoid_builder_empty_extend = true,
                    _ => {
                        eprintln!("unknown avoid flag {f}");
                        std::process::exit(2);
                    }
                }
                avoid_names.push(f.to_string());
            }
        } else if a == "--lite" {
            ctx.lite = true;
        } else if a == "--prof" {
            ctx.prof = true;
        } else {
            args.push(a);
        }
    }
    if args.is_empty() {
        usage();
    }
    let mut run = Run {
        ctx,
        arena: ctor::Arena::default(),
        strings: 0,
        nontrivial: 0,
        constructions: 0,
        max_len: 0,
        len_hist: Vec::new(),
        seen: BTreeSet::new(),
        samples: Vec::new(),
        violation: None,
    };
    let num = |i: usize| -> u64 { args.get(i).and_then(|s| s.parse().ok()).unwrap_or_else(|| usage()) };
    let mut enumerated = 0u64;
    let mode = args[0].clone();
    match mode.as_str() {
        "exhaustive" => {
            let (maxlen, shard, nshards) = (num(1) as usize, num(2), num(3).max(1));
            let mut idx = 0u64;
            'outer: for len in 0..=maxlen {
                let total = (ALPHABET.len() as u64).pow(len as u32);
                for code in 0..total {
                    let mine = idx % nshards == shard;
                    idx += 1;
                    if !mine {
                        continue;
                    }
                    let mut u = Vec::with_capacity(len);
                    let mut c = code;
                    for _ in 0..len {
                        u.push(ALPHABET[(c % 12) as usize]);
                        c /= 12;
                    }
                    u.reverse();
                    if !run.one(&u, &[]) {
                        break 'outer;
                    }
                }
            }
            enumerated = idx;
        }
        "random" => {
            let (seed, count, maxlen) = (num(1), num(2), (num(3) as usize).min(64));
            let mut rng = Rng::new(seed);
            let mut recent: Vec<Vec<u16>> = Vec::new();
            for _ in 0..count {
                let u = gen_random(&mut rng, maxlen);
                // earlier strings of the stream take part in the cross-string comparisons
                let others: Vec<Vec<u16>> = recent.iter().rev().take(3).cloned().collect();
                if !run.one(&u, &others) {
                    break;
                }
                recent.push(u);
                if recent.len() > 8 {
                    recent.remove(0);
                }
            }
        }
        "replay" => {
            let u = args.get(1).and_then(|s| parse_hex(s)).unwrap_or_else(|| usage());
            let others: Vec<Vec<u16>> = args[2..].iter().map(|s| parse_hex(s).unwrap_or_else(|| usage())).collect();
            run.one(&u, &others);
        }
        _ => usage(),
    }

    // ---- report
    let c = &run.ctx;
    let mut o = String::new();
    o.push('{');
    o.push_str(&format!("\"mode\":{},", json_str(&mode)));
    o.push_str(&format!("\"args\":[{}],", args.iter().map(|a| json_str(a)).collect::<Vec<_>>().join(",")));
    o.push_str(&format!("\"avoid\":[{}],", avoid_names.iter().map(|a| json_str(a)).collect::<Vec<_>>().join(",")));
    o.push_str(&format!("\"lite\":{},", run.ctx.lite));
    o.push_str(&format!("\"strings\":{},", run.strings));
    o.push_str(&format!("\"distinct_nontrivial\":{},", run.nontrivial));
    o.push_str(&format!("\"enumerated\":{enumerated},"));
    o.push_str(&format!("\"constructions\":{},", run.constructions));
    o.push_str(&format!("\"max_len\":{},", run.max_len));
    o.push_str(&format!("\"len_hist\":[{}],", run.len_hist.iter().map(u64::to_string).collect::<Vec<_>>().join(",")));
    o.push_str(&format!("\"static_strings_made\":{},", run.arena.len()));
    let map = |m: &mut String, name: &str, it: &mut dyn Iterator<Item = (String, u64)>| {
        m.push_str(&format!("\"{name}\":{{"));
        let body: Vec<String> = it.map(|(k, v)| format!("{}:{}", json_str(&k), v)).collect();
        m.push_str(&body.join(","));
        m.push_str("},");
    };
    map(&mut o, "ops", &mut c.sorted_counts().iter().map(|(k, v)| ((*k).to_string(), *v)));
    map(&mut o, "constructor_families", &mut c.ctor_families.iter().map(|(k, v)| (k.clone(), *v)));
    map(&mut o, "representation_classes", &mut c.repr_classes.iter().map(|(k, v)| (k.clone(), *v)));
    map(&mut o, "representation_pairs", &mut c.repr_pairs.iter().map(|(k, v)| (k.clone(), *v)));
    o.push_str(&format!("\"str_eq_main_stream\":{},", c.str_eq_main));
    o.push_str(&format!(
        "\"quarantine\":{{\"checks\":{},\"agree\":{},\"mismatch_str_eq_latin1_nonascii\":{},\"mismatch_str_eq_utf16_length\":{},\"samples\":[{}]}},",
        c.q_checks,
        c.q_agree,
        c.q_mismatch_latin1,
        c.q_mismatch_utf16,
        c.q_samples.iter().map(|s| json_str(s)).collect::<Vec<_>>().join(",")
    ));
    o.push_str(&format!("\"samples\":[{}],", run.samples.join(",")));
    match &run.violation {
        Some((u, others, v)) => {
            o.push_str(&format!(
                "\"violation\":{{\"units\":{},\"hex\":{},\"others\":[{}],\"op\":{},\"constructors\":[{}],\"expected\":{},\"observed\":{}}}",
                json_units(u),
                json_str(&hex(u)),
                others.iter().map(|x| json_str(&hex(x))).collect::<Vec<_>>().join(","),
                json_str(&v.op),
                v.constructors.iter().map(|s| json_str(s)).collect::<Vec<_>>().join(","),
                json_str(&v.expected),
                json_str(&v.observed)
            ));
        }
        None => o.push_str("\"violation\":null"),
    }
    o.push('}');
    println!("{o}");
    let failed = run.violation.is_some();
    // Every JsString is gone (also after a violation or a caught panic: the handles are dropped on the
    // way out of `check_string`): give the run-time statics back so that leak checkers stay meaningful.
    // SAFETY: no handle survives `Run::one`.
    unsafe { run.arena.free() };
    std::process::ExitCode::from(u8::from(failed))
}
