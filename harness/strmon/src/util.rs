//! Small helpers: deterministic RNG, hex, JSON text, a call-boundary-sensitive hasher.

use std::hash::Hasher;

/// splitmix64
#[derive(Clone)]
pub struct Rng(pub u64);

impl Rng {
    pub fn new(seed: u64) -> Self {
        Rng(seed ^ 0x9E37_79B9_7F4A_7C15)
    }
    pub fn next(&mut self) -> u64 {
        self.0 = self.0.wrapping_add(0x9E37_79B9_7F4A_7C15);
        let mut z = self.0;
        z = (z ^ (z >> 30)).wrapping_mul(0xBF58_476D_1CE4_E5B9);
        z = (z ^ (z >> 27)).wrapping_mul(0x94D0_49BB_1331_11EB);
        z ^ (z >> 31)
    }
    /// uniform in 0..n (n > 0)
    pub fn below(&mut self, n: usize) -> usize {
        (self.next() % (n as u64)) as usize
    }
    pub fn chance(&mut self, num: u64, den: u64) -> bool {
        self.next() % den < num
    }
    pub fn pick<'a, T>(&mut self, xs: &'a [T]) -> &'a T {
        &xs[self.below(xs.len())]
    }
}

pub fn hash_units(u: &[u16]) -> u64 {
    // FNV-1a over the units: seeds the per-string sampling so that `replay` repeats it exactly
    let mut h: u64 = 0xcbf2_9ce4_8422_2325;
    for &x in u {
        for b in x.to_le_bytes() {
            h ^= u64::from(b);
            h = h.wrapping_mul(0x0000_0100_0000_01B3);
        }
    }
    h ^ (u.len() as u64)
}

pub fn hex(u: &[u16]) -> String {
    if u.is_empty() {
        return "-".to_string();
    }
    u.iter().map(|x| format!("{x:04x}")).collect::<Vec<_>>().join("")
}

pub fn parse_hex(s: &str) -> Option<Vec<u16>> {
    if s == "-" || s.is_empty() {
        return Some(Vec::new());
    }
    let s: String = s.chars().filter(|c| !matches!(c, ',' | ' ' | '_')).collect();
    if s.len() % 4 != 0 {
        return None;
    }
    let mut out = Vec::new();
    let b = s.as_bytes();
    for i in (0..b.len()).step_by(4) {
        out.push(u16::from_str_radix(std::str::from_utf8(&b[i..i + 4]).ok()?, 16).ok()?);
    }
    Some(out)
}

pub fn json_str(s: &str) -> String {
    let mut o = String::with_capacity(s.len() + 2);
    o.push('"');
    for c in s.chars() {
        match c {
            '"' => o.push_str("\\\""),
            '\\' => o.push_str("\\\\"),
            '\n' => o.push_str("\\n"),
            '\r' => o.push_str("\\r"),
            '\t' => o.push_str("\\t"),
            c if (c as u32) < 0x20 || c == '\u{7f}' || c == '\u{2028}' || c == '\u{2029}' => {
                o.push_str(&format!("\\u{:04x}", c as u32));
            }
            c => o.push(c),
        }
    }
    o.push('"');
    o
}

pub fn json_units(u: &[u16]) -> String {
    format!("[{}]", u.iter().map(|x| x.to_string()).collect::<Vec<_>>().join(","))
}

/// Same mixing structure as rustc-hash's FxHasher: every `write_*` call is one mixing step, so the
/// result depends on *how* the bytes are fed (per unit or as a block), not only on the bytes.
/// A representation-dependent `Hash` implementation that happens to agree under SipHash (a pure
/// byte-stream hasher) is caught by this one.
#[derive(Default)]
pub struct FxLike {
    h: u64,
}

impl FxLike {
    fn add(&mut self, w: u64) {
        self.h = (self.h.rotate_left(5) ^ w).wrapping_mul(0x517c_c1b7_2722_0a95);
    }
}

impl Hasher for FxLike {
    fn write(&mut self, mut bytes: &[u8]) {
        while bytes.len() >= 8 {
            self.add(u64::from_le_bytes(bytes[..8].try_into().unwrap()));
            bytes = &bytes[8..];
        }
        if bytes.len() >= 4 {
            self.add(u64::from(u32::from_le_bytes(bytes[..4].try_into().unwrap())));
            bytes = &bytes[4..];
        }
        for &b in bytes {
            self.add(u64::from(b));
        }
    }
    fn write_u8(&mut self, i: u8) {
        self.add(u64::from(i));
    }
    fn write_u16(&mut self, i: u16) {
        self.add(u64::from(i));
    }
    fn write_u32(&mut self, i: u32) {
        self.add(u64::from(i));
    }
    fn write_u64(&mut self, i: u64) {
        self.add(i);
    }
    fn write_usize(&mut self, i: usize) {
        self.add(i as u64);
    }
    fn finish(&self) -> u64 {
        self.h
    }
}

/// f64 compared as "same Number value": bit-equal, or both NaN.
#[derive(Clone, Copy)]
pub struct Num(pub f64);

impl PartialEq for Num {
    fn eq(&self, o: &Self) -> bool {
        (self.0.is_nan() && o.0.is_nan()) || self.0.to_bits() == o.0.to_bits()
    }
}

impl std::fmt::Debug for Num {
    fn fmt(&self, f: &mut std::fmt::Formatter<'_>) -> std::fmt::Result {
        if self.0 == 0.0 && self.0.is_sign_negative() {
            write!(f, "-0")
        } else {
            write!(f, "{:?}", self.0)
        }
    }
}
