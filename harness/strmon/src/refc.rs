//! Clone / drop / slice sequences with reference-count conservation.
//!
//! Model: every allocation is a node; `refcount(node)` must always equal the number of handles we
//! hold on it plus the number of live slice allocations that were cut directly from it (a slice
//! keeps its source alive with exactly one reference). Static strings have no count. When the last
//! handle of a slice goes away the slice gives its reference back (possibly cascading).
//! Freeing itself (exactly once, no leak) is observed by AddressSanitizer / Miri.

use crate::ctx::{Ctx, R};
use crate::model;
use crate::util::Rng;
use boa_string::{JsStr, JsString};

struct Node {
    parent: Option<usize>,
    handles: usize,
    children: usize,
    is_static: bool,
    content: Vec<u16>,
}

struct World {
    nodes: Vec<Node>,
    handles: Vec<(JsString, usize)>,
    created: u64,
    dropped: u64,
}

impl World {
    fn add_root(&mut self, s: JsString, content: Vec<u16>) {
        let is_static = s.is_static();
        self.nodes.push(Node { parent: None, handles: 1, children: 0, is_static, content });
        self.handles.push((s, self.nodes.len() - 1));
        self.created += 1;
    }

    fn add_derived(&mut self, s: JsString, from: usize, content: Vec<u16>) {
        let is_static = s.is_static();
        let parent = if is_static { None } else { Some(from) };
        if parent.is_some() {
            self.nodes[from].children += 1;
        }
        self.nodes.push(Node { parent, handles: 1, children: 0, is_static, content });
        self.handles.push((s, self.nodes.len() - 1));
        self.created += 1;
    }

    fn release(&mut self, mut node: usize) {
        self.nodes[node].handles -= 1;
        // a node dies when nothing refers to it any more; a dead slice releases its source
        while self.nodes[node].handles == 0 && self.nodes[node].children == 0 {
            match self.nodes[node].parent.take() {
                Some(p) => {
                    self.nodes[p].children -= 1;
                    node = p;
                }
                None => break,
            }
        }
    }

    fn verify(&self, step: usize, what: &str) -> R {
        for (h, ni) in &self.handles {
            let node = &self.nodes[*ni];
            let exp = if node.is_static { None } else { Some(node.handles + node.children) };
            if exp != h.refcount() {
                let label = format!("step {step}: {what}");
                ck!("refcount conservation (held handles + live slices)", &[label.as_str()], exp, h.refcount());
            }
            if h.len() != node.content.len() || !h.iter().eq(node.content.iter().copied()) {
                let label = format!("step {step}: {what}");
                ck!("content after clone/drop/slice sequence", &[label.as_str()], node.content.clone(), h.to_vec());
            }
        }
        Ok(())
    }
}

pub fn scenario(ctx: &mut Ctx, u: &[u16], rng: &mut Rng) -> R {
    let mut w = World { nodes: Vec::new(), handles: Vec::new(), created: 0, dropped: 0 };
    // roots: padded so that they are never interned / empty
    let mut wide: Vec<u16> = vec![0x3C0];
    wide.extend_from_slice(u);
    wide.push(0x20);
    let s = JsString::from(&wide[..]);
    ck!("refcount of a fresh string", &["from_u16_slice"], Some(1), s.refcount());
    w.add_root(s, wide.clone());
    if let Some(l) = crate::ctor::latin1_of(u) {
        let mut bytes: Vec<u8> = vec![0x01];
        bytes.extend_from_slice(&l);
        bytes.extend_from_slice(b" ~");
        let s = JsString::from(JsStr::latin1(&bytes));
        ck!("refcount of a fresh string", &["jsstr_latin1"], Some(1), s.refcount());
        w.add_root(s, bytes.iter().map(|b| u16::from(*b)).collect());
    }
    let steps = 12 + rng.below(28);
    let mut ops = 0u64;
    for step in 0..steps {
        if w.handles.is_empty() {
            break;
        }
        let k = rng.below(w.handles.len());
        let node = w.handles[k].1;
        let len = w.nodes[node].content.len();
        let what;
        match rng.below(10) {
            0..=2 => {
                what = "clone";
                let c = w.handles[k].0.clone();
                w.nodes[node].handles += 1;
                w.handles.push((c, node));
                w.created += 1;
            }
            3..=5 => {
                what = "drop";
                let (h, ni) = w.handles.swap_remove(k);
                drop(h);
                w.dropped += 1;
                w.release(ni);
            }
            6 | 7 => {
                what = "slice";
                let a = rng.below(len + 2);
                let b = rng.below(len + 3);
                let t = w.handles[k].0.slice(a, b);
                let e = b.min(len);
                let content = if a >= e { Vec::new() } else { w.nodes[node].content[a..e].to_vec() };
                w.add_derived(t, node, content);
            }
            8 => {
                what = "get(range)";
                let a = rng.below(len + 1);
                let b = a + rng.below(len + 1 - a);
                match w.handles[k].0.get(a..b) {
                    Some(t) => {
                        let content = w.nodes[node].content[a..b].to_vec();
                        w.add_derived(t, node, content);
                    }
                    None => ck!("get(range) in bounds", &["refcount scenario"], "Some", "None"),
                }
            }
            _ => {
                what = "trim";
                let t = w.handles[k].0.trim();
                let content = model::trim(&w.nodes[node].content).to_vec();
                w.add_derived(t, node, content);
            }
        }
        ops += 1;
        w.verify(step, what)?;
    }
    // release everything in random order, checking after every drop
    while !w.handles.is_empty() {
        let k = rng.below(w.handles.len());
        let (h, ni) = w.handles.swap_remove(k);
        drop(h);
        w.dropped += 1;
        w.release(ni);
        w.verify(steps, "final drops")?;
        ops += 1;
    }
    ck!("handles in = handles out", &["refcount scenario"], w.created, w.dropped);
    ctx.bump("refcount scenario ops", ops);
    Ok(())
}
