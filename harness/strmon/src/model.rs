//! The oracle: every string operation re-implemented naively on a plain `&[u16]`.
//! Nothing in here calls into boa_string, and the UTF-16 decoding/encoding is written out by hand
//! (not `char::decode_utf16` / `str::encode_utf16`, which the implementation itself uses).

use std::cmp::Ordering;

#[derive(Clone, Copy, PartialEq, Eq, Debug)]
pub enum Cp {
    Scalar(u32),
    Lone(u16),
}

pub fn is_high(x: u16) -> bool {
    (0xD800..=0xDBFF).contains(&x)
}

pub fn is_low(x: u16) -> bool {
    (0xDC00..=0xDFFF).contains(&x)
}

/// ECMA-262 CodePointAt(string, position) -> (code point, code unit count)
pub fn code_point_at(u: &[u16], pos: usize) -> (Cp, usize) {
    let first = u[pos];
    if !is_high(first) && !is_low(first) {
        return (Cp::Scalar(u32::from(first)), 1);
    }
    if is_low(first) || pos + 1 == u.len() {
        return (Cp::Lone(first), 1);
    }
    let second = u[pos + 1];
    if !is_low(second) {
        return (Cp::Lone(first), 1);
    }
    (
        Cp::Scalar(((u32::from(first) - 0xD800) << 10) + (u32::from(second) - 0xDC00) + 0x10000),
        2,
    )
}

/// ECMA-262 StringToCodePoints
pub fn code_points(u: &[u16]) -> Vec<Cp> {
    let mut out = Vec::new();
    let mut i = 0;
    while i < u.len() {
        let (cp, n) = code_point_at(u, i);
        out.push(cp);
        i += n;
    }
    out
}

pub fn scalar_char(v: u32) -> char {
    char::from_u32(v).expect("model produced a non-scalar")
}

/// UTF-16 encoding of a Rust str, by hand
pub fn utf16_of_str(s: &str) -> Vec<u16> {
    let mut out = Vec::new();
    for c in s.chars() {
        let v = c as u32;
        if v < 0x10000 {
            out.push(v as u16);
        } else {
            let w = v - 0x10000;
            out.push(0xD800 + (w >> 10) as u16);
            out.push(0xDC00 + (w & 0x3FF) as u16);
        }
    }
    out
}

/// `Some(String)` iff u is well-formed UTF-16
pub fn to_std_string(u: &[u16]) -> Option<String> {
    let mut s = String::new();
    for cp in code_points(u) {
        match cp {
            Cp::Scalar(v) => s.push(scalar_char(v)),
            Cp::Lone(_) => return None,
        }
    }
    Some(s)
}

pub fn lossy(u: &[u16]) -> String {
    code_points(u)
        .into_iter()
        .map(|cp| match cp {
            Cp::Scalar(v) => scalar_char(v),
            Cp::Lone(_) => '\u{FFFD}',
        })
        .collect()
}

pub fn escaped(u: &[u16]) -> String {
    let mut s = String::new();
    for cp in code_points(u) {
        match cp {
            Cp::Scalar(v) => s.push(scalar_char(v)),
            Cp::Lone(x) => s.push_str(&format!("\\u{x:04X}")),
        }
    }
    s
}

/// maximal runs of scalar values as `Ok`, every unpaired surrogate as `Err`
pub fn segments(u: &[u16]) -> Vec<Result<String, u16>> {
    let mut out: Vec<Result<String, u16>> = Vec::new();
    let mut cur: Option<String> = None;
    for cp in code_points(u) {
        match cp {
            Cp::Scalar(v) => cur.get_or_insert_with(String::new).push(scalar_char(v)),
            Cp::Lone(x) => {
                if let Some(c) = cur.take() {
                    out.push(Ok(c));
                }
                out.push(Err(x));
            }
        }
    }
    if let Some(c) = cur.take() {
        out.push(Ok(c));
    }
    out
}

/// ECMA-262 WhiteSpace (TAB VT FF ZWNBSP + every Zs code point) or LineTerminator (LF CR LS PS).
/// Zs as of Unicode 15/16: 0020 00A0 1680 2000-200A 202F 205F 3000 (180E left Zs in Unicode 6.3).
pub fn is_ws(x: u16) -> bool {
    matches!(
        x,
        0x0009 | 0x000B | 0x000C | 0xFEFF
            | 0x0020 | 0x00A0 | 0x1680 | 0x2000..=0x200A | 0x202F | 0x205F | 0x3000
            | 0x000A | 0x000D | 0x2028 | 0x2029
    )
}

pub fn trim_start(u: &[u16]) -> &[u16] {
    let mut i = 0;
    while i < u.len() && is_ws(u[i]) {
        i += 1;
    }
    &u[i..]
}

pub fn trim_end(u: &[u16]) -> &[u16] {
    let mut j = u.len();
    while j > 0 && is_ws(u[j - 1]) {
        j -= 1;
    }
    &u[..j]
}

pub fn trim(u: &[u16]) -> &[u16] {
    trim_end(trim_start(u))
}

fn same(a: &[u16], b: &[u16]) -> bool {
    if a.len() != b.len() {
        return false;
    }
    for i in 0..a.len() {
        if a[i] != b[i] {
            return false;
        }
    }
    true
}

pub fn units_eq(a: &[u16], b: &[u16]) -> bool {
    same(a, b)
}

/// ECMA-262 StringIndexOf(string, searchValue, fromIndex)
pub fn index_of(u: &[u16], needle: &[u16], from: usize) -> Option<usize> {
    let len = u.len();
    if needle.is_empty() {
        return if from <= len { Some(from) } else { None };
    }
    let sl = needle.len();
    if sl > len {
        return None;
    }
    let mut i = from;
    while i <= len - sl {
        if same(&u[i..i + sl], needle) {
            return Some(i);
        }
        i += 1;
    }
    None
}

pub fn starts_with(u: &[u16], needle: &[u16]) -> bool {
    needle.len() <= u.len() && same(&u[..needle.len()], needle)
}

pub fn ends_with(u: &[u16], needle: &[u16]) -> bool {
    needle.len() <= u.len() && same(&u[u.len() - needle.len()..], needle)
}

/// lexicographic order of the code units (what `<` on JS strings means)
pub fn cmp(a: &[u16], b: &[u16]) -> Ordering {
    let mut i = 0;
    loop {
        match (i < a.len(), i < b.len()) {
            (false, false) => return Ordering::Equal,
            (false, true) => return Ordering::Less,
            (true, false) => return Ordering::Greater,
            (true, true) => {
                if a[i] < b[i] {
                    return Ordering::Less;
                }
                if a[i] > b[i] {
                    return Ordering::Greater;
                }
            }
        }
        i += 1;
    }
}

/// StringToNumber on a *safe subset* only (exact Number parsing is property C13):
///  - only StrWhiteSpace                      -> +0
///  - any code unit that cannot occur in a StringNumericLiteral (after trimming) -> NaN
///  - [+-]Infinity                            -> +-inf
///  - [+-]?digits[.digits] / .digits with at most 15 significant digits -> Rust's correctly
///    rounded `f64::from_str` (independent of the fast_float2 parser boa uses)
/// Everything else: `None` (no expectation from the model; the representations must still agree
/// with each other).
pub fn to_number(u: &[u16]) -> Option<f64> {
    let t = trim(u);
    if t.is_empty() {
        return Some(0.0);
    }
    let mut ascii = String::new();
    for &x in t {
        let ok = x < 0x80
            && (matches!(x as u8, b'0'..=b'9' | b'a'..=b'z' | b'A'..=b'Z' | b'+' | b'-' | b'.'));
        if !ok {
            return Some(f64::NAN);
        }
        ascii.push(x as u8 as char);
    }
    let (neg, rest) = match ascii.as_bytes()[0] {
        b'+' => (false, &ascii[1..]),
        b'-' => (true, &ascii[1..]),
        _ => (false, &ascii[..]),
    };
    if rest == "Infinity" {
        return Some(if neg { f64::NEG_INFINITY } else { f64::INFINITY });
    }
    let digits = rest.bytes().filter(u8::is_ascii_digit).count();
    let dots = rest.bytes().filter(|b| *b == b'.').count();
    if digits >= 1 && digits <= 15 && dots <= 1 && digits + dots == rest.len() {
        let v: f64 = rest.parse().ok()?;
        return Some(if neg { -v } else { v });
    }
    None
}
