//! The monitor proper: every operation on every construction against the model, every pair of
//! constructions against each other.

use crate::ctor::{self, Arena, Built, Piece, latin1_of};
use crate::ctx::{Ctx, R, Viol};
use crate::model::{self, Cp};
use crate::refc;
use crate::util::{FxLike, Num, Rng, hash_units, hex};
use boa_string::{CodePoint, JsStr, JsStrVariant, JsString};
use std::cmp::Ordering;
use std::collections::{BTreeMap, BTreeSet};
use std::hash::{DefaultHasher, Hash, Hasher};
use std::panic::{AssertUnwindSafe, catch_unwind};

fn sip<T: Hash + ?Sized>(t: &T) -> u64 {
    let mut h = DefaultHasher::new();
    t.hash(&mut h);
    h.finish()
}

fn fx<T: Hash + ?Sized>(t: &T) -> u64 {
    let mut h = FxLike::default();
    t.hash(&mut h);
    h.finish()
}

fn cp_of(c: CodePoint) -> Cp {
    match c {
        CodePoint::Unicode(c) => Cp::Scalar(c as u32),
        CodePoint::UnpairedSurrogate(x) => Cp::Lone(x),
    }
}

/// how much of the parameter space one construction gets
#[derive(Clone, Copy, PartialEq, Eq)]
enum Level {
    /// every parameter (n <= 12) or a large sample
    Full,
    /// a small sample of parameters (everything when n <= 4)
    Light,
    /// `--lite` (Miri): identity of content, hashing, indexing, a handful of parameters
    Minimal,
}

/// parameter sets of the swept operations
struct Params {
    needles: Vec<usize>,
    froms: Vec<usize>,
    ranges: Vec<(usize, usize)>,
    windows: Vec<usize>,
    positions: Vec<usize>,
}

pub struct Model<'a> {
    u: &'a [u16],
    n: usize,
    has_high: bool,
    std: Option<String>,
    lossy: String,
    escaped: String,
    cps: Vec<Cp>,
    segs: Vec<Result<String, u16>>,
    mapped: Vec<u16>,
    number: Option<f64>,
    needles: Vec<Piece>,
    test_bytes: Vec<u8>,
    neighbours: Vec<Piece>,
    strs: Vec<(String, Vec<u16>)>,
    full: Params,
    light: Params,
}

impl<'a> Model<'a> {
    #[allow(clippy::too_many_lines)]
    fn new(u: &'a [u16], others: &[Vec<u16>], rng: &mut Rng, lite: bool) -> Self {
        let n = u.len();
        let exhaustive = n <= 12;
        // ---- needles for index_of / starts_with / ends_with
        let mut set: BTreeSet<Vec<u16>> = BTreeSet::new();
        set.insert(Vec::new());
        set.insert(u.to_vec());
        let mutate = |v: &[u16], set: &mut BTreeSet<Vec<u16>>| {
            if let Some((&last, head)) = v.split_last() {
                for m in [last ^ 1, last ^ 0x100, last & 0xFF] {
                    let mut w = head.to_vec();
                    w.push(m);
                    set.insert(w);
                }
            }
        };
        if exhaustive {
            for i in 0..n {
                for j in i + 1..=n {
                    set.insert(u[i..j].to_vec());
                    if j - i <= 2 || j == n || i == 0 {
                        mutate(&u[i..j], &mut set);
                    }
                }
            }
        } else {
            for k in 0..40 {
                let i = rng.below(n);
                let len = if k % 5 < 3 { 1 + rng.below(4) } else { 1 + rng.below(n - i) };
                let j = (i + len).min(n);
                set.insert(u[i..j].to_vec());
                if k % 4 == 0 {
                    mutate(&u[i..j], &mut set);
                }
            }
            for k in [1, 2, n / 2, n - 1] {
                set.insert(u[..k].to_vec());
                set.insert(u[n - k..].to_vec());
            }
        }
        let mut longer = u.to_vec();
        longer.push(0x78);
        set.insert(longer);
        set.insert(vec![0x78]);
        set.insert(vec![0x3C0]);
        let needles: Vec<Piece> = set.iter().map(|v| Piece::new(v)).collect();

        let all_needles: Vec<usize> = (0..needles.len()).collect();
        let some = |k: usize, rng: &mut Rng| -> Vec<usize> {
            if needles.len() <= k {
                return all_needles.clone();
            }
            let mut v: BTreeSet<usize> = BTreeSet::new();
            v.insert(0); // the empty needle sorts first
            while v.len() < k {
                v.insert(rng.below(needles.len()));
            }
            v.into_iter().collect()
        };
        let all_froms: Vec<usize> = (0..=n + 2).collect();
        let some_froms = |k: usize, rng: &mut Rng| -> Vec<usize> {
            let mut v: BTreeSet<usize> = [0, n, n + 1].into_iter().collect();
            if n > 0 {
                v.insert(n - 1);
                v.insert(n / 2);
            }
            while v.len() < k.min(n + 3) {
                v.insert(rng.below(n + 3));
            }
            v.into_iter().collect()
        };
        let all_ranges: Vec<(usize, usize)> = (0..=n + 1).flat_map(|i| (0..=n + 1).map(move |j| (i, j))).collect();
        let some_ranges = |k: usize, rng: &mut Rng| -> Vec<(usize, usize)> {
            let mut v = vec![(0, n), (0, 0), (n, n), (0, n + 1), (n + 1, n + 1), (n, 0), (1, n)];
            for _ in 0..k {
                let i = rng.below(n + 2);
                let j = rng.below(n + 2);
                v.push((i, j));
                v.push((i.min(j), i.max(j)));
            }
            v
        };
        let some_positions = |k: usize, rng: &mut Rng| -> Vec<usize> {
            if n == 0 {
                return Vec::new();
            }
            let mut v: BTreeSet<usize> = [0, n - 1, n / 2].into_iter().collect();
            // every surrogate and its neighbourhood is interesting for code_point_at
            for (i, &x) in u.iter().enumerate() {
                if model::is_high(x) || model::is_low(x) {
                    v.insert(i);
                    if i > 0 {
                        v.insert(i - 1);
                    }
                }
            }
            for _ in 0..k {
                v.insert(rng.below(n));
            }
            v.into_iter().collect()
        };
        let some_windows = |k: usize, rng: &mut Rng| -> Vec<usize> {
            let mut v: BTreeSet<usize> = [1, 2, n.max(1), n + 1].into_iter().collect();
            for _ in 0..k {
                v.insert(1 + rng.below(n + 1));
            }
            v.into_iter().collect()
        };
        let full = if exhaustive {
            Params {
                needles: all_needles.clone(),
                froms: all_froms.clone(),
                ranges: all_ranges.clone(),
                windows: (1..=n + 1).collect(),
                positions: (0..n).collect(),
            }
        } else {
            Params {
                needles: all_needles.clone(),
                froms: some_froms(10, rng),
                ranges: some_ranges(40, rng),
                windows: some_windows(6, rng),
                positions: (0..n).collect(),
            }
        };
        let light = if n <= 4 && !lite {
            Params {
                needles: all_needles.clone(),
                froms: all_froms,
                ranges: all_ranges,
                windows: (1..=n + 1).collect(),
                positions: (0..n).collect(),
            }
        } else {
            Params {
                needles: some(10, rng),
                froms: some_froms(5, rng),
                ranges: some_ranges(6, rng),
                windows: some_windows(1, rng),
                positions: some_positions(4, rng),
            }
        };

        // ---- bytes for contains(): present ones, low bytes of wide units (truncation), absent ones
        let mut tb: BTreeSet<u8> = [0x00, 0x20, 0x61, 0x78, 0x7F, 0x80, 0xC0, 0xE9, 0xFF].into_iter().collect();
        for &x in u.iter().take(24) {
            tb.insert((x & 0xFF) as u8);
            tb.insert((x >> 8) as u8);
        }

        // ---- neighbours: sequences different from u, close to it in the ways that go wrong
        let mut nb: BTreeSet<Vec<u16>> = BTreeSet::new();
        if n > 0 {
            for k in [0, 1, n / 2, n - 1] {
                nb.insert(u[..k].to_vec());
            }
            if n <= 6 {
                for k in 0..n {
                    nb.insert(u[..k].to_vec());
                    nb.insert(u[k..].to_vec());
                }
            }
            let idx: Vec<usize> = if n <= 6 { (0..n).collect() } else { vec![0, n / 2, n - 1, rng.below(n)] };
            for i in idx {
                for m in [u[i] ^ 0x100, u[i].wrapping_add(1), u[i].wrapping_sub(1), u[i] & 0xFF, u[i] | 0xDC00] {
                    let mut w = u.to_vec();
                    w[i] = m;
                    nb.insert(w);
                }
            }
            nb.insert(u.iter().map(|x| x & 0xFF).collect());
        }
        for x in [0x61u16, 0x00, 0x20, 0xE9, 0x3C0, 0xDC00] {
            let mut w = u.to_vec();
            w.push(x);
            nb.insert(w);
            let mut w = vec![x];
            w.extend_from_slice(u);
            nb.insert(w);
        }
        if let Some(l) = latin1_of(u) {
            // UTF-8 bytes of the string read as Latin-1 units, and the reverse
            if let Some(s) = model::to_std_string(u) {
                nb.insert(s.as_bytes().iter().map(|b| u16::from(*b)).collect());
            }
            if let Ok(s) = String::from_utf8(l) {
                nb.insert(model::utf16_of_str(&s));
            }
        }
        for o in others {
            nb.insert(o.clone());
        }
        nb.remove(u);
        let neighbours: Vec<Piece> = nb.iter().map(|v| Piece::new(v)).collect();

        // ---- Rust strs to compare with
        let std = model::to_std_string(u);
        let lossy = model::lossy(u);
        let mut strs: BTreeMap<String, Vec<u16>> = BTreeMap::new();
        let mut add = |s: String| {
            let w = model::utf16_of_str(&s);
            strs.insert(s, w);
        };
        if let Some(s) = &std {
            add(s.clone());
        }
        add(lossy.clone());
        let mut budget = 16;
        for p in &neighbours {
            if budget == 0 {
                break;
            }
            if let Some(s) = model::to_std_string(&p.w) {
                add(s);
                budget -= 1;
            }
        }
        if let Some(l) = latin1_of(u) {
            if let Ok(s) = String::from_utf8(l) {
                add(s);
            }
        }
        add(String::new());
        let strs: Vec<(String, Vec<u16>)> = strs.into_iter().collect();

        let segs = model::segments(u);
        let mut mapped: Vec<u16> = Vec::new();
        for s in &segs {
            match s {
                Ok(t) => mapped.extend(model::utf16_of_str(&format!("<{t}>"))),
                Err(x) => mapped.push(*x),
            }
        }

        Model {
            u,
            n,
            has_high: u.iter().any(|x| *x >= 0x80),
            std,
            lossy,
            escaped: model::escaped(u),
            cps: model::code_points(u),
            segs,
            mapped,
            number: model::to_number(u),
            needles,
            test_bytes: tb.into_iter().collect(),
            neighbours,
            strs,
            full,
            light,
        }
    }
}

fn content(op: &'static str, ctors: &[&str], exp: &[u16], got: &JsString) -> R {
    ck!(op, ctors, exp.len(), got.len());
    if !got.iter().eq(exp.iter().copied()) {
        ck!(op, ctors, exp.to_vec(), got.to_vec());
    }
    Ok(())
}

fn content_deep(op: &'static str, ctors: &[&str], exp: &[u16], got: &JsString) -> R {
    content(op, ctors, exp, got)?;
    let reference = JsString::from(exp);
    ck!(op, ctors, ("result == reference", true), ("result == reference", *got == reference && reference == *got));
    ck!(op, ctors, ("hash(result)", sip(&reference)), ("hash(result)", sip(got)));
    ck!(op, ctors, ("result.cmp(reference)", Ordering::Equal), ("result.cmp(reference)", got.cmp(&reference)));
    ck!(op, ctors, exp.is_empty(), got.is_empty());
    Ok(())
}

/// repr class of a handle as boa itself reports it: "<kind>/<L|W>"
pub fn repr_class(s: &JsString) -> String {
    let d = format!("{:?}", s.debug_info());
    let kind = d
        .find("kind: ")
        .map(|i| {
            let rest = &d[i + 6..];
            let end = rest.find([',', ' ', '\n']).unwrap_or(rest.len());
            rest[..end].to_string()
        })
        .unwrap_or_else(|| "Unknown".to_string());
    format!("{}/{}", kind, if s.as_str().is_latin1() { 'L' } else { 'W' })
}

fn repr_class_cheap(b: &Built) -> String {
    let n = b.name.as_str();
    let enc = if b.s.as_str().is_latin1() { "L" } else { "W" };
    let kind = if b.s.is_static() {
        "Static"
    } else if n.starts_with("slice") || n.starts_with("get_range") || n.starts_with("trim_") {
        "Slice"
    } else if enc == "L" {
        "Latin1Sequence"
    } else {
        "Utf16Sequence"
    };
    format!("{kind}/{enc}")
}

#[allow(clippy::too_many_lines)]
fn unary(ctx: &mut Ctx, m: &Model<'_>, b: &Built, level: Level, first_hashes: (u64, u64), first_number: Num) -> R {
    let s = &b.s;
    let c: &[&str] = &[b.name.as_str()];
    let (u, n) = (m.u, m.n);
    let p = match level {
        Level::Full => &m.full,
        Level::Light | Level::Minimal => &m.light,
    };
    let js = s.as_str();

    // ---- size and raw content
    ck!("len", c, n, s.len());
    ck!("is_empty", c, n == 0, s.is_empty());
    ck!("JsStr::len", c, (n, n == 0), (js.len(), js.is_empty()));
    match s.variant() {
        JsStrVariant::Latin1(bytes) => {
            ck!("variant", c, u.to_vec(), bytes.iter().map(|x| u16::from(*x)).collect::<Vec<u16>>());
            ck!("as_latin1", c, (true, true), (js.is_latin1(), js.as_latin1().is_some()));
        }
        JsStrVariant::Utf16(w) => {
            ck!("variant", c, u, w);
            ck!("as_latin1", c, (false, false), (js.is_latin1(), js.as_latin1().is_some()));
        }
    }
    if level == Level::Minimal {
        // `--lite` (Miri), not a class leader: touch the memory paths only (content through the vtable,
        // one hash, one slice with its reference on the source, clone and drop)
        ck!("iter", c, u.to_vec(), s.iter().collect::<Vec<u16>>());
        ck!("Hash (Fx-like)", c, first_hashes.1, fx(s));
        ck!("code_unit_at", c, u.get(n / 2).copied(), s.code_unit_at(n / 2));
        ck!("code_points", c, m.cps.clone(), s.code_points().map(cp_of).collect::<Vec<_>>());
        let r0 = s.refcount();
        let t = s.slice(n / 2, n);
        content("slice", c, &u[n / 2..], &t)?;
        let k = s.clone();
        if let Some(r) = r0 {
            let held = usize::from(!t.is_static()) + 1;
            ck!("refcount while a slice and a clone are alive", c, Some(r + held), s.refcount());
        }
        drop((t, k));
        ck!("refcount after dropping them", c, r0, s.refcount());
        ck!("JsString == [u16]", c, true, *s == *u);
        ctx.bump("lite: minimal per-construction block", 8);
        return Ok(());
    }
    ck!("to_vec", c, u.to_vec(), s.to_vec());
    ck!("JsStr::to_vec", c, u.to_vec(), js.to_vec());
    ck!("iter", c, u.to_vec(), s.iter().collect::<Vec<u16>>());
    ck!("iter", c, u.to_vec(), s.into_iter().collect::<Vec<u16>>());
    {
        let mut it = js.iter();
        ck!("iter.len", c, n, it.len());
        let take = n / 2;
        for _ in 0..take {
            it.next();
        }
        ck!("iter.len", c, n - take, it.len());
        ck!("iter", c, u[take..].to_vec(), it.clone().collect::<Vec<u16>>());
        for _ in 0..n + 1 {
            it.next();
        }
        ck!("iter (fused)", c, None::<u16>, it.next());
    }
    ctx.bump("len/is_empty", 3);
    ctx.bump("variant/as_latin1", 2);
    ctx.bump("to_vec", 2);
    ctx.bump("iter", 6);

    // ---- indexing
    for i in 0..n + 2 {
        ck!("code_unit_at", c, (i, u.get(i).copied()), (i, s.code_unit_at(i)));
        ck!("JsStr::get(usize)", c, (i, u.get(i).copied()), (i, js.get(i)));
    }
    ctx.bump("code_unit_at", 2 * (n as u64 + 2));
    for &i in &p.positions {
        let (cp, cnt) = model::code_point_at(u, i);
        let got = s.code_point_at(i);
        ck!("code_point_at", c, (i, cp, cnt), (i, cp_of(got), got.code_unit_count()));
        // SAFETY: i < n
        ck!("JsStr::get_unchecked", c, u[i], unsafe { js.get_unchecked(i) });
    }
    ctx.bump("code_point_at", p.positions.len() as u64);
    {
        let got: Vec<CodePoint> = s.code_points().collect();
        ck!("code_points", c, m.cps.clone(), got.iter().map(|x| cp_of(*x)).collect::<Vec<_>>());
        ck!("JsStr::code_points", c, m.cps.clone(), js.code_points().map(cp_of).collect::<Vec<_>>());
        ck!("code_points_lossy", c, m.lossy.clone(), js.code_points_lossy().collect::<String>());
        // CodePoint API: re-encoding every code point gives the units back
        let mut back: Vec<u16> = Vec::new();
        let mut shown = String::new();
        for cp in &got {
            let mut buf = [0u16; 2];
            back.extend_from_slice(cp.encode_utf16(&mut buf));
            shown.push_str(&cp.to_string());
            let as_model = cp_of(*cp);
            let exp_u32 = match as_model {
                Cp::Scalar(v) => v,
                Cp::Lone(x) => u32::from(x),
            };
            ck!("CodePoint::as_u32", c, exp_u32, cp.as_u32());
            ck!("CodePoint::as_char", c, matches!(as_model, Cp::Scalar(_)), cp.as_char().is_some());
        }
        ck!("CodePoint::encode_utf16", c, u.to_vec(), back);
        ck!("CodePoint::fmt", c, m.escaped.clone(), shown);
        let mut it = s.code_points();
        for _ in 0..m.cps.len() {
            it.next();
        }
        ck!("code_points (fused)", c, true, it.next().is_none() && it.next().is_none());
        ctx.bump("code_points", 4);
        ctx.bump("CodePoint api", 2 + 2 * got.len() as u64);
    }

    // ---- windows
    for &k in &p.windows {
        let mut w = s.windows(k);
        let expect = if n >= k { n + 1 - k } else { 0 };
        ck!("windows.len", c, (k, expect), (k, w.len()));
        let mut i = 0;
        for win in w.by_ref() {
            if i + k > n {
                ck!("windows", c, (k, "no more windows"), (k, "an extra window"));
            }
            if !win.iter().eq(u[i..i + k].iter().copied()) {
                ck!("windows", c, (k, i, u[i..i + k].to_vec()), (k, i, win.to_vec()));
            }
            i += 1;
        }
        ck!("windows", c, (k, expect), (k, i));
        ck!("windows (fused)", c, true, w.next().is_none());
        ctx.bump("windows", 1 + i as u64);
    }

    // ---- hashing: equal to the first construction's hash under both hashers, JsStr and JsString agree
    ck!("Hash (DefaultHasher)", c, first_hashes.0, sip(s));
    ck!("Hash (DefaultHasher, JsStr)", c, first_hashes.0, sip(&js));
    ck!("Hash (Fx-like)", c, first_hashes.1, fx(s));
    ck!("Hash (Fx-like, JsStr)", c, first_hashes.1, fx(&js));
    ctx.bump("Hash", 4);

    // ---- conversions to Rust strings
    {
        let got = s.to_std_string();
        ck!("to_std_string", c, m.std.clone(), got.ok());
        ck!("JsStr::to_std_string", c, m.std.clone(), js.to_std_string().ok());
        ck!("to_std_string_lossy", c, m.lossy.clone(), s.to_std_string_lossy());
        ck!("JsStr::to_std_string_lossy", c, m.lossy.clone(), js.to_std_string_lossy());
        ck!("to_std_string_escaped", c, m.escaped.clone(), s.to_std_string_escaped());
        ctx.bump("to_std_string*", 5);
        ck!("display_escaped", c, m.escaped.clone(), format!("{}", s.display_escaped()));
        ck!("display_lossy", c, m.lossy.clone(), format!("{}", s.display_lossy()));
        ck!("JsStr::display_lossy", c, m.lossy.clone(), js.display_lossy().to_string());
        ck!("to_std_string_with_surrogates", c, m.segs.clone(), s.to_std_string_with_surrogates().collect::<Vec<_>>());
        let mapped = s.map_valid_segments(|t| format!("<{t}>"));
        content("map_valid_segments", c, &m.mapped, &mapped)?;
        ck!("Debug", c, format!("JsString({:?})", m.escaped), format!("{s:?}"));
        ck!("JsStr Debug", c, format!("JsStr {{ len: {n} }}"), format!("{js:?}"));
        ctx.bump("display_*", 3);
        ctx.bump("to_std_string_with_surrogates/map_valid_segments", 2);
        ctx.bump("Debug", 2);
    }

    // ---- to_number: all constructions agree; on the safe subset they agree with the model
    {
        let got = Num(s.to_number());
        ck!("to_number (same for every representation)", c, first_number, got);
        ck!("JsStr::to_number", c, got, Num(js.to_number()));
        if let Some(v) = m.number {
            ck!("to_number (safe subset vs model)", c, Num(v), got);
            ctx.bump("to_number (modelled)", 1);
        }
        ctx.bump("to_number (consistency)", 2);
    }

    // ---- trimming
    {
        let r0 = s.refcount();
        let t = s.trim();
        content_deep("trim", c, model::trim(u), &t)?;
        let ts = s.trim_start();
        content_deep("trim_start", c, model::trim_start(u), &ts)?;
        let te = s.trim_end();
        content_deep("trim_end", c, model::trim_end(u), &te)?;
        if let Some(r) = r0 {
            let held = [&t, &ts, &te].iter().filter(|x| !x.is_static()).count();
            ck!("refcount while trim results are alive", c, Some(r + held), s.refcount());
        }
        drop((t, ts, te));
        ck!("refcount after dropping trim results", c, r0, s.refcount());
        ctx.bump("trim/trim_start/trim_end", 3);
        ctx.bump("refcount conservation", 2);
    }

    // ---- contains(u8)
    let nbytes = m.test_bytes.len();
    for &byte in &m.test_bytes {
        let exp = u.iter().any(|x| *x == u16::from(byte));
        ck!("contains", c, (byte, exp), (byte, s.contains(byte)));
    }
    ctx.bump("contains", nbytes as u64);

    // ---- index_of / starts_with / ends_with
    let mut cnt = 0u64;
    for &ni in &p.needles {
        let needle = &m.needles[ni];
        for (tag, view) in needle.views() {
            let sw = model::starts_with(u, &needle.w);
            let ew = model::ends_with(u, &needle.w);
            if s.starts_with(view) != sw {
                ck!("starts_with", c, (hex(&needle.w), tag, sw), (hex(&needle.w), tag, !sw));
            }
            if s.ends_with(view) != ew {
                ck!("ends_with", c, (hex(&needle.w), tag, ew), (hex(&needle.w), tag, !ew));
            }
            for &from in &p.froms {
                let exp = model::index_of(u, &needle.w, from);
                let got = s.index_of(view, from);
                if exp != got {
                    ck!("index_of", c, (hex(&needle.w), tag, from, exp), (hex(&needle.w), tag, from, got));
                }
                cnt += 1;
            }
        }
    }
    ctx.bump("index_of", cnt);
    ctx.bump("starts_with/ends_with", 2 * cnt / (p.froms.len().max(1) as u64));

    // ---- get(range) of every kind, slice(), JsStr::get(range)
    let mut gets = 0u64;
    let r0 = s.refcount();
    for &(i, j) in &p.ranges {
        // Range
        let exp = if i <= j && j <= n { Some(&u[i..j]) } else { None };
        sub_check("get(i..j)", c, (i, j), exp, s.get(i..j))?;
        jsstr_sub("JsStr::get(i..j)", c, (i, j), exp, js.get(i..j))?;
        // RangeInclusive: i..=j means [i, j+1)
        let exp = if j < n && i <= j + 1 { Some(&u[i..=j]) } else { None };
        sub_check("get(i..=j)", c, (i, j), exp, s.get(i..=j))?;
        jsstr_sub("JsStr::get(i..=j)", c, (i, j), exp, js.get(i..=j))?;
        // slice(): clamps the end, empty when start >= end
        let e2 = j.min(n);
        let exp: &[u16] = if i >= e2 { &[] } else { &u[i..e2] };
        let got = s.slice(i, j);
        content("slice", c, exp, &got)?;
        if let (Some(r), false) = (r0, got.is_static()) {
            ck!("refcount while a slice is alive", c, (Some(r + 1), Some(1)), (s.refcount(), got.refcount()));
        }
        drop(got);
        gets += 5;
    }
    for i in 0..=n + 1 {
        let exp = if i <= n { Some(&u[i..]) } else { None };
        sub_check("get(i..)", c, (i, n), exp, s.get(i..))?;
        jsstr_sub("JsStr::get(i..)", c, (i, n), exp, js.get(i..))?;
        let exp = if i <= n { Some(&u[..i]) } else { None };
        sub_check("get(..j)", c, (0, i), exp, s.get(..i))?;
        jsstr_sub("JsStr::get(..j)", c, (0, i), exp, js.get(..i))?;
        let exp = if i < n { Some(&u[..=i]) } else { None };
        sub_check("get(..=j)", c, (0, i), exp, s.get(..=i))?;
        gets += 5;
    }
    sub_check("get(..)", c, (0, n), Some(u), s.get(..))?;
    jsstr_sub("JsStr::get(..)", c, (0, n), Some(u), js.get(..))?;
    content("slice (clamped end)", c, u, &s.slice(0, usize::MAX))?;
    content("slice (start past end)", c, &[], &s.slice(usize::MAX, usize::MAX))?;
    if n > 0 {
        content("get_expect", c, &u[..n - 1], &s.get_expect(..n - 1))?;
        // SAFETY: 0 <= 1 <= n
        ck!("JsStr::get_unchecked(range)", c, u[1..].to_vec(), unsafe { js.get_unchecked(1..n) }.to_vec());
        ck!("JsStr::get_expect", c, u[0], js.get_expect(0));
    }
    ck!("refcount after all slices were dropped", c, r0, s.refcount());
    ck!("refcount is None iff static", c, s.is_static(), s.refcount().is_none());
    ctx.bump("get(range kinds)/slice", gets + 6);
    ctx.bump("refcount conservation", 2);

    // ---- comparisons with the plain unit array
    ck!("JsString == [u16]", c, true, *s == *u);
    ck!("[u16] == JsString", c, true, *u == *s);
    ck!("[u16] == JsStr", c, true, *u == js);
    macro_rules! arr {
        ($($k:literal),+) => {$(
            if n == $k {
                let a: [u16; $k] = u.try_into().expect("length checked");
                ck!("JsString == [u16; N]", c, true, *s == a);
                ck!("[u16; N] == JsString", c, true, a == *s);
            } else {
                let mut a = [0x61u16; $k];
                for (d, x) in a.iter_mut().zip(u.iter()) {
                    *d = *x;
                }
                ck!("JsString == [u16; N]", c, false, *s == a);
                ck!("[u16; N] == JsString", c, false, a == *s);
            }
        )+};
    }
    arr!(0, 1, 2, 3, 4);
    ctx.bump("PartialEq<[u16]> (all impls)", 13);
    Ok(())
}

fn sub_check(op: &'static str, c: &[&str], at: (usize, usize), exp: Option<&[u16]>, got: Option<JsString>) -> R {
    match (exp, got) {
        (None, None) => Ok(()),
        (Some(e), Some(g)) => {
            ck!(op, c, (at, e.len()), (at, g.len()));
            if !g.iter().eq(e.iter().copied()) {
                ck!(op, c, (at, e.to_vec()), (at, g.to_vec()));
            }
            if !g.is_static() {
                // (that the result holds one reference on its source, and gives it back, is checked by the caller)
                ck!(op, c, (at, "refcount of result", Some(1)), (at, "refcount of result", g.refcount()));
            }
            Ok(())
        }
        (e, g) => {
            ck!(op, c, (at, e.map(<[u16]>::to_vec)), (at, g.map(|x| x.to_vec())));
            Ok(())
        }
    }
}

fn jsstr_sub(op: &'static str, c: &[&str], at: (usize, usize), exp: Option<&[u16]>, got: Option<JsStr<'_>>) -> R {
    let g = got.map(|x| x.to_vec());
    if exp.map(<[u16]>::to_vec) != g {
        ck!(op, c, (at, exp.map(<[u16]>::to_vec)), (at, g));
    }
    Ok(())
}

/// `PartialEq<str>` / `PartialEq<&str>` in all five spellings; the shapes of open findings go to the
/// quarantine sub-stream when the corresponding `avoid` flag is set.
fn str_eq(ctx: &mut Ctx, m: &Model<'_>, b: &Built, t: &str, tu: &[u16]) -> R {
    let s = &b.s;
    let js = s.as_str();
    let expected = model::units_eq(m.u, tu);
    let obs: [(&'static str, bool); 5] = [
        ("JsString == str", *s == *t),
        ("JsString == &str", *s == t),
        ("str == JsString", *t == *s),
        ("JsStr == str", js == *t),
        ("JsStr == &str", js == t),
    ];
    let (quarantined, predicted, finding) = match js.variant() {
        JsStrVariant::Latin1(bytes) => (
            ctx.avoid_str_eq_latin1 && (m.has_high || !t.is_ascii()),
            bytes == t.as_bytes(),
            0,
        ),
        JsStrVariant::Utf16(w) => (
            ctx.avoid_str_eq_utf16 && tu.len() != m.n,
            tu.iter().zip(w.iter()).all(|(a, b)| a == b),
            1,
        ),
    };
    for (op, o) in obs {
        let ctors = [b.name.as_str(), "str:", t];
        if !quarantined {
            if o != expected {
                return Err(Viol::new(op, &ctors, format!("{expected:?} (str as units: {})", hex(tu)), format!("{o:?}")));
            }
            ctx.str_eq_main += 1;
            continue;
        }
        ctx.q_checks += 1;
        if o == expected {
            ctx.q_agree += 1;
        } else if o == predicted {
            // exactly what the open finding's defective comparison computes
            if finding == 0 {
                ctx.q_mismatch_latin1 += 1;
            } else {
                ctx.q_mismatch_utf16 += 1;
            }
            let key = format!("{finding}/{op}/{}", if expected { 'T' } else { 'F' });
            if ctx.q_sample_keys.insert(key) && ctx.q_samples.len() < 12 {
                ctx.q_samples.push(format!(
                    "{} [{}] units={} vs str {:?}: expected {}, observed {}",
                    op,
                    b.name,
                    hex(m.u),
                    t,
                    expected,
                    o
                ));
            }
        } else {
            return Err(Viol::new(
                op,
                &ctors,
                format!("{expected:?} (the known defective comparison would also give {predicted:?})"),
                format!("{o:?} (quarantined shape failing differently from the open finding)"),
            ));
        }
    }
    Ok(())
}

/// everything about one code-unit sequence
#[allow(clippy::too_many_lines)]
pub fn check_string(ctx: &mut Ctx, arena: &mut Arena, u: &[u16], others: &[Vec<u16>]) -> R<(usize, usize)> {
    let mut rng = Rng::new(hash_units(u));
    let t0 = std::time::Instant::now();
    let prof = ctx.prof;
    let mark = |what: &str| {
        if prof {
            eprintln!("[prof] {:>9.3}s {}", t0.elapsed().as_secs_f64(), what);
        }
    };
    let built = ctor::build_all(ctx, arena, u, &mut rng)?;
    mark("constructions built");
    let m = Model::new(u, others, &mut rng, ctx.lite);
    mark("model prepared");
    let n = m.n;

    // representation classes, as reported by the library itself
    // (under --lite the Debug formatting is avoided: slices are recognised by their constructor's name)
    let classes: Vec<String> = built
        .iter()
        .map(|b| if ctx.lite { repr_class_cheap(b) } else { repr_class(&b.s) })
        .collect();
    let mut class_count: BTreeMap<&str, u64> = BTreeMap::new();
    for c in &classes {
        *class_count.entry(c.as_str()).or_insert(0) += 1;
        *ctx.repr_classes.entry(c.clone()).or_insert(0) += 1;
    }
    {
        let keys: Vec<(&str, u64)> = class_count.iter().map(|(k, v)| (*k, *v)).collect();
        for (i, (a, ca)) in keys.iter().enumerate() {
            for (b, cb) in &keys[i..] {
                let pairs = if a == b { ca * (ca - 1) / 2 } else { ca * cb };
                if pairs > 0 {
                    *ctx.repr_pairs.entry(format!("{a} ~ {b}")).or_insert(0) += pairs;
                }
            }
        }
    }

    // ---- unary operations against the model; the first member of every class gets the full sweep
    let lite = ctx.lite;
    let first_hashes = (sip(&built[0].s), fx(&built[0].s));
    let first_number = Num(built[0].s.to_number());
    let mut seen: BTreeSet<&str> = BTreeSet::new();
    let mut leaders: Vec<usize> = Vec::new();
    for (k, (b, class)) in built.iter().zip(&classes).enumerate() {
        let leader = seen.insert(class.as_str());
        if leader {
            leaders.push(k);
        }
        let level = match (lite, leader) {
            (false, true) => Level::Full,
            (false, false) => if n <= 6 { Level::Full } else { Level::Light },
            (true, true) => Level::Light,
            (true, false) => Level::Minimal,
        };
        unary(ctx, &m, b, level, first_hashes, first_number)?;
    }
    mark("unary operations");
    // the constructions that take part in the comparisons with other contents
    let members: Vec<usize> = if lite { leaders.clone() } else { (0..built.len()).collect() };

    // ---- documented panic: code_point_at(len) must not read out of bounds
    for k in [0, rng.below(built.len())] {
        let s = &built[k].s;
        let r = catch_unwind(AssertUnwindSafe(|| s.code_point_at(n)));
        ck!("code_point_at(len) panics", &[built[k].name.as_str()], true, r.is_err());
        ctx.bump("code_point_at(len) panics", 1);
    }

    // ---- every pair of constructions
    let firsts: Vec<usize> = if lite { leaders.clone() } else { (0..built.len()).collect() };
    let mut np = 0u64;
    for &i in &firsts {
        let (a, an) = (&built[i].s, built[i].name.as_str());
        let start = if lite { 0 } else { i + 1 };
        for bj in &built[start..] {
            np += 1;
            let (b, bn) = (&bj.s, bj.name.as_str());
            let c: &[&str] = &[an, bn];
            if !(*a == *b && *b == *a) || *a != *b {
                ck!("JsString == JsString", c, true, false);
            }
            if a.cmp(b) != Ordering::Equal || b.cmp(a) != Ordering::Equal {
                ck!("cmp", c, (Ordering::Equal, Ordering::Equal), (a.cmp(b), b.cmp(a)));
            }
            if lite {
                continue;
            }
            if a.partial_cmp(b) != Some(Ordering::Equal) {
                ck!("partial_cmp", c, Some(Ordering::Equal), a.partial_cmp(b));
            }
            let (ja, jb) = (a.as_str(), b.as_str());
            if !(ja == jb && *a == jb && jb == *a) {
                ck!("JsStr == JsStr / JsString == JsStr / JsStr == JsString", c, (true, true, true), (ja == jb, *a == jb, jb == *a));
            }
            if ja.cmp(&jb) != Ordering::Equal || ja.partial_cmp(&jb) != Some(Ordering::Equal) {
                ck!("JsStr::cmp", c, Ordering::Equal, ja.cmp(&jb));
            }
        }
    }
    ctx.bump("pairs: ==", 3 * np);
    ctx.bump("pairs: cmp/partial_cmp", if lite { 2 * np } else { 3 * np });
    if !lite {
        ctx.bump("pairs: JsStr ==/cmp", 5 * np);
    }

    mark("pairs");
    // ---- against different sequences (both encodings, both directions)
    let mut nc = 0u64;
    let nb_step = if lite { m.neighbours.len().div_ceil(6).max(1) } else { 1 };
    for v in m.neighbours.iter().step_by(nb_step) {
        let ord = model::cmp(u, &v.w);
        let eq = model::units_eq(u, &v.w);
        let (sw, ew) = (model::starts_with(u, &v.w), model::ends_with(u, &v.w));
        let vjs: Vec<JsString> = vec![JsString::from(&v.w[..]), JsString::from(v.natural())];
        for &k in &members {
            let b = &built[k];
            let s = &b.s;
            let js = s.as_str();
            let bn = b.name.as_str();
            for (tag, view) in v.views() {
                let bad_eq = (*s == view) != eq || (view == *s) != eq || (js == view) != eq || (view == js) != eq;
                let bad_cmp = js.cmp(&view) != ord || view.cmp(&js) != ord.reverse() || js.partial_cmp(&view) != Some(ord);
                let bad_sw = s.starts_with(view) != sw || s.ends_with(view) != ew || js.starts_with(view) != sw || js.ends_with(view) != ew;
                if bad_eq || bad_cmp || bad_sw {
                    let other = format!("other={} as JsStr/{tag}", hex(&v.w));
                    let c: &[&str] = &[bn, other.as_str()];
                    if bad_eq {
                        ck!("== (different content)", c, [eq; 4], [*s == view, view == *s, js == view, view == js]);
                    }
                    if bad_cmp {
                        ck!("JsStr::cmp (different content)", c, (ord, ord.reverse()), (js.cmp(&view), view.cmp(&js)));
                    }
                    ck!("starts_with/ends_with (different content)", c, (sw, ew), (s.starts_with(view), s.ends_with(view)));
                }
                nc += 1;
            }
            if (*s == *v.w) != eq || (*v.w == *s) != eq || (*v.w == js) != eq {
                let other = format!("other={} as [u16]", hex(&v.w));
                let c: &[&str] = &[bn, other.as_str()];
                ck!("== [u16] (different content)", c, [eq; 3], [*s == *v.w, *v.w == *s, *v.w == js]);
            }
            for vj in &vjs {
                let bad_eq = (*s == *vj) != eq || (*vj == *s) != eq || (*s != *vj) == eq;
                let bad_cmp = s.cmp(vj) != ord || vj.cmp(s) != ord.reverse() || s.partial_cmp(vj) != Some(ord);
                if bad_eq || bad_cmp {
                    let other = format!("other={} as {}", hex(&v.w), repr_class(vj));
                    let c: &[&str] = &[bn, other.as_str()];
                    if bad_eq {
                        ck!("JsString == JsString (different content)", c, [eq; 2], [*s == *vj, *vj == *s]);
                    }
                    ck!("cmp (different content)", c, (ord, ord.reverse()), (s.cmp(vj), vj.cmp(s)));
                }
                nc += 1;
            }
        }
    }
    ctx.bump("neighbours: ==", 6 * nc);
    ctx.bump("neighbours: cmp/partial_cmp", 3 * nc);
    ctx.bump("neighbours: starts_with/ends_with", 2 * nc);

    mark("neighbours");
    // ---- against Rust strs
    let st_step = if lite { m.strs.len().div_ceil(4).max(1) } else { 1 };
    for (t, tu) in m.strs.iter().step_by(st_step) {
        for &k in &members {
            str_eq(ctx, &m, &built[k], t, tu)?;
        }
    }

    // ---- CodePoint conversions of single units / chars (once per string)
    for &x in u.iter().take(16) {
        let exp = if model::is_high(x) || model::is_low(x) { Cp::Lone(x) } else { Cp::Scalar(u32::from(x)) };
        ck!("CodePoint::from(u16)", &[], exp, cp_of(CodePoint::from(x)));
        if let Cp::Scalar(v) = exp {
            ck!("CodePoint::from(char)", &[], exp, cp_of(CodePoint::from(model::scalar_char(v))));
        }
        ctx.bump("CodePoint api", 2);
    }

    mark("strs");
    // ---- clone / drop / slice sequences with refcount conservation
    refc::scenario(ctx, u, &mut rng)?;
    mark("refcount scenario");

    let distinct_classes = class_count.len();
    let count = built.len();
    drop(built);
    Ok((count, distinct_classes))
}
