//! Every public way of boa_string to obtain a `JsString` with a given code-unit sequence.

use crate::ctx::{Ctx, R};
use crate::model;
use crate::util::Rng;
use boa_string::{
    CommonJsStringBuilder, JsStr, JsString, Latin1JsStringBuilder, StaticJsStrings, StaticString,
    Utf16JsStringBuilder,
};
use std::borrow::Cow;
use std::str::FromStr;

pub struct Built {
    pub name: String,
    pub s: JsString,
}

impl Built {
    fn new(name: impl Into<String>, s: JsString) -> Self {
        Built { name: name.into(), s }
    }
}

pub fn latin1_of(u: &[u16]) -> Option<Vec<u8>> {
    let mut out = Vec::with_capacity(u.len());
    for &x in u {
        if x > 0xFF {
            return None;
        }
        out.push(x as u8);
    }
    Some(out)
}

/// a code-unit sequence together with its two possible borrowed views
pub struct Piece {
    pub w: Vec<u16>,
    pub l: Option<Vec<u8>>,
}

impl Piece {
    pub fn new(u: &[u16]) -> Self {
        Piece { w: u.to_vec(), l: latin1_of(u) }
    }
    pub fn utf16(&self) -> JsStr<'_> {
        JsStr::utf16(&self.w)
    }
    pub fn latin1(&self) -> Option<JsStr<'_>> {
        self.l.as_deref().map(JsStr::latin1)
    }
    /// Latin-1 if possible, else UTF-16
    pub fn natural(&self) -> JsStr<'_> {
        self.latin1().unwrap_or_else(|| self.utf16())
    }
    /// (tag, view) for every available encoding
    pub fn views(&self) -> Vec<(char, JsStr<'_>)> {
        let mut v = Vec::new();
        if let Some(l) = self.latin1() {
            v.push(('L', l));
        }
        v.push(('W', self.utf16()));
        v
    }
}

/// Backing store for `StaticString`s made at run time (the same thing `js_string!("literal")`
/// expands to: `JsString::from_static(&StaticString::new(JsStr))`), kept alive until the very end
/// of the process and then freed (so that leak checkers stay meaningful).
#[derive(Default)]
pub struct Arena {
    w: Vec<*mut [u16]>,
    l: Vec<*mut [u8]>,
    s: Vec<*mut StaticString>,
}

impl Arena {
    pub fn static_utf16(&mut self, u: &[u16]) -> JsString {
        let data: *mut [u16] = Box::into_raw(u.to_vec().into_boxed_slice());
        self.w.push(data);
        // SAFETY: the allocation lives until `Arena::free`, which runs after every JsString is gone.
        let js: JsStr<'static> = JsStr::utf16(unsafe { &*data });
        self.finish(js)
    }
    pub fn static_latin1(&mut self, b: &[u8]) -> JsString {
        let data: *mut [u8] = Box::into_raw(b.to_vec().into_boxed_slice());
        self.l.push(data);
        // SAFETY: as above.
        let js: JsStr<'static> = JsStr::latin1(unsafe { &*data });
        self.finish(js)
    }
    fn finish(&mut self, js: JsStr<'static>) -> JsString {
        let st: *mut StaticString = Box::into_raw(Box::new(StaticString::new(js)));
        self.s.push(st);
        // SAFETY: as above.
        JsString::from_static(unsafe { &*st })
    }
    /// # Safety
    /// no `JsString` made from this arena (or slice of one) may be alive or dropped afterwards
    pub unsafe fn free(&mut self) {
        unsafe {
            for p in self.s.drain(..) {
                drop(Box::from_raw(p));
            }
            for p in self.w.drain(..) {
                drop(Box::from_raw(p));
            }
            for p in self.l.drain(..) {
                drop(Box::from_raw(p));
            }
        }
    }
    pub fn len(&self) -> usize {
        self.s.len()
    }
}

// ---- true `static` samples (what `js_string!("...")` produces for literals)
macro_rules! fixed_statics {
    ($( $name:ident = $e:expr ;)+) => {
        $( static $name: StaticString = StaticString::new($e); )+
        static FIXED: &[&StaticString] = &[ $( &$name ),+ ];
    };
}

fixed_statics! {
    F_EMPTY = JsStr::latin1(b"");
    F_A = JsStr::latin1(b"a");
    F_0 = JsStr::latin1(b"0");
    F_SP = JsStr::latin1(b" ");
    F_A0 = JsStr::latin1(b"a0");
    F_A0SP = JsStr::latin1(b"a0 ");
    F_DEL = JsStr::latin1(&[0x7F]);
    F_E9 = JsStr::latin1(&[0xE9]);
    F_80FF = JsStr::latin1(&[0x80, 0xFF]);
    F_AE9 = JsStr::latin1(&[0x61, 0xE9]);
    F_W_A = JsStr::utf16(&[0x61]);
    F_W_E9 = JsStr::utf16(&[0xE9]);
    F_100 = JsStr::utf16(&[0x100]);
    F_PI = JsStr::utf16(&[0x3C0]);
    F_HI = JsStr::utf16(&[0xD800]);
    F_LO = JsStr::utf16(&[0xDC00]);
    F_PAIR = JsStr::utf16(&[0xD800, 0xDC00]);
    F_FFFF = JsStr::utf16(&[0xFFFF]);
    F_ABPI = JsStr::utf16(&[0x61, 0x62, 0x3C0]);
    F_API = JsStr::utf16(&[0x61, 0x3C0]);
    F_LENGTH = JsStr::latin1(b"length");
    F_INFINITY = JsStr::latin1(b"Infinity");
    F_W_EMPTY = JsStr::utf16(&[]);
}

fn family(name: &str) -> String {
    match name.find(['@', ':']) {
        Some(i) => name[..i].to_string(),
        None => name.to_string(),
    }
}

macro_rules! seq_builders {
    ($out:expr, $B:ty, $unit:ty, $data:expr, $tag:literal, $rng:expr, $avoid:expr, $finish:expr) => {{
        let data: &[$unit] = $data;
        let n = data.len();
        let rng: &mut Rng = $rng;
        // `avoid` flag builder-empty-extend-unallocated (open finding): appending an EMPTY slice to a
        // builder that has not allocated yet is skipped in the main stream (it is a no-op by contract).
        let avoid: bool = $avoid;
        let ext = |b: &mut $B, v: &[$unit]| {
            if !(avoid && v.is_empty() && b.capacity() == 0) {
                b.extend_from_slice(v);
            }
        };
        let from = |v: &[$unit]| -> $B {
            if avoid && v.is_empty() { <$B>::new() } else { <$B>::from(v) }
        };
        #[allow(clippy::redundant_closure_call)]
        let mut fin = |name: &str, b: $B| -> R {
            ck!("builder.as_slice", &[$tag, name], data, b.as_slice());
            ck!("builder.len", &[$tag, name], (n, n == 0, true), (b.len(), b.is_empty(), b.capacity() >= b.len()));
            let (main, extra): (JsString, Option<JsString>) = ($finish)(name, b)?;
            $out.push(Built::new(format!("{}_{}", $tag, name), main));
            if let Some(e) = extra {
                $out.push(Built::new(format!("{}_{}_checked", $tag, name), e));
            }
            Ok(())
        };
        // 1. one unit at a time (growth by doubling, shrink at build)
        {
            let mut b = <$B>::new();
            ck!("builder.new", &[$tag], (0usize, 0usize, true), (b.len(), b.capacity(), b.is_empty()));
            for (i, &x) in data.iter().enumerate() {
                b.push(x);
                ck!("builder.len", &[$tag, "push"], i + 1, b.len());
            }
            fin("push", b)?;
        }
        // 2. exact capacity, one block
        {
            let mut b = <$B>::with_capacity(n);
            ck!("builder.capacity", &[$tag, "with_capacity"], true, b.capacity() >= n);
            ext(&mut b, data);
            fin("block", b)?;
        }
        // 3. two blocks with reserve in between, small initial capacity
        {
            let cut = if n == 0 { 0 } else { rng.below(n + 1) };
            let mut b = <$B>::with_capacity(n / 3);
            ext(&mut b, &data[..cut]);
            if rng.chance(1, 2) {
                b.reserve(n - cut);
            } else {
                b.reserve_exact(n - cut);
            }
            ck!("builder.capacity", &[$tag, "reserve"], true, b.capacity() >= n);
            if !(avoid && cut == n && b.capacity() == 0) {
                b += &data[cut..];
            }
            fin("two_blocks", b)?;
        }
        // 4. From<&[unit]>, FromIterator, Extend
        {
            fin("from_slice", from(data))?;
            let b: $B = data.iter().copied().collect();
            fin("from_iter", b)?;
            let cut = n / 2;
            let mut b = from(&data[..cut]);
            b.extend(data[cut..].iter().copied());
            fin("extend_iter", b)?;
        }
        // 5. operators: builder + &builder, builder + &[unit], +=
        {
            let cut = if n == 0 { 0 } else { rng.below(n + 1) };
            let left = from(&data[..cut]);
            let right = from(&data[cut..]);
            let b = if avoid && right.is_empty() && left.capacity() == 0 { left.clone() } else { left.clone() + &right };
            ck!("builder.eq", &[$tag, "add"], true, b == from(data));
            fin("add_builder", b)?;
            let mut b = if avoid && left.capacity() == 0 { left } else { left + &data[cut..cut] };
            if !(avoid && right.is_empty() && b.capacity() == 0) {
                b += &right;
            }
            fin("add_assign_builder", b)?;
        }
        // 6. clone / clone_from over a builder with unrelated content (longer and shorter)
        {
            let src = from(data);
            let c = src.clone();
            ck!("builder.eq", &[$tag, "clone"], true, c == src);
            fin("clone", c)?;
            let mut dst = <$B>::new();
            for _ in 0..rng.below(2 * n + 3) {
                dst.push(data.first().copied().unwrap_or_default());
            }
            dst.clone_from(&src);
            ck!("builder.eq", &[$tag, "clone_from"], true, dst == src);
            fin("clone_from", dst)?;
            drop(src);
        }
        // 7. reserve_exact then the unchecked block copy used by the engine
        {
            let mut b = <$B>::new();
            b.reserve_exact(n);
            if !(avoid && n == 0) {
                // SAFETY: capacity for n units was reserved just above.
                unsafe { b.extend_from_slice_unchecked(data) };
            }
            fin("reserve_exact_unchecked", b)?;
        }
    }};
}

/// All constructions of `u`. Errors are violations found while *building* (builder state checks).
#[allow(clippy::too_many_lines)]
pub fn build_all(ctx: &mut Ctx, arena: &mut Arena, u: &[u16], rng: &mut Rng) -> R<Vec<Built>> {
    let n = u.len();
    let whole = Piece::new(u);
    let lat = whole.l.clone();
    let st: Option<String> = model::to_std_string(u);
    let mut out: Vec<Built> = Vec::new();

    // ---- A. direct conversions
    out.push(Built::new("from_u16_slice", JsString::from(u)));
    out.push(Built::new("jsstr_utf16", JsString::from(whole.utf16())));
    if let Some(l) = whole.latin1() {
        out.push(Built::new("jsstr_latin1", JsString::from(l)));
    }
    if let Some(s) = &st {
        out.push(Built::new("from_str", JsString::from(s.as_str())));
        out.push(Built::new("from_string", JsString::from(s.clone())));
        out.push(Built::new("from_str_trait", JsString::from_str(s).expect("Infallible")));
        out.push(Built::new("parse", s.parse::<JsString>().expect("Infallible")));
        out.push(Built::new("from_cow_borrowed", JsString::from(Cow::Borrowed(s.as_str()))));
        out.push(Built::new("from_cow_owned", JsString::from(Cow::<str>::Owned(s.clone()))));
        if let Ok(v) = s.parse::<i64>() {
            if v.to_string() == *s {
                out.push(Built::new("from_i64", JsString::from(v)));
                if let Ok(v32) = u32::try_from(v) {
                    out.push(Built::new("from_u32", JsString::from(v32)));
                }
            }
        }
    }
    match n {
        0 => {
            out.push(Built::new("from_u16_array", JsString::from(&[0u16; 0])));
            out.push(Built::new("default", JsString::default()));
            out.push(Built::new("well_known_empty", StaticJsStrings::EMPTY_STRING));
        }
        1 => out.push(Built::new("from_u16_array", JsString::from(&[u[0]]))),
        2 => out.push(Built::new("from_u16_array", JsString::from(&[u[0], u[1]]))),
        3 => out.push(Built::new("from_u16_array", JsString::from(&[u[0], u[1], u[2]]))),
        4 => out.push(Built::new("from_u16_array", JsString::from(&[u[0], u[1], u[2], u[3]]))),
        _ => {}
    }
    // statics: run-time made (every u), true statics (fixed samples), interned well-known strings
    out.push(Built::new("static_utf16", arena.static_utf16(u)));
    if let Some(l) = &lat {
        out.push(Built::new("static_latin1", arena.static_latin1(l)));
    }
    for f in FIXED {
        let s = JsString::from_static(f);
        if s.len() == n && s.iter().eq(u.iter().copied()) {
            let name = if s.as_str().is_latin1() { "static_fixed_latin1" } else { "static_fixed_utf16" };
            out.push(Built::new(name, s));
        }
    }
    {
        let a = StaticJsStrings::get_string(&whole.utf16());
        let b = whole.latin1().map(|l| StaticJsStrings::get_string(&l));
        if let Some(b) = &b {
            ck!("StaticJsStrings::get_string", &["utf16-view", "latin1-view"], a.is_some(), b.is_some());
        }
        let c = StaticJsStrings::get_js_str(&whole.utf16());
        ck!("StaticJsStrings::get_js_str", &["utf16-view"], a.is_some(), c.is_some());
        if let Some(c) = c {
            ck!("StaticJsStrings::get_js_str", &["utf16-view"], u.to_vec(), c.to_vec());
        }
        if let Some(a) = a {
            ck!("StaticJsStrings::get_string", &["utf16-view"], true, a.is_static());
            out.push(Built::new("well_known_interned", a));
        }
        if st.as_deref() == Some("length") {
            out.push(Built::new("well_known_const", StaticJsStrings::LENGTH));
        }
        if st.as_deref() == Some("isNaN") {
            out.push(Built::new("well_known_const", StaticJsStrings::IS_NAN));
        }
    }

    // ---- B. concatenation at every split point, every encoding combination of the two halves
    let splits: Vec<usize> = if n <= 8 {
        (0..=n).collect()
    } else {
        let mut v = vec![0, 1, n / 2, n - 1, n];
        for _ in 0..3 {
            v.push(rng.below(n + 1));
        }
        v.sort_unstable();
        v.dedup();
        v
    };
    for &k in &splits {
        let (lp, rp) = (Piece::new(&u[..k]), Piece::new(&u[k..]));
        let (lv, rv) = (lp.views(), rp.views());
        let all = n <= 4;
        let mut combos: Vec<((char, JsStr<'_>), (char, JsStr<'_>))> = Vec::new();
        for &l in &lv {
            for &r in &rv {
                combos.push((l, r));
            }
        }
        if !all && combos.len() > 2 {
            // natural x natural, wide x wide, and one mixed combination
            let first = combos[0];
            let last = combos[combos.len() - 1];
            let mid = combos[1 + rng.below(combos.len() - 2)];
            combos = vec![first, mid, last];
        }
        for ((lt, l), (rt, r)) in combos {
            out.push(Built::new(format!("concat@{k}:{lt}{rt}"), JsString::concat(l, r)));
        }
    }
    {
        let mut pairs: Vec<(usize, usize)> = Vec::new();
        if n <= 4 {
            for i in 0..=n {
                for j in i..=n {
                    pairs.push((i, j));
                }
            }
        } else {
            for _ in 0..3 {
                let i = rng.below(n + 1);
                let j = i + rng.below(n + 1 - i);
                pairs.push((i, j));
            }
        }
        for (idx, &(i, j)) in pairs.iter().enumerate() {
            let (a, b, c) = (Piece::new(&u[..i]), Piece::new(&u[i..j]), Piece::new(&u[j..]));
            out.push(Built::new(
                format!("concat_array@{i},{j}"),
                JsString::concat_array(&[a.natural(), b.natural(), c.natural()]),
            ));
            if idx == 0 || idx + 1 == pairs.len() {
                let e = JsStr::utf16(&[]);
                out.push(Built::new(
                    format!("concat_array_with_empties@{i},{j}"),
                    JsString::concat_array(&[JsStr::EMPTY, a.utf16(), e, b.natural(), JsStr::EMPTY, c.natural(), e]),
                ));
                let parts = [JsString::from(a.natural()), JsString::from(&b.w[..]), JsString::from(c.natural())];
                out.push(Built::new(format!("from_jsstring_slice@{i},{j}"), JsString::from(&parts[..])));
                out.push(Built::new(format!("from_jsstring_array@{i},{j}"), JsString::from(&parts)));
            }
        }
        out.push(Built::new("concat_array_single", JsString::concat_array(&[whole.natural()])));
        if n == 0 {
            out.push(Built::new("concat_array_none", JsString::concat_array(&[])));
        }
    }

    // ---- C. slices of longer strings
    {
        // UTF-16 parent: the slice is UTF-16 encoded even when u itself is Latin-1 only
        let mut pw: Vec<u16> = vec![0x3C0, 0x78];
        pw.extend_from_slice(u);
        pw.extend_from_slice(&[0x78, 0xD800]);
        let parent_w = JsString::from(&pw[..]);
        out.push(Built::new("slice_of_utf16", parent_w.slice(2, 2 + n)));
        if let Some(g) = parent_w.get(2..2 + n) {
            out.push(Built::new("get_range_of_utf16", g));
        } else {
            ck!("get(range)", &["utf16 parent"], "Some", "None");
        }
        if n > 0 {
            if let Some(g) = parent_w.get(2..=n + 1) {
                out.push(Built::new("get_range_inclusive_of_utf16", g));
            } else {
                ck!("get(range inclusive)", &["utf16 parent"], "Some", "None");
            }
        }
        let mid = parent_w.slice(1, n + 3);
        out.push(Built::new("slice_of_slice_utf16", mid.slice(1, 1 + n)));
        // SAFETY: 2 <= 2 + n <= parent length (n + 4)
        out.push(Built::new("slice_unchecked_of_utf16", unsafe { JsString::slice_unchecked(&parent_w, 2, 2 + n) }));
        let st_parent = arena.static_utf16(&pw);
        out.push(Built::new("slice_of_static_utf16", st_parent.slice(2, 2 + n)));

        if let Some(l) = &lat {
            let mut pl: Vec<u8> = vec![b'<', 0xE9];
            pl.extend_from_slice(l);
            pl.extend_from_slice(b">>");
            let parent_l = JsString::from(JsStr::latin1(&pl));
            out.push(Built::new("slice_of_latin1", parent_l.slice(2, 2 + n)));
            if let Some(g) = parent_l.get(2..n + 2) {
                out.push(Built::new("get_range_of_latin1", g));
            }
            let mid = parent_l.slice(1, n + 3);
            out.push(Built::new("slice_of_slice_latin1", mid.slice(1, 1 + n)));
            let mid2 = mid.slice(1, n + 2);
            out.push(Built::new("slice_of_slice_of_slice_latin1", mid2.slice(0, n)));
            let st_parent = arena.static_latin1(&pl);
            out.push(Built::new("slice_of_static_latin1", st_parent.slice(2, 2 + n)));
            // SAFETY: in range as above
            out.push(Built::new("slice_unchecked_of_latin1", unsafe { JsString::slice_unchecked(&parent_l, 2, 2 + n) }));
        }
        // end clamping
        let mut px: Vec<u16> = vec![0x78];
        px.extend_from_slice(u);
        let parent_x = JsString::from(&px[..]);
        out.push(Built::new("slice_clamped", parent_x.slice(1, usize::MAX)));
        if let Some(g) = parent_x.get(1..) {
            out.push(Built::new("get_range_from", g));
        }
        // whole-string slices
        let base = JsString::from(whole.natural());
        if let Some(g) = base.get(..) {
            out.push(Built::new("get_range_full", g));
        }
        if let Some(g) = base.get(..n) {
            out.push(Built::new("get_range_to", g));
        }
        // trimming a padded string
        if n > 0 && !model::is_ws(u[0]) && !model::is_ws(u[n - 1]) {
            let mut p: Vec<u16> = vec![0x20, 0x09];
            p.extend_from_slice(u);
            p.extend_from_slice(&[0x0A, 0xFEFF]);
            let padded = JsString::from(&p[..]);
            out.push(Built::new("trim_of_padded_utf16", padded.trim()));
            out.push(Built::new("trim_start_of_padded_utf16", JsString::from(&p[..n + 2]).trim_start()));
            out.push(Built::new("trim_end_of_padded_utf16", JsString::from(&p[2..]).trim_end()));
            if let Some(l) = &lat {
                let mut p: Vec<u8> = vec![0x20, 0xA0];
                p.extend_from_slice(l);
                p.extend_from_slice(&[0x0D, 0x0B]);
                let padded = JsString::from(JsStr::latin1(&p));
                out.push(Built::new("trim_of_padded_latin1", padded.trim()));
                out.push(Built::new("trim_start_of_padded_latin1", JsString::from(JsStr::latin1(&p[..n + 2])).trim_start()));
                out.push(Built::new("trim_end_of_padded_latin1", JsString::from(JsStr::latin1(&p[2..])).trim_end()));
            }
        }
    }

    // ---- D. builders
    {
        let data: &[u16] = u;
        seq_builders!(out, Utf16JsStringBuilder, u16, data, "utf16_builder", rng, ctx.avoid_builder_empty_extend,
            |name: &str, b: Utf16JsStringBuilder| -> R<(JsString, Option<JsString>)> {
                ck!("builder.is_ascii", &["utf16_builder", name], data.iter().all(|x| *x <= 0x7F), b.is_ascii());
                Ok((b.build(), None))
            });
    }
    if let Some(l) = &lat {
        let data: &[u8] = l;
        seq_builders!(out, Latin1JsStringBuilder, u8, data, "latin1_builder", rng, ctx.avoid_builder_empty_extend,
            |name: &str, b: Latin1JsStringBuilder| -> R<(JsString, Option<JsString>)> {
                let ascii = data.is_ascii();
                ck!("builder.is_ascii", &["latin1_builder", name], ascii, b.is_ascii());
                let checked = b.clone().build();
                ck!("Latin1JsStringBuilder::build is Some iff ASCII", &["latin1_builder", name], ascii, checked.is_some());
                // SAFETY: every byte is a Latin-1 code unit by construction.
                Ok((unsafe { b.build_as_latin1() }, checked))
            });
    }
    {
        // one segment per code point (u8 / char / lone surrogate as a 1-unit JsStr)
        let cps = model::code_points(u);
        let lone: Vec<[u16; 1]> = cps
            .iter()
            .filter_map(|c| if let model::Cp::Lone(x) = c { Some([*x]) } else { None })
            .collect();
        let mut b = CommonJsStringBuilder::with_capacity(cps.len() / 2);
        let mut li = 0;
        let mut all_latin1 = true;
        for (i, cp) in cps.iter().enumerate() {
            match *cp {
                model::Cp::Scalar(v) => {
                    if v > 0xFF {
                        all_latin1 = false;
                    }
                    if v <= 0xFF && i % 2 == 0 {
                        b.push(v as u8);
                    } else if i % 3 == 0 {
                        b += model::scalar_char(v);
                    } else {
                        b = b + model::scalar_char(v);
                    }
                }
                model::Cp::Lone(_) => {
                    all_latin1 = false;
                    b.push(JsStr::utf16(&lone[li]));
                    li += 1;
                }
            }
        }
        ck!("CommonJsStringBuilder::len", &["common_builder_units"], (cps.len(), cps.is_empty()), (b.len(), b.is_empty()));
        ck!("CommonJsStringBuilder::can_be_latin1", &["common_builder_units"], all_latin1, b.can_be_latin1());
        let ascii = u.iter().all(|x| *x <= 0x7F);
        let fl = b.build_from_latin1();
        ck!("CommonJsStringBuilder::build_from_latin1 is Some iff ASCII", &["common_builder_units"], ascii, fl.is_some());
        if let Some(s) = fl {
            out.push(Built::new("common_builder_units_from_latin1", s));
        }
        out.push(Built::new("common_builder_units", b.clone().build()));
        out.push(Built::new("common_builder_units_utf16", b.build_from_utf16()));
    }
    {
        // chunks of 1..3 units as every kind of segment
        let mut pieces: Vec<Piece> = Vec::new();
        let mut i = 0;
        while i < n {
            let k = (1 + rng.below(3)).min(n - i);
            pieces.push(Piece::new(&u[i..i + k]));
            i += k;
        }
        let mut b = CommonJsStringBuilder::new();
        b.reserve(1);
        b.reserve_exact(pieces.len());
        let mut expect_latin1 = true;
        for (i, p) in pieces.iter().enumerate() {
            let kind = (i + rng.below(2)) % 5;
            let pst = model::to_std_string(&p.w);
            match (kind, pst) {
                (0, _) => {
                    let s = JsString::from(p.natural());
                    expect_latin1 &= s.as_str().is_latin1();
                    b.push(s);
                }
                (1, _) => {
                    expect_latin1 &= p.l.is_some();
                    b += p.natural();
                }
                (2, _) => {
                    expect_latin1 = false;
                    b.push(p.utf16());
                }
                (3, Some(s)) => {
                    // From<&str> / From<String> for Segment: JsString::from(&str) inside
                    expect_latin1 &= p.l.is_some();
                    if i % 2 == 0 {
                        b.push(s.as_str());
                    } else {
                        b = b + s;
                    }
                }
                _ => {
                    // From<&[u16]> for Segment: a UTF-16 encoded JsString (or an interned static) inside
                    let seg = JsString::from(&p.w[..]);
                    expect_latin1 &= seg.as_str().is_latin1();
                    b.push(&p.w[..]);
                }
            }
        }
        ck!("CommonJsStringBuilder::len", &["common_builder_chunks"], pieces.len(), b.len());
        ck!("CommonJsStringBuilder::can_be_latin1", &["common_builder_chunks"], expect_latin1, b.can_be_latin1());
        if let Some(s) = b.build_from_latin1() {
            out.push(Built::new("common_builder_chunks_from_latin1", s));
        }
        out.push(Built::new("common_builder_chunks", b.clone().build()));
        out.push(Built::new("common_builder_chunks_utf16", b.build_from_utf16()));
    }

    // ---- E. derived handles
    {
        let k = rng.below(out.len());
        let c = out[k].s.clone();
        let name = format!("clone_of:{}", out[k].name);
        out.push(Built::new(name, c));
        let k = rng.below(out.len());
        let raw = out[k].s.clone().into_raw();
        // SAFETY: the pointer comes from into_raw just above.
        let back = unsafe { JsString::from_raw(raw) };
        let name = format!("raw_roundtrip_of:{}", out[k].name);
        out.push(Built::new(name, back));
        let k = rng.below(out.len());
        let name = format!("map_valid_segments_identity_of:{}", out[k].name);
        let m = out[k].s.map_valid_segments(|s| s);
        out.push(Built::new(name, m));
    }

    for b in &out {
        *ctx.ctor_families.entry(family(&b.name)).or_insert(0) += 1;
    }
    Ok(out)
}
