//! Bookkeeping shared by all checks: counters, the violation record, the quarantine sub-stream.

use std::collections::BTreeMap;

#[derive(Debug, Clone)]
pub struct Viol {
    pub op: String,
    pub constructors: Vec<String>,
    pub expected: String,
    pub observed: String,
}

impl Viol {
    pub fn new(op: &str, ctors: &[&str], expected: String, observed: String) -> Self {
        Viol {
            op: op.to_string(),
            constructors: ctors.iter().map(|s| (*s).to_string()).collect(),
            expected,
            observed,
        }
    }
}

pub type R<T = ()> = Result<T, Viol>;

/// compare an expected (model) value with an observed one; `return Err(violation)` on mismatch
#[macro_export]
macro_rules! ck {
    ($op:expr, $ctors:expr, $exp:expr, $obs:expr) => {{
        let e = $exp;
        let o = $obs;
        if e != o {
            return Err($crate::ctx::Viol::new($op, $ctors, format!("{:?}", e), format!("{:?}", o)));
        }
    }};
}

#[derive(Default)]
pub struct Ctx {
    pub counts: Vec<(&'static str, u64)>,
    pub repr_classes: BTreeMap<String, u64>,
    pub repr_pairs: BTreeMap<String, u64>,
    pub ctor_families: BTreeMap<String, u64>,
    /// `avoid` flags (derived from open known findings): comparisons of exactly these shapes are
    /// routed to the quarantine sub-stream instead of the main stream.
    ///  - str-eq-latin1-nonascii: `PartialEq<str>`/`<&str>` where the JsStr is Latin-1 encoded and
    ///    either side contains a code unit / char >= 0x80
    ///  - str-eq-utf16-length: `PartialEq<str>`/`<&str>` where the JsStr is UTF-16 encoded and the
    ///    two sides differ in length (in code units)
    ///  - builder-empty-extend-unallocated: appending an empty slice (`extend_from_slice`, `From<&[_]>`,
    ///    `+`, `+=`, `extend_from_slice_unchecked`) to a `JsStringBuilder` that has not allocated yet
    pub avoid_builder_empty_extend: bool,
    pub avoid_str_eq_latin1: bool,
    pub avoid_str_eq_utf16: bool,
    /// `--lite`: the reduced workload for Miri (every construction is still built, indexed, hashed,
    /// compared pairwise, sliced, cloned and dropped; parameter sweeps and cross-content comparisons
    /// are done on one construction per representation class only)
    pub lite: bool,
    /// `--prof`: phase timings on stderr
    pub prof: bool,
    pub str_eq_main: u64,
    pub q_checks: u64,
    pub q_agree: u64,
    pub q_mismatch_latin1: u64,
    pub q_mismatch_utf16: u64,
    pub q_samples: Vec<String>,
    pub q_sample_keys: std::collections::BTreeSet<String>,
}

impl Ctx {
    #[inline]
    pub fn bump(&mut self, op: &'static str, n: u64) {
        // the same literal is (almost always) the same pointer: a pointer scan first
        for e in &mut self.counts {
            if std::ptr::eq(e.0.as_ptr(), op.as_ptr()) && e.0.len() == op.len() {
                e.1 += n;
                return;
            }
        }
        for e in &mut self.counts {
            if e.0 == op {
                e.1 += n;
                return;
            }
        }
        self.counts.push((op, n));
    }

    pub fn sorted_counts(&self) -> BTreeMap<&'static str, u64> {
        let mut m = BTreeMap::new();
        for (k, v) in &self.counts {
            *m.entry(*k).or_insert(0) += *v;
        }
        m
    }
}
