use std::cell::RefCell;

thread_local! {
    static LAST_PANIC: RefCell<String> = const { RefCell::new(String::new()) };
    pub static TRACE: RefCell<Vec<String>> = const { RefCell::new(Vec::new()) };
}

pub fn install_panic_hook() {
    std::panic::set_hook(Box::new(|info| {
        let loc = info
            .location()
            .map(|l| format!("{}:{}", l.file(), l.line()))
            .unwrap_or_default();
        let msg = if let Some(s) = info.payload().downcast_ref::<&str>() {
            (*s).to_string()
        } else if let Some(s) = info.payload().downcast_ref::<String>() {
            s.clone()
        } else {
            "<non-string payload>".to_string()
        };
        let _ = LAST_PANIC.try_with(|p| {
            if let Ok(mut p) = p.try_borrow_mut() {
                // keep the first panic of a job (a second one is usually a consequence)
                if p.is_empty() {
                    *p = format!("{loc}:{msg}");
                }
            }
        });
    }));
}

pub fn take_panic() -> String {
    LAST_PANIC.with(|p| std::mem::take(&mut *p.borrow_mut()))
}

pub fn take_trace() -> Vec<String> {
    TRACE.with(|t| std::mem::take(&mut *t.borrow_mut()))
}

pub fn trace_len() -> usize {
    TRACE.with(|t| t.borrow().len())
}

pub fn emit(s: String) {
    TRACE.with(|t| {
        let mut t = t.borrow_mut();
        // hard cap so that a runaway program cannot eat memory
        if t.len() < 20_000 {
            t.push(s);
        }
    });
}

/// SplitMix64
pub struct Rng(pub u64);
impl Rng {
    pub fn next(&mut self) -> u64 {
        self.0 = self.0.wrapping_add(0x9E37_79B9_7F4A_7C15);
        let mut z = self.0;
        z = (z ^ (z >> 30)).wrapping_mul(0xBF58_476D_1CE4_E5B9);
        z = (z ^ (z >> 27)).wrapping_mul(0x94D0_49BB_1331_11EB);
        z ^ (z >> 31)
    }
    pub fn below(&mut self, n: u64) -> u64 {
        if n == 0 { 0 } else { self.next() % n }
    }
}
