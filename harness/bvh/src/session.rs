//! A *session* is one context (or several, for isolation checks) and a list of host-entry
//! steps. After every step the outcome, the slice of the print-trace it produced and the
//! VM depths before/after are recorded.

use crate::util;
use boa_engine::{
    Context, JsError, JsNativeErrorKind, JsResult, JsString, JsValue, NativeFunction, Script, Source,
    error::{EngineError, RuntimeLimitError},
    job::{JobExecutor, SimpleJobExecutor},
    js_string,
    object::JsObject,
    optimizer::OptimizerOptions,
    property::Attribute,
    realm::Realm,
};
use serde_json::{Map, Value, json};
use std::cell::RefCell;
use std::future::Future;
use std::io::Read;
use std::pin::pin;
use std::rc::Rc;
use std::task::{Context as TaskContext, Poll, Waker};

pub fn jsstr_to_string(s: &JsString) -> String {
    let mut out = String::new();
    for r in char::decode_utf16(s.iter()) {
        match r {
            Ok(c) => out.push(c),
            Err(e) => out.push_str(&format!("\\u{:04X}", e.unpaired_surrogate())),
        }
    }
    out
}

fn emit_native(_: &JsValue, args: &[JsValue], ctx: &mut Context) -> JsResult<JsValue> {
    let mut parts = Vec::new();
    for a in args {
        match a.to_string(ctx) {
            Ok(s) => parts.push(jsstr_to_string(&s)),
            Err(_) => parts.push("<emit-threw>".to_string()),
        }
    }
    util::emit(parts.join(" "));
    Ok(JsValue::undefined())
}

/// `__detach(buffer)`: host-side DetachArrayBuffer (what `postMessage` transfer does in a browser).
fn detach_native(_: &JsValue, args: &[JsValue], _: &mut Context) -> JsResult<JsValue> {
    let obj = args
        .first()
        .and_then(JsValue::as_object)
        .ok_or_else(|| boa_engine::JsNativeError::typ().with_message("__detach: not an object"))?;
    let buf = boa_engine::object::builtins::JsArrayBuffer::from_object(obj.clone())?;
    buf.detach(&JsValue::undefined())?;
    Ok(JsValue::undefined())
}

fn gc_native(_: &JsValue, _: &[JsValue], _: &mut Context) -> JsResult<JsValue> {
    boa_gc::force_collect();
    Ok(JsValue::undefined())
}

pub fn apply_switches(cfg: &Value) {
    let b = |k: &str| cfg.get(k).and_then(Value::as_bool).unwrap_or(false);
    boa_ast::verif::set_force_escape(b("force_escape"));
    boa_engine::verif::set_const_cache_off(b("const_cache_off"));
    boa_engine::verif::set_loop_hoist_off(b("loop_hoist_off"));
    boa_engine::verif::set_fused_branch_off(b("fused_off"));
    boa_engine::verif::set_ic_off(b("ic_off"));
}

pub fn apply_gc(gc: Option<&Value>) {
    boa_gc::verif::set_stress(None);
    boa_gc::verif::set_collect_at(0);
    let Some(gc) = gc else { return };
    if let Some(n) = gc.get("every").and_then(Value::as_u64) {
        boa_gc::verif::set_stress(Some(n));
    }
    if let Some(a) = gc.get("random").and_then(Value::as_array) {
        let p = a.first().and_then(Value::as_u64).unwrap_or(7);
        let s = a.get(1).and_then(Value::as_u64).unwrap_or(1);
        boa_gc::verif::set_stress_random(p, s);
    }
    if let Some(k) = gc.get("at").and_then(Value::as_u64) {
        boa_gc::verif::set_collect_at(k);
    }
    if gc.get("track").and_then(Value::as_bool).unwrap_or(false) {
        boa_gc::verif::track_liveness(true);
    }
}

pub fn stats_json() -> Value {
    let s = boa_gc::verif::stats();
    json!({
        "boxes": s.strong_boxes, "eph": s.ephemerons, "wm": s.weak_maps, "bytes": s.bytes_allocated,
        "collections": s.collections, "forced": s.forced_collections, "allocs": s.allocations,
        "freed": s.freed_strong, "freed_weak": s.freed_weak,
    })
}

pub fn classify_error(e: &JsError, ctx: &mut Context) -> String {
    if let Some(eng) = e.as_engine() {
        return match eng {
            EngineError::RuntimeLimit(RuntimeLimitError::LoopIteration) => "limit:loop".into(),
            EngineError::RuntimeLimit(RuntimeLimitError::Recursion) => "limit:recursion".into(),
            EngineError::RuntimeLimit(RuntimeLimitError::StackSize) => "limit:stack".into(),
            EngineError::Panic(p) => format!("enginepanic:{}", p.message()),
            #[allow(unreachable_patterns)]
            _ => "engine:other".into(),
        };
    }
    if let Some(n) = e.as_native() {
        let k = match n.kind() {
            JsNativeErrorKind::Aggregate(_) => "AggregateError",
            JsNativeErrorKind::Error => "Error",
            JsNativeErrorKind::Eval => "EvalError",
            JsNativeErrorKind::Range => "RangeError",
            JsNativeErrorKind::Reference => "ReferenceError",
            JsNativeErrorKind::Syntax => "SyntaxError",
            JsNativeErrorKind::Type => "TypeError",
            JsNativeErrorKind::Uri => "URIError",
            _ => "OtherNative",
        };
        return format!("throw:Error<{k}>");
    }
    match e.clone().into_opaque(ctx) {
        Ok(v) => format!("throw:{}", show(&v, ctx)),
        Err(_) => "throw:<unconvertible>".into(),
    }
}

/// Render a value with the prelude's `__show` (JS code shared with the reference engine).
pub fn show(v: &JsValue, ctx: &mut Context) -> String {
    let global = ctx.global_object();
    let f = match global.get(js_string!("__show"), ctx) {
        Ok(f) => f,
        Err(_) => return "<no-show>".into(),
    };
    let Some(f) = f.as_callable() else {
        // no prelude: fall back to ToString
        return match v.to_string(ctx) {
            Ok(s) => jsstr_to_string(&s),
            Err(_) => "<tostring-threw>".into(),
        };
    };
    match f.call(&JsValue::undefined(), &[v.clone()], ctx) {
        Ok(s) => match s.as_string() {
            Some(s) => jsstr_to_string(&s),
            None => "<show-nonstring>".into(),
        },
        Err(e) => {
            if let Some(eng) = e.as_engine() {
                format!("<show-engine:{eng}>")
            } else {
                "<show-threw>".into()
            }
        }
    }
}

pub fn completion(r: JsResult<JsValue>, ctx: &mut Context) -> String {
    match r {
        Ok(v) => format!("value:{}", show(&v, ctx)),
        Err(e) => classify_error(&e, ctx),
    }
}

pub fn depths(ctx: &Context) -> Value {
    let d = boa_engine::verif::vm_depths(ctx);
    json!([d.frames, d.value_stack, d.pending_exception, d.host_call_depth, d.binding_stack, d.environments])
}

struct SlowReader<'a> {
    data: &'a [u8],
    pos: usize,
}
impl Read for SlowReader<'_> {
    fn read(&mut self, buf: &mut [u8]) -> std::io::Result<usize> {
        if self.pos >= self.data.len() || buf.is_empty() {
            return Ok(0);
        }
        buf[0] = self.data[self.pos];
        self.pos += 1;
        Ok(1)
    }
}

/// Is the text rejected by the parser alone (an *early* error)?
pub fn early_error(src: &[u8], strict: bool) -> bool {
    let mut interner = boa_interner::Interner::default();
    let scope = boa_ast::scope::Scope::new_global();
    let mut parser = boa_parser::Parser::new(Source::from_bytes(src));
    if strict {
        parser.set_strict();
    }
    parser.parse_script(&scope, &mut interner).is_err()
}

fn src_bytes(step: &Value) -> Vec<u8> {
    if let Some(s) = step.get("src").and_then(Value::as_str) {
        return s.as_bytes().to_vec();
    }
    if let Some(a) = step.get("src_bytes").and_then(Value::as_array) {
        return a.iter().map(|b| b.as_u64().unwrap_or(0) as u8).collect();
    }
    if let Some(h) = step.get("src_hex").and_then(Value::as_str) {
        return (0..h.len() / 2)
            .map(|i| u8::from_str_radix(&h[2 * i..2 * i + 2], 16).unwrap_or(0))
            .collect();
    }
    Vec::new()
}

fn eval_with_origin(ctx: &mut Context, bytes: &[u8], origin: &str, work: &str) -> JsResult<JsValue> {
    match origin {
        "utf16" => {
            let s = String::from_utf8_lossy(bytes);
            let u: Vec<u16> = s.encode_utf16().collect();
            ctx.eval(Source::from_utf16(&u))
        }
        "reader" => ctx.eval(Source::from_reader(SlowReader { data: bytes, pos: 0 }, None)),
        "file" => {
            let p = std::path::Path::new(work).join(format!("src_{}_{:?}.js", std::process::id(), std::thread::current().id()));
            std::fs::write(&p, bytes).expect("write scratch");
            let r = match Source::from_filepath(&p) {
                Ok(s) => ctx.eval(s),
                Err(_) => Ok(JsValue::undefined()),
            };
            std::fs::remove_file(&p).ok();
            r
        }
        "script" => {
            let s = Script::parse(Source::from_bytes(bytes), None, ctx)?;
            s.evaluate(ctx)
        }
        _ => ctx.eval(Source::from_bytes(bytes)),
    }
}

/// Polls a future to completion with a no-op waker, counting `Pending` results.
fn block_on_counting<F: Future>(f: F, max_polls: u64) -> (Option<F::Output>, u64) {
    let mut f = pin!(f);
    let waker = Waker::noop();
    let mut cx = TaskContext::from_waker(waker);
    let mut pendings = 0u64;
    loop {
        match f.as_mut().poll(&mut cx) {
            Poll::Ready(v) => return (Some(v), pendings),
            Poll::Pending => {
                pendings += 1;
                if pendings > max_polls {
                    return (None, pendings);
                }
            }
        }
    }
}

fn json_to_js(v: &Value, ctx: &mut Context) -> JsValue {
    if let Some(o) = v.as_object() {
        if let Some(g) = o.get("$global").and_then(Value::as_str) {
            return ctx
                .global_object()
                .get(JsString::from(g), ctx)
                .unwrap_or_default();
        }
        if o.contains_key("$undefined") {
            return JsValue::undefined();
        }
    }
    JsValue::from_json(v, ctx).unwrap_or_default()
}

fn setup_context(ctx: &mut Context, job: &Value, prelude: &str) -> Result<(), String> {
    ctx.register_global_builtin_callable(js_string!("__emit"), 1, NativeFunction::from_fn_ptr(emit_native))
        .map_err(|e| e.to_string())?;
    ctx.register_global_builtin_callable(js_string!("__gc"), 0, NativeFunction::from_fn_ptr(gc_native))
        .map_err(|e| e.to_string())?;
    ctx.register_global_builtin_callable(js_string!("__detach"), 1, NativeFunction::from_fn_ptr(detach_native))
        .map_err(|e| e.to_string())?;
    if let Some(l) = job.get("limits") {
        apply_limits(ctx, l);
    }
    if let Some(o) = job.get("opt").and_then(Value::as_u64) {
        ctx.set_optimizer_options(OptimizerOptions::from_bits_truncate(o as u8));
    }
    if !prelude.is_empty() && !job.get("no_prelude").and_then(Value::as_bool).unwrap_or(false) {
        // The prelude always runs with default limits so that tiny limits only hit the job.
        let saved = *ctx.runtime_limits_mut();
        *ctx.runtime_limits_mut() = boa_engine::vm::RuntimeLimits::default();
        let r = ctx.eval(Source::from_bytes(prelude));
        *ctx.runtime_limits_mut() = saved;
        r.map_err(|e| format!("prelude failed: {e}"))?;
    }
    Ok(())
}

fn apply_limits(ctx: &mut Context, l: &Value) {
    if let Some(n) = l.get("loop").and_then(Value::as_u64) {
        ctx.runtime_limits_mut().set_loop_iteration_limit(n);
    }
    if let Some(n) = l.get("recursion").and_then(Value::as_u64) {
        ctx.runtime_limits_mut().set_recursion_limit(n as usize);
    }
    if let Some(n) = l.get("stack").and_then(Value::as_u64) {
        ctx.runtime_limits_mut().set_stack_size_limit(n as usize);
    }
}

fn global_fn(ctx: &mut Context, name: &str) -> Result<JsObject, String> {
    let mut cur: JsValue = ctx.global_object().into();
    for part in name.split('.') {
        let Some(o) = cur.as_object() else {
            return Err(format!("not an object before {part}"));
        };
        cur = o.get(JsString::from(part), ctx).map_err(|e| e.to_string())?;
    }
    cur.as_object().ok_or_else(|| format!("{name} is not an object"))
}

pub fn run(job: &Value, prelude: &'static str) -> Value {
    let empty = json!({});
    let cfg = job.get("cfg").unwrap_or(&empty);
    apply_switches(cfg);
    let work = job.get("work").and_then(Value::as_str).unwrap_or("/tmp").to_string();
    let stats0 = boa_gc::verif::stats();
    let ic0 = boa_engine::verif::ic_hits();
    let sc0 = boa_engine::verif::shortcut_counts();
    apply_gc(job.get("gc"));
    let want_dump = job.get("dump").and_then(Value::as_bool).unwrap_or(false);
    let want_samples = job.get("samples").and_then(Value::as_bool).unwrap_or(false);
    // the prelude is compiled before dumping starts unless asked otherwise
    let dump_prelude = job.get("dump_prelude").and_then(Value::as_bool).unwrap_or(false);
    if dump_prelude {
        boa_engine::verif::set_dump(want_dump);
        boa_engine::verif::set_depth_sampling(want_samples);
    }

    let executor = Rc::new(SimpleJobExecutor::new());
    let mut contexts: Vec<Context> = Vec::new();
    let ncontexts = job.get("contexts").and_then(Value::as_u64).unwrap_or(1) as usize;
    for _ in 0..ncontexts {
        let mut ctx = match Context::builder().job_executor(executor.clone()).build() {
            Ok(c) => c,
            Err(e) => return json!({"fatal": format!("context build: {e}")}),
        };
        if job.get("strict").and_then(Value::as_bool).unwrap_or(false) {
            ctx.strict(true);
        }
        if let Err(e) = setup_context(&mut ctx, job, prelude) {
            return json!({"fatal": e});
        }
        contexts.push(ctx);
    }
    // trace produced by the prelude (nothing, normally) is dropped
    let _ = util::take_trace();
    boa_engine::verif::set_dump(want_dump);
    boa_engine::verif::set_depth_sampling(want_samples);
    let mut realms: Vec<Vec<Realm>> = (0..ncontexts).map(|_| Vec::new()).collect();
    let mut scripts: Vec<Option<Script>> = Vec::new();

    let mut out_steps: Vec<Value> = Vec::new();
    let steps = job.get("steps").and_then(Value::as_array).cloned().unwrap_or_default();
    for step in &steps {
        let ci = step.get("ctx").and_then(Value::as_u64).unwrap_or(0) as usize;
        let ctx = &mut contexts[ci.min(ncontexts - 1)];
        let op = step.get("op").and_then(Value::as_str).unwrap_or("eval");
        let t0 = util::trace_len();
        let d0 = depths(ctx);
        let mut extra = Map::new();
        let c: String = match op {
            "eval" => {
                let bytes = src_bytes(step);
                let origin = step.get("origin").and_then(Value::as_str).unwrap_or("bytes");
                let strict = job.get("strict").and_then(Value::as_bool).unwrap_or(false);
                let early = early_error(&bytes, strict);
                let r = eval_with_origin(ctx, &bytes, origin, &work);
                if early {
                    if r.is_ok() {
                        extra.insert("early_mismatch".into(), json!(true));
                    }
                    "early:SyntaxError".to_string()
                } else {
                    completion(r, ctx)
                }
            }
            "parse_script" => {
                // parse now, evaluate later with `eval_script`
                let bytes = src_bytes(step);
                match Script::parse(Source::from_bytes(&bytes), None, ctx) {
                    Ok(s) => {
                        scripts.push(Some(s));
                        format!("value:script#{}", scripts.len() - 1)
                    }
                    Err(_) => {
                        scripts.push(None);
                        "early:SyntaxError".to_string()
                    }
                }
            }
            "eval_script" => {
                let k = step.get("k").and_then(Value::as_u64).unwrap_or(0) as usize;
                match scripts.get(k).cloned().flatten() {
                    Some(s) => {
                        let r = s.evaluate(ctx);
                        completion(r, ctx)
                    }
                    None => "skip:no-script".to_string(),
                }
            }
            "eval_async" => {
                let bytes = src_bytes(step);
                let budget = step.get("budget").and_then(Value::as_u64).unwrap_or(256) as u32;
                match Script::parse(Source::from_bytes(&bytes), None, ctx) {
                    Err(_) => "early:SyntaxError".to_string(),
                    Ok(s) => {
                        let (r, pendings) = {
                            let fut = s.evaluate_async_with_budget(ctx, budget);
                            block_on_counting(fut, 50_000_000)
                        };
                        extra.insert("yields".into(), json!(pendings));
                        match r {
                            Some(r) => completion(r, ctx),
                            None => "inconclusive:polls".to_string(),
                        }
                    }
                }
            }
            "call" | "construct" | "callm" => {
                let name = step.get("name").and_then(Value::as_str).unwrap_or("__main");
                let args: Vec<JsValue> = step
                    .get("args")
                    .and_then(Value::as_array)
                    .map(|a| a.iter().map(|v| json_to_js(v, ctx)).collect())
                    .unwrap_or_default();
                match global_fn(ctx, name) {
                    Err(e) => format!("skip:{e}"),
                    Ok(f) => {
                        if op == "construct" {
                            let r = f.construct(&args, None, ctx).map(JsValue::from);
                            completion(r, ctx)
                        } else {
                            let this = if op == "callm" {
                                let objname = name.rsplit_once('.').map(|x| x.0).unwrap_or("");
                                match global_fn(ctx, objname) {
                                    Ok(o) => o.into(),
                                    Err(_) => JsValue::undefined(),
                                }
                            } else {
                                step.get("this").map(|v| json_to_js(v, ctx)).unwrap_or_default()
                            };
                            let r = f.call(&this, &args, ctx);
                            completion(r, ctx)
                        }
                    }
                }
            }
            "jobs" => match ctx.run_jobs() {
                Ok(()) => "value:undefined".to_string(),
                Err(e) => classify_error(&e, ctx),
            },
            "jobs_async" => {
                let ex = executor.clone();
                let (r, pendings) = {
                    let cell = RefCell::new(&mut *ctx);
                    let fut = ex.run_jobs_async(&cell);
                    block_on_counting(fut, 50_000_000)
                };
                extra.insert("yields".into(), json!(pendings));
                match r {
                    Some(Ok(())) => "value:undefined".to_string(),
                    Some(Err(e)) => classify_error(&e, ctx),
                    None => "inconclusive:polls".to_string(),
                }
            }
            "limits" => {
                apply_limits(ctx, step);
                "value:undefined".to_string()
            }
            "opt" => {
                let o = step.get("bits").and_then(Value::as_u64).unwrap_or(0);
                ctx.set_optimizer_options(OptimizerOptions::from_bits_truncate(o as u8));
                "value:undefined".to_string()
            }
            "gc" => {
                boa_gc::force_collect();
                "value:undefined".to_string()
            }
            "gc_cfg" => {
                apply_gc(Some(step));
                "value:undefined".to_string()
            }
            "switches" => {
                apply_switches(step);
                "value:undefined".to_string()
            }
            "realm_new" => match ctx.create_realm() {
                Ok(r) => {
                    let old = ctx.enter_realm(r.clone());
                    let res = setup_context(ctx, job, prelude);
                    ctx.enter_realm(old);
                    realms[ci].push(r);
                    match res {
                        Ok(()) => format!("value:realm#{}", realms[ci].len() - 1),
                        Err(e) => format!("skip:{e}"),
                    }
                }
                Err(e) => classify_error(&e, ctx),
            },
            "realm_eval" => {
                let k = step.get("k").and_then(Value::as_u64).unwrap_or(0) as usize;
                let bytes = src_bytes(step);
                match realms[ci].get(k).cloned() {
                    Some(r) => {
                        let old = ctx.enter_realm(r);
                        let res = ctx.eval(Source::from_bytes(&bytes));
                        let c = completion(res, ctx);
                        ctx.enter_realm(old);
                        c
                    }
                    None => "skip:no-realm".to_string(),
                }
            }
            "realm_share" => {
                // copy global property `name` of realm `from` (or main realm if -1) to realm `to` as `as`
                let from = step.get("from").and_then(Value::as_i64).unwrap_or(-1);
                let to = step.get("to").and_then(Value::as_i64).unwrap_or(0);
                let name = step.get("name").and_then(Value::as_str).unwrap_or("x");
                let as_ = step.get("as").and_then(Value::as_str).unwrap_or(name);
                let get_global = |ctx: &mut Context, k: i64, realms: &Vec<Realm>| -> JsObject {
                    if k < 0 {
                        ctx.global_object()
                    } else {
                        let old = ctx.enter_realm(realms[k as usize].clone());
                        let g = ctx.global_object();
                        ctx.enter_realm(old);
                        g
                    }
                };
                let gf = get_global(ctx, from, &realms[ci]);
                let gt = get_global(ctx, to, &realms[ci]);
                match gf.get(JsString::from(name), ctx) {
                    Ok(v) => match gt.set(JsString::from(as_), v, false, ctx) {
                        Ok(_) => "value:undefined".to_string(),
                        Err(e) => classify_error(&e, ctx),
                    },
                    Err(e) => classify_error(&e, ctx),
                }
            }
            "define_global" => {
                let name = step.get("name").and_then(Value::as_str).unwrap_or("x");
                let v = step.get("value").map(|v| json_to_js(v, ctx)).unwrap_or_default();
                match ctx.register_global_property(JsString::from(name), v, Attribute::all()) {
                    Ok(()) => "value:undefined".to_string(),
                    Err(e) => classify_error(&e, ctx),
                }
            }
            other => format!("skip:unknown-op:{other}"),
        };
        let d1 = depths(ctx);
        let t1 = util::trace_len();
        let mut rec = Map::new();
        rec.insert("c".into(), json!(c));
        rec.insert("d0".into(), d0);
        rec.insert("d1".into(), d1);
        rec.insert("t".into(), json!([t0, t1]));
        for (k, v) in extra {
            rec.insert(k, v);
        }
        out_steps.push(Value::Object(rec));
    }
    let queue_empty = {
        // after the last step: is anything still queued?
        // (SimpleJobExecutor::is_empty is crate-private: run_jobs on an empty queue is a no-op, so
        // a pending queue is observed by the caller through a final `jobs` step instead.)
        Value::Null
    };
    boa_engine::verif::set_dump(false);
    boa_engine::verif::set_depth_sampling(false);
    let dumps: Vec<Value> = boa_engine::verif::take_dumps()
        .iter()
        .map(|d| serde_json::from_str(d).unwrap_or(Value::Null))
        .collect();
    let depth_samples: Vec<Value> = boa_engine::verif::take_depth_samples()
        .iter()
        .map(|(id, from, to, d)| json!([id, from, to, d[0], d[1], d[2]]))
        .collect();
    let stats_live = boa_gc::verif::stats();
    let shortcuts = {
        let sc = boa_engine::verif::shortcut_counts();
        json!([sc[0] - sc0[0], sc[1] - sc0[1], sc[2] - sc0[2], sc[3] - sc0[3]])
    };
    let census = if job.get("census").and_then(Value::as_bool).unwrap_or(false) {
        boa_gc::verif::set_stress(None);
        boa_gc::verif::set_collect_at(0);
        drop(scripts);
        drop(realms);
        drop(contexts);
        drop(executor);
        boa_gc::verif::collect_now();
        boa_gc::verif::collect_now();
        let s = boa_gc::verif::stats();
        json!({"boxes": s.strong_boxes, "eph": s.ephemerons, "wm": s.weak_maps, "bytes": s.bytes_allocated,
               "before": {"boxes": stats0.strong_boxes, "eph": stats0.ephemerons, "wm": stats0.weak_maps, "bytes": stats0.bytes_allocated}})
    } else {
        Value::Null
    };
    json!({
        "steps": out_steps,
        "trace": util::take_trace(),
        "gc": {
            "collections": stats_live.collections - stats0.collections,
            "forced": stats_live.forced_collections - stats0.forced_collections,
            "allocs": stats_live.allocations - stats0.allocations,
            "boxes": stats_live.strong_boxes,
        },
        "ic_hits": boa_engine::verif::ic_hits() - ic0,
        "shortcuts": shortcuts,
        "dumps": dumps,
        "depth_samples": depth_samples,
        "census": census,
        "queue": queue_empty,
    })
}
