//! `modules` subcommand (property C17): evaluates a module graph held in memory.
//!
//! Job: `{"modules": {"a.mjs": "source", ...}, "entry": "a.mjs", "second_entry": "b.mjs"?,
//!        "re_evaluate": bool, "setup": "script source"?, "load_delay": {"b.mjs": 3}?, "limits": {...}?}`
//! or, for several independent graphs sharing one context, `"entries": [[what, name], ...]` instead of
//! `entry` / `second_entry` / `re_evaluate` (evaluated in the given order).
//!
//! A custom `ModuleLoader` serves the sources by name (a leading `./` of the specifier is dropped),
//! parses every module at most once (cache by name), and logs every `load_imported_module` call as
//! `[referrer name, specifier]`. A load of a name listed in `load_delay` yields that many times
//! before it completes (asynchronous host loading).
//!
//! Result: `{"loads": [[referrer, specifier], ...], "parsed": [names in parse order],
//!           "evals": [{"what": "entry"|"re"|"second"|"second_re", "name", "state", "jobs", "t": [t0, t1],
//!                       "loads": [l0, l1], "requeue": n}], "trace": [...]}`
//! where `state` is the state of the promise returned by `Module::load_link_evaluate` after
//! `Context::run_jobs` returned: `fulfilled`, `rejected:<__show of the reason>` or `pending` (pending
//! with a drained queue = stuck), `jobs` is the completion of `run_jobs`, `t` the slice of the print
//! trace and `loads` the slice of the loader log produced by that evaluation. `requeue` counts trace
//! lines produced by a *second* `run_jobs` call (must be 0: the queue was drained).

use crate::session::{classify_error, jsstr_to_string, show};
use crate::util;
use boa_engine::{
    Context, JsNativeError, JsResult, JsValue, Module, NativeFunction, Source,
    builtins::promise::PromiseState,
    js_string,
    module::{ModuleLoader, ModuleRequest, Referrer},
    object::builtins::JsPromise,
};
use serde_json::{Map, Value, json};
use std::cell::RefCell;
use std::collections::BTreeMap;
use std::future::Future;
use std::pin::Pin;
use std::rc::Rc;
use std::task::{Context as TaskContext, Poll};

fn emit_native(_: &JsValue, args: &[JsValue], ctx: &mut Context) -> JsResult<JsValue> {
    let mut parts = Vec::new();
    for a in args {
        match a.to_string(ctx) {
            Ok(s) => parts.push(jsstr_to_string(&s)),
            Err(_) => parts.push("<emit-threw>".to_string()),
        }
    }
    util::emit(parts.join(" "));
    Ok(JsValue::undefined())
}

/// Future that returns `Pending` `n` times (and wakes itself) before completing.
struct YieldN(u64);
impl Future for YieldN {
    type Output = ();
    fn poll(mut self: Pin<&mut Self>, cx: &mut TaskContext<'_>) -> Poll<()> {
        if self.0 == 0 {
            Poll::Ready(())
        } else {
            self.0 -= 1;
            cx.waker().wake_by_ref();
            Poll::Pending
        }
    }
}

#[derive(Default)]
struct MemLoader {
    sources: BTreeMap<String, String>,
    delays: BTreeMap<String, u64>,
    cache: RefCell<Vec<(String, Result<Module, String>)>>,
    log: RefCell<Vec<(String, String)>>,
    parsed: RefCell<Vec<String>>,
}

fn norm(spec: &str) -> &str {
    spec.strip_prefix("./").unwrap_or(spec)
}

impl MemLoader {
    fn name_of(&self, m: &Module) -> Option<String> {
        self.cache
            .borrow()
            .iter()
            .find(|(_, c)| matches!(c, Ok(x) if x == m))
            .map(|(n, _)| n.clone())
    }

    /// Parses (once) and returns the module called `name`.
    fn get(&self, name: &str, context: &mut Context) -> JsResult<Module> {
        if let Some((_, c)) = self.cache.borrow().iter().find(|(n, _)| n == name) {
            return match c {
                Ok(m) => Ok(m.clone()),
                // a parse failure is reported again as the same class of error
                Err(_) => Err(JsNativeError::syntax().with_message("module failed to parse").into()),
            };
        }
        let Some(src) = self.sources.get(name) else {
            return Err(JsNativeError::typ().with_message("module not found").into());
        };
        self.parsed.borrow_mut().push(name.to_string());
        let r = Module::parse(Source::from_bytes(src.as_bytes()), None, context);
        match r {
            Ok(m) => {
                self.cache.borrow_mut().push((name.to_string(), Ok(m.clone())));
                Ok(m)
            }
            Err(e) => {
                self.cache.borrow_mut().push((name.to_string(), Err(e.to_string())));
                Err(e)
            }
        }
    }
}

impl ModuleLoader for MemLoader {
    async fn load_imported_module(
        self: Rc<Self>,
        referrer: Referrer,
        request: ModuleRequest,
        context: &RefCell<&mut Context>,
    ) -> JsResult<Module> {
        let spec = request.specifier().to_std_string_escaped();
        let from = match &referrer {
            Referrer::Module(m) => self.name_of(m).unwrap_or_else(|| "<unknown-module>".into()),
            Referrer::Realm(_) => "<realm>".into(),
            Referrer::Script(_) => "<script>".into(),
        };
        self.log.borrow_mut().push((from, spec.clone()));
        let name = norm(&spec).to_string();
        let delay = self.delays.get(&name).copied().unwrap_or(0);
        if delay > 0 {
            YieldN(delay).await;
        }
        self.get(&name, &mut context.borrow_mut())
    }
}

fn promise_state(p: &JsPromise, ctx: &mut Context) -> String {
    match p.state() {
        PromiseState::Pending => "pending".into(),
        PromiseState::Fulfilled(_) => "fulfilled".into(),
        PromiseState::Rejected(v) => format!("rejected:{}", show(&v, ctx)),
    }
}

fn drain(ctx: &mut Context) -> String {
    match ctx.run_jobs() {
        Ok(()) => "value:undefined".to_string(),
        Err(e) => classify_error(&e, ctx),
    }
}

fn evaluate_one(what: &str, name: &str, loader: &Rc<MemLoader>, ctx: &mut Context) -> Value {
    let t0 = util::trace_len();
    let l0 = loader.log.borrow().len();
    let mut rec = Map::new();
    rec.insert("what".into(), json!(what));
    rec.insert("name".into(), json!(name));
    // VM depths around the whole host entry (load + link + evaluate + job drains): property C07
    rec.insert("d0".into(), crate::session::depths(ctx));
    match loader.get(name, ctx) {
        Err(e) => {
            // the entry itself does not parse: reported like a rejected evaluation promise
            let c = classify_error(&e, ctx);
            let c = c.strip_prefix("throw:").unwrap_or(&c).to_string();
            rec.insert("state".into(), json!(format!("rejected:{c}")));
            rec.insert("entry_parse_error".into(), json!(true));
            rec.insert("jobs".into(), json!("value:undefined"));
            rec.insert("requeue".into(), json!(0));
        }
        Ok(module) => {
            let promise = module.load_link_evaluate(ctx);
            let jobs = drain(ctx);
            let state = promise_state(&promise, ctx);
            let t_mid = util::trace_len();
            // The queue is drained: a second drain must be a no-op.
            let jobs2 = drain(ctx);
            let state2 = promise_state(&promise, ctx);
            rec.insert("state".into(), json!(state));
            rec.insert("jobs".into(), json!(jobs));
            rec.insert("requeue".into(), json!(util::trace_len() - t_mid));
            if jobs2 != "value:undefined" || state2 != state {
                rec.insert("second_drain".into(), json!([jobs2, state2]));
            }
        }
    }
    rec.insert("d1".into(), crate::session::depths(ctx));
    rec.insert("t".into(), json!([t0, util::trace_len()]));
    rec.insert("loads".into(), json!([l0, loader.log.borrow().len()]));
    Value::Object(rec)
}

pub fn run(job: &Value, prelude: &'static str) -> Value {
    let mut loader = MemLoader::default();
    if let Some(m) = job.get("modules").and_then(Value::as_object) {
        for (k, v) in m {
            loader.sources.insert(k.clone(), v.as_str().unwrap_or("").to_string());
        }
    }
    if let Some(m) = job.get("load_delay").and_then(Value::as_object) {
        for (k, v) in m {
            loader.delays.insert(k.clone(), v.as_u64().unwrap_or(0));
        }
    }
    // `"entries": [[what, name], ...]` (several independent graphs in one job, evaluated in turn) replaces
    // `entry` / `second_entry` / `re_evaluate`.
    let entries: Option<Vec<(String, String)>> = job.get("entries").and_then(Value::as_array).map(|a| {
        a.iter()
            .filter_map(|e| {
                let e = e.as_array()?;
                Some((e.first()?.as_str()?.to_string(), e.get(1)?.as_str()?.to_string()))
            })
            .collect()
    });
    let entry = job.get("entry").and_then(Value::as_str).unwrap_or("");
    if entries.is_none() && entry.is_empty() {
        return json!({"fatal": "modules: no entry"});
    }
    let loader = Rc::new(loader);
    let mut ctx = match Context::builder().module_loader(loader.clone()).build() {
        Ok(c) => c,
        Err(e) => return json!({"fatal": format!("context build: {e}")}),
    };
    if let Err(e) =
        ctx.register_global_builtin_callable(js_string!("__emit"), 1, NativeFunction::from_fn_ptr(emit_native))
    {
        return json!({"fatal": format!("register __emit: {e}")});
    }
    if !prelude.is_empty() {
        if let Err(e) = ctx.eval(Source::from_bytes(prelude)) {
            return json!({"fatal": format!("prelude failed: {e}")});
        }
    }
    if let Some(s) = job.get("setup").and_then(Value::as_str) {
        if let Err(e) = ctx.eval(Source::from_bytes(s)) {
            return json!({"fatal": format!("setup failed: {e}")});
        }
    }
    if let Some(l) = job.get("limits") {
        if let Some(n) = l.get("loop").and_then(Value::as_u64) {
            ctx.runtime_limits_mut().set_loop_iteration_limit(n);
        }
        if let Some(n) = l.get("recursion").and_then(Value::as_u64) {
            ctx.runtime_limits_mut().set_recursion_limit(n as usize);
        }
        if let Some(n) = l.get("stack").and_then(Value::as_u64) {
            ctx.runtime_limits_mut().set_stack_size_limit(n as usize);
        }
    }
    let _ = util::take_trace();

    let re = job.get("re_evaluate").and_then(Value::as_bool).unwrap_or(false);
    let mut evals = Vec::new();
    if let Some(entries) = entries {
        for (what, name) in &entries {
            evals.push(evaluate_one(what, name, &loader, &mut ctx));
        }
    } else {
        evals.push(evaluate_one("entry", entry, &loader, &mut ctx));
        if re {
            evals.push(evaluate_one("re", entry, &loader, &mut ctx));
        }
        if let Some(second) = job.get("second_entry").and_then(Value::as_str) {
            evals.push(evaluate_one("second", second, &loader, &mut ctx));
            if re {
                evals.push(evaluate_one("second_re", second, &loader, &mut ctx));
            }
        }
    }
    let loads: Vec<Value> = loader.log.borrow().iter().map(|(a, b)| json!([a, b])).collect();
    let parsed: Vec<Value> = loader.parsed.borrow().iter().map(|n| json!(n)).collect();
    json!({
        "loads": loads,
        "parsed": parsed,
        "evals": evals,
        "trace": util::take_trace(),
    })
}
