use serde_json::{Value, json};
pub fn run(_job: &Value, _prelude: &'static str) -> Value {
    json!({"fatal": "modules: not built yet"})
}
