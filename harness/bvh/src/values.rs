//! `values` subcommand (property C12): round trips through `JsValue`.
//!
//! bvh values i32 <threads>                 exhaustive: all 2^32 int32
//! bvh values f64 <seed> <random_count>     structured set (sign x exponent x tag nibble x boundary mantissas) + seeded random bit patterns
//! bvh values heap <seed> <count>           booleans / null / undefined / strings / objects / bigints / symbols
//!
//! Prints one JSON object; exit code 1 on the first violation.

use boa_engine::{Context, JsBigInt, JsObject, JsString, JsSymbol, JsValue, JsVariant, js_string};
use std::sync::atomic::{AtomicU64, Ordering};

fn fail(what: String) -> ! {
    println!("{{\"violation\":{:?}}}", what);
    std::process::exit(1);
}

fn check_not_other(v: &JsValue, what: &str) {
    if v.is_undefined() || v.is_null() || v.is_boolean() || v.is_object() || v.is_string() || v.is_symbol() || v.is_bigint() {
        fail(format!("{what}: a number is classified as another type: {:?}", v.variant()));
    }
}

fn check_f64(bits: u64, how: &str, v: &JsValue) {
    let f = f64::from_bits(bits);
    if !v.is_number() {
        fail(format!("f64 bits {bits:#018x} via {how}: is_number() is false, variant {:?}", v.variant()));
    }
    check_not_other(v, &format!("f64 bits {bits:#018x} via {how}"));
    let Some(back) = v.as_number() else {
        fail(format!("f64 bits {bits:#018x} via {how}: as_number() is None"));
    };
    if f.is_nan() {
        if !back.is_nan() {
            fail(format!("NaN bits {bits:#018x} via {how}: reads back as {back:?}"));
        }
    } else if back.to_bits() != bits {
        fail(format!("f64 bits {bits:#018x} ({f:e}) via {how}: reads back as bits {:#018x} ({back:e})", back.to_bits()));
    }
    match v.variant() {
        JsVariant::Float64(x) => {
            if !(x.is_nan() && f.is_nan()) && x.to_bits() != bits {
                fail(format!("f64 bits {bits:#018x} via {how}: variant Float64 holds {:#018x}", x.to_bits()));
            }
        }
        JsVariant::Integer32(i) => {
            if f64::from(i).to_bits() != bits {
                fail(format!("f64 bits {bits:#018x} via {how}: variant Integer32({i}) is a different number"));
            }
        }
        other => fail(format!("f64 bits {bits:#018x} via {how}: variant {other:?}")),
    }
    // a clone is the same value
    let c = v.clone();
    if c.as_number().map(f64::to_bits) != v.as_number().map(f64::to_bits) && !f.is_nan() {
        fail(format!("f64 bits {bits:#018x} via {how}: clone differs"));
    }
}

struct Rng(u64);
impl Rng {
    fn next(&mut self) -> u64 {
        self.0 = self.0.wrapping_add(0x9E37_79B9_7F4A_7C15);
        let mut z = self.0;
        z = (z ^ (z >> 30)).wrapping_mul(0xBF58_476D_1CE4_E5B9);
        z = (z ^ (z >> 27)).wrapping_mul(0x94D0_49BB_1331_11EB);
        z ^ (z >> 31)
    }
}

pub fn main(args: &[String]) {
    match args.first().map(String::as_str) {
        Some("i32") => {
            let threads: u64 = args.get(1).and_then(|s| s.parse().ok()).unwrap_or(16);
            let checked = AtomicU64::new(0);
            std::thread::scope(|s| {
                for t in 0..threads {
                    let checked = &checked;
                    s.spawn(move || {
                        let span = (1u64 << 32) / threads;
                        let lo = t * span;
                        let hi = if t == threads - 1 { 1u64 << 32 } else { lo + span };
                        let mut n = 0u64;
                        for u in lo..hi {
                            let i = u as u32 as i32;
                            let v = JsValue::new(i);
                            if v.as_i32() != Some(i) {
                                fail(format!("i32 {i}: as_i32() is {:?}", v.as_i32()));
                            }
                            if !v.is_number() || !matches!(v.variant(), JsVariant::Integer32(x) if x == i) {
                                fail(format!("i32 {i}: variant is {:?}", v.variant()));
                            }
                            if v.as_number() != Some(f64::from(i)) {
                                fail(format!("i32 {i}: as_number() is {:?}", v.as_number()));
                            }
                            if v.is_undefined() || v.is_null() || v.is_boolean() || v.is_object() || v.is_string() || v.is_symbol() || v.is_bigint() {
                                fail(format!("i32 {i}: classified as another type"));
                            }
                            n += 1;
                        }
                        checked.fetch_add(n, Ordering::Relaxed);
                    });
                }
            });
            println!("{{\"checked\":{},\"exhaustive\":true}}", checked.load(Ordering::Relaxed));
        }
        Some("f64") => {
            let seed: u64 = args.get(1).and_then(|s| s.parse().ok()).unwrap_or(0);
            let random: u64 = args.get(2).and_then(|s| s.parse().ok()).unwrap_or(1 << 20);
            let n = std::cell::Cell::new(0u64);
            let nans = std::cell::Cell::new(0u64);
            let check_all = |bits: u64| {
                let f = f64::from_bits(bits);
                check_f64(bits, "JsValue::new", &JsValue::new(f));
                check_f64(bits, "From<f64>", &JsValue::from(f));
                check_f64(bits, "rational", &JsValue::rational(f));
                // through f32 (exact for every f32 value)
                let g = f as f32;
                if !g.is_nan() {
                    check_f64(f64::from(g).to_bits(), "From<f32>", &JsValue::from(g));
                } else if !JsValue::from(g).as_number().is_some_and(f64::is_nan) {
                    fail(format!("f32 NaN from bits {bits:#018x} does not read back as NaN"));
                }
                if f.is_nan() {
                    nans.set(nans.get() + 1);
                }
                n.set(n.get() + 1);
            };
            let mantissas: [u64; 12] = [0, 1, (1 << 52) - 1, 1 << 31, 1 << 32, 1 << 47, 1 << 48, 1 << 50, 1 << 51, (1 << 51) | 1, (1 << 48) - 1, 0x0000_5555_5555_5555];
            for sign in 0..2u64 {
                for exp in 0..2048u64 {
                    for nibble in 0..16u64 {
                        for m in mantissas {
                            let mant = (m & 0x0000_FFFF_FFFF_FFFF) | (nibble << 48);
                            check_all((sign << 63) | (exp << 52) | mant);
                        }
                    }
                }
            }
            let structured = n.get();
            let mut rng = Rng(seed);
            for k in 0..random {
                let mut b = rng.next();
                // a third of the random patterns are forced into the NaN / tag space
                if k % 3 == 0 {
                    b |= 0x7FF0_0000_0000_0000;
                }
                check_all(b);
            }
            println!("{{\"checked\":{},\"structured\":{structured},\"random\":{random},\"nan_patterns\":{}}}", n.get(), nans.get());
        }
        Some("heap") => {
            let seed: u64 = args.get(1).and_then(|s| s.parse().ok()).unwrap_or(0);
            let count: u64 = args.get(2).and_then(|s| s.parse().ok()).unwrap_or(10_000);
            let mut ctx = Context::default();
            let mut rng = Rng(seed);
            let mut n = 0u64;
            for b in [true, false] {
                let v = JsValue::new(b);
                if v.as_boolean() != Some(b) || !v.is_boolean() || v.is_number() || v.is_null() || v.is_undefined() || v.is_object() {
                    fail(format!("bool {b}: misclassified {:?}", v.variant()));
                }
                n += 1;
            }
            let u = JsValue::undefined();
            let nl = JsValue::null();
            if !u.is_undefined() || u.is_null() || u.is_number() || u.is_boolean() || u.is_object() || !nl.is_null() || nl.is_undefined() || nl.is_number() || nl.is_boolean() {
                fail("undefined / null misclassified".into());
            }
            n += 2;
            for _ in 0..count {
                match rng.next() % 4 {
                    0 => {
                        let len = (rng.next() % 40) as usize;
                        let units: Vec<u16> = (0..len).map(|_| (rng.next() % 0x3000) as u16).collect();
                        let s = JsString::from(&units[..]);
                        let before = s.refcount();
                        let v = JsValue::new(s.clone());
                        if !v.is_string() || v.is_object() || v.is_number() || v.as_string().is_none_or(|x| x != s) {
                            fail(format!("string of {len} units: misclassified or changed: {:?}", v.variant()));
                        }
                        let c = v.clone();
                        drop(c);
                        drop(v);
                        if s.refcount() != before {
                            fail(format!("string refcount not conserved over store/clone/drop: {:?} -> {:?}", before, s.refcount()));
                        }
                    }
                    1 => {
                        let o = JsObject::with_null_proto();
                        let v = JsValue::new(o.clone());
                        if !v.is_object() || v.is_string() || v.is_number() || !v.as_object().is_some_and(|x| JsObject::equals(&x, &o)) {
                            fail(format!("object: misclassified or different identity: {:?}", v.variant()));
                        }
                        let c = v.clone();
                        if !c.as_object().is_some_and(|x| JsObject::equals(&x, &o)) {
                            fail("object: clone has a different identity".into());
                        }
                    }
                    2 => {
                        let big = JsBigInt::from(rng.next() as i64);
                        let v = JsValue::new(big.clone());
                        if !v.is_bigint() || v.is_number() || v.is_object() || v.as_bigint().is_none_or(|x| x != big) {
                            fail(format!("bigint: misclassified or changed: {:?}", v.variant()));
                        }
                    }
                    _ => {
                        let sym = JsSymbol::new(Some(js_string!("d"))).unwrap_or_else(|| fail("symbol creation failed".into()));
                        let v = JsValue::new(sym.clone());
                        if !v.is_symbol() || v.is_object() || v.is_string() || v.as_symbol().is_none_or(|x| x != sym) {
                            fail(format!("symbol: misclassified or changed: {:?}", v.variant()));
                        }
                    }
                }
                n += 1;
            }
            drop(ctx.global_object());
            let _ = &mut ctx;
            println!("{{\"checked\":{n}}}");
        }
        _ => {
            eprintln!("usage: bvh values i32|f64|heap ...");
            std::process::exit(2);
        }
    }
}
