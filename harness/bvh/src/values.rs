pub fn main(_args: &[String]) {
    eprintln!("values: not built yet");
    std::process::exit(2);
}
