//! bvh — batch verification harness for boa_engine.
//!
//! `bvh <subcommand> <jobs.jsonl> <out.jsonl> [--prelude file]`
//!
//! Reads one JSON job per line, runs every job on its own thread (fresh thread-local GC
//! heap, fresh switches) inside `catch_unwind`, and appends one JSON result per line to the
//! output file. A journal line `B <index>` / `E <index>` is flushed to `<out>.journal`
//! around every job so that the supervisor can attribute a process death to a job.

mod session;
mod util;
mod values;
mod parse;
mod modules;

use serde_json::{Value, json};
use std::fs::{File, OpenOptions};
use std::io::{BufRead, BufReader, Write};
use std::sync::mpsc;
use std::time::Duration;

fn main() {
    let args: Vec<String> = std::env::args().collect();
    if args.len() < 2 {
        eprintln!("usage: bvh <subcommand> ...");
        std::process::exit(2);
    }
    match args[1].as_str() {
        "values" => {
            values::main(&args[2..]);
            return;
        }
        "version" => {
            println!("bvh 1");
            return;
        }
        _ => {}
    }
    if args.len() < 4 {
        eprintln!("usage: bvh <subcommand> <jobs.jsonl> <out.jsonl> [--prelude f] [--timeout s] [--skip n]");
        std::process::exit(2);
    }
    let sub = args[1].clone();
    let jobs_path = &args[2];
    let out_path = &args[3];
    let mut prelude = String::new();
    let mut timeout_s: u64 = 20;
    let mut skip: usize = 0;
    let mut i = 4;
    while i < args.len() {
        match args[i].as_str() {
            "--prelude" => {
                prelude = std::fs::read_to_string(&args[i + 1]).expect("prelude");
                i += 2;
            }
            "--timeout" => {
                timeout_s = args[i + 1].parse().expect("timeout");
                i += 2;
            }
            "--skip" => {
                skip = args[i + 1].parse().expect("skip");
                i += 2;
            }
            other => {
                eprintln!("unknown arg {other}");
                std::process::exit(2);
            }
        }
    }
    util::install_panic_hook();
    let prelude: &'static str = Box::leak(prelude.into_boxed_str());

    let jobs = BufReader::new(File::open(jobs_path).expect("jobs file"));
    let mut out = OpenOptions::new()
        .create(true)
        .append(true)
        .open(out_path)
        .expect("out file");
    let mut journal = OpenOptions::new()
        .create(true)
        .append(true)
        .open(format!("{out_path}.journal"))
        .expect("journal");

    for (index, line) in jobs.lines().enumerate() {
        let line = line.expect("read");
        if index < skip || line.trim().is_empty() {
            continue;
        }
        let job: Value = match serde_json::from_str(&line) {
            Ok(v) => v,
            Err(e) => {
                eprintln!("bad job line {index}: {e}");
                std::process::exit(2);
            }
        };
        writeln!(journal, "B {index}").ok();
        journal.flush().ok();
        let id = job.get("id").cloned().unwrap_or(Value::Null);
        let sub2 = sub.clone();
        let (tx, rx) = mpsc::channel();
        let handle = std::thread::Builder::new()
            .stack_size(64 << 20)
            .spawn(move || {
                let r = std::panic::catch_unwind(std::panic::AssertUnwindSafe(|| {
                    dispatch(&sub2, &job, prelude)
                }));
                let v = match r {
                    Ok(v) => v,
                    Err(_) => json!({"fatal": format!("panic:{}", util::take_panic())}),
                };
                tx.send(v).ok();
            })
            .expect("spawn");
        let job_timeout = Duration::from_secs(timeout_s);
        let res = match rx.recv_timeout(job_timeout) {
            Ok(v) => {
                handle.join().ok();
                v
            }
            Err(_) => {
                let v = json!({"id": id, "index": index, "fatal": "timeout"});
                writeln!(out, "{v}").ok();
                out.flush().ok();
                writeln!(journal, "T {index}").ok();
                journal.flush().ok();
                // The job thread cannot be cancelled: leave, the supervisor resumes after it.
                std::process::exit(3);
            }
        };
        let mut res = res;
        if let Value::Object(m) = &mut res {
            m.insert("id".into(), id);
            m.insert("index".into(), json!(index));
        }
        writeln!(out, "{res}").ok();
        out.flush().ok();
        writeln!(journal, "E {index}").ok();
        journal.flush().ok();
    }
}

fn dispatch(sub: &str, job: &Value, prelude: &'static str) -> Value {
    match sub {
        "session" => session::run(job, prelude),
        "parse" => parse::run(job),
        "modules" => modules::run(job, prelude),
        _ => json!({"fatal": format!("unknown subcommand {sub}")}),
    }
}
