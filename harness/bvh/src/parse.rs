use serde_json::{Value, json};
pub fn run(_job: &Value) -> Value {
    json!({"fatal": "parse: not built yet"})
}
