//! `parse` subcommand (property C19): parse / print / reparse round trips on boa_parser alone.

use boa_ast::scope::Scope;
use boa_interner::{Interner, ToInternedString};
use boa_parser::{Parser, Source};
use serde_json::{Value, json};

fn bytes_of(job: &Value) -> Vec<u8> {
    if let Some(s) = job.get("src").and_then(Value::as_str) {
        return s.as_bytes().to_vec();
    }
    if let Some(h) = job.get("src_hex").and_then(Value::as_str) {
        return (0..h.len() / 2)
            .map(|i| u8::from_str_radix(&h[2 * i..2 * i + 2], 16).unwrap_or(0))
            .collect();
    }
    Vec::new()
}

fn utf16_to_string(u: &[u16]) -> String {
    let mut out = String::new();
    for r in char::decode_utf16(u.iter().copied()) {
        match r {
            Ok(c) => out.push(c),
            Err(e) => out.push_str(&format!("\\u{:04X}", e.unpaired_surrogate())),
        }
    }
    out
}

pub fn run(job: &Value) -> Value {
    let bytes = bytes_of(job);
    let module = job.get("goal").and_then(Value::as_str) == Some("module");
    let strict = job.get("strict").and_then(Value::as_bool).unwrap_or(false);
    let mut interner = Interner::default();

    macro_rules! roundtrip {
        ($parse:ident) => {{
            let scope = Scope::new_global();
            let mut parser = Parser::new(Source::from_bytes(&bytes));
            if strict {
                parser.set_strict();
            }
            match parser.$parse(&scope, &mut interner) {
                Err(e) => json!({"ok": false, "err": e.to_string()}),
                Ok(a1) => {
                    let interned: Vec<String> = interner.verif_strings().iter().map(|u| utf16_to_string(u)).collect();
                    let p1 = a1.to_interned_string(&interner);
                    let scope2 = Scope::new_global();
                    let mut parser2 = Parser::new(Source::from_bytes(p1.as_bytes()));
                    if strict {
                        parser2.set_strict();
                    }
                    match parser2.$parse(&scope2, &mut interner) {
                        Err(e) => json!({"ok": true, "p1": p1, "interned": interned, "reparse_ok": false, "reparse_err": e.to_string()}),
                        Ok(a2) => {
                            let p2 = a2.to_interned_string(&interner);
                            let scope3 = Scope::new_global();
                            let mut parser3 = Parser::new(Source::from_bytes(p2.as_bytes()));
                            if strict {
                                parser3.set_strict();
                            }
                            let (third_ok, ast_equal) = match parser3.$parse(&scope3, &mut interner) {
                                Ok(a3) => (true, a3 == a2),
                                Err(_) => (false, false),
                            };
                            json!({"ok": true, "p1": p1, "interned": interned, "reparse_ok": true, "p2_equal": p1 == p2,
                                   "p2": if p1 == p2 { Value::Null } else { Value::String(p2) },
                                   "third_ok": third_ok, "ast_equal": ast_equal, "first_equal_second": a1 == a2})
                        }
                    }
                }
            }
        }};
    }
    if module {
        // boa_ast::Module has no printer: totality, error position and interning only
        let scope = Scope::new_global();
        let mut parser = Parser::new(Source::from_bytes(&bytes));
        match parser.parse_module(&scope, &mut interner) {
            Err(e) => json!({"ok": false, "err": e.to_string()}),
            Ok(_) => {
                let interned: Vec<String> = interner.verif_strings().iter().map(|u| utf16_to_string(u)).collect();
                json!({"ok": true, "module": true, "interned": interned})
            }
        }
    } else {
        roundtrip!(parse_script)
    }
}
