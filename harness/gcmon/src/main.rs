//! gcmon — model-based monitor for `boa_gc` (property C09).
//!
//! Runs operation histories on the real collector; after every operation the observations
//! (per-node drop / finalize counters, canaries, weak upgrades, ephemeron values, weak-map
//! lookups, heap census) are compared with an executable reachability model.
//!
//!   gcmon random <seed> <histories> <max_ops> <max_nodes> [resurrect]
//!   gcmon exhaustive <len> <shard> <nshards>
//!   gcmon replay <history-json>
//!   gcmon resurrect
//!
//! Output: one JSON object on stdout. Exit code 0 = all held, 1 = violation (in the JSON).

use boa_gc::{Ephemeron, Finalize, Gc, GcRefCell, Trace, WeakGc, WeakMap, force_collect};
use std::cell::{Cell, RefCell};
use std::collections::BTreeMap;
use std::rc::Rc;

const MAGIC: u64 = 0xC0FF_EE00_DEAD_BEEF;
const DEAD: u64 = 0xDEAD_DEAD_DEAD_DEAD;
const EDGES: usize = 2;

#[derive(Default)]
struct Log {
    drops: RefCell<Vec<u32>>,
    finalizes: RefCell<Vec<u32>>,
    resurrect: RefCell<Vec<bool>>,
    parked: RefCell<Vec<Gc<Node>>>,
    weak_self: RefCell<BTreeMap<usize, WeakGc<Node>>>,
}

struct DropCounter {
    id: usize,
    log: Rc<Log>,
    canary: Cell<u64>,
}
impl Drop for DropCounter {
    fn drop(&mut self) {
        self.canary.set(DEAD);
        self.log.drops.borrow_mut()[self.id] += 1;
    }
}

#[derive(Trace)]
struct Node {
    #[unsafe_ignore_trace]
    id: usize,
    #[unsafe_ignore_trace]
    counter: DropCounter,
    edges: GcRefCell<Vec<Option<Gc<Node>>>>,
    ephs: GcRefCell<Vec<Ephemeron<Node, Gc<Node>>>>,
}

impl Finalize for Node {
    fn finalize(&self) {
        let log = &self.counter.log;
        log.finalizes.borrow_mut()[self.id] += 1;
        if log.resurrect.borrow()[self.id] {
            // resurrection: park a strong handle to self in a root list outside the heap
            let w = log.weak_self.borrow().get(&self.id).cloned();
            if let Some(w) = w {
                if let Some(g) = w.upgrade() {
                    log.parked.borrow_mut().push(g);
                }
            }
            log.resurrect.borrow_mut()[self.id] = false;
        }
    }
}


// ---------------------------------------------------------------- operations

#[derive(Clone, Copy, Debug, PartialEq, Eq)]
enum Op {
    Alloc,
    AllocCyclic,
    Link(u8, u8, u8),
    Unlink(u8, u8),
    Load(u8, u8),
    DropHandle(u8),
    CloneHandle(u8),
    MakeWeak(u8),
    Upgrade(u8),
    DropWeak(u8),
    MakeEph(u8, u8),
    EphValue(u8),
    DropEph(u8),
    StoreEph(u8, u8, u8),
    MapNew,
    MapInsert(u8, u8),
    MapRemove(u8),
    MapGet(u8),
    MapDrop,
    Collect,
    BorrowCollect(u8),
    Garbage(u8),
    MarkResurrect(u8),
    Unpark,
}

impl Op {
    fn name(&self) -> &'static str {
        match self {
            Op::Alloc => "alloc",
            Op::AllocCyclic => "alloc_cyclic",
            Op::Link(..) => "link",
            Op::Unlink(..) => "unlink",
            Op::Load(..) => "load",
            Op::DropHandle(..) => "drop_handle",
            Op::CloneHandle(..) => "clone_handle",
            Op::MakeWeak(..) => "make_weak",
            Op::Upgrade(..) => "upgrade",
            Op::DropWeak(..) => "drop_weak",
            Op::MakeEph(..) => "make_ephemeron",
            Op::EphValue(..) => "ephemeron_value",
            Op::DropEph(..) => "drop_ephemeron",
            Op::StoreEph(..) => "store_ephemeron_in_node",
            Op::MapNew => "weakmap_new",
            Op::MapInsert(..) => "weakmap_insert",
            Op::MapRemove(..) => "weakmap_remove",
            Op::MapGet(..) => "weakmap_get",
            Op::MapDrop => "weakmap_drop",
            Op::Collect => "collect",
            Op::BorrowCollect(..) => "borrow_mut_across_collect",
            Op::Garbage(..) => "garbage_to_threshold",
            Op::MarkResurrect(..) => "mark_resurrect",
            Op::Unpark => "unpark",
        }
    }
    fn to_json(&self) -> String {
        let (n, a): (&str, Vec<u8>) = match *self {
            Op::Alloc => ("alloc", vec![]),
            Op::AllocCyclic => ("alloc_cyclic", vec![]),
            Op::Link(a, b, c) => ("link", vec![a, b, c]),
            Op::Unlink(a, b) => ("unlink", vec![a, b]),
            Op::Load(a, b) => ("load", vec![a, b]),
            Op::DropHandle(a) => ("drop_handle", vec![a]),
            Op::CloneHandle(a) => ("clone_handle", vec![a]),
            Op::MakeWeak(a) => ("make_weak", vec![a]),
            Op::Upgrade(a) => ("upgrade", vec![a]),
            Op::DropWeak(a) => ("drop_weak", vec![a]),
            Op::MakeEph(a, b) => ("make_ephemeron", vec![a, b]),
            Op::EphValue(a) => ("ephemeron_value", vec![a]),
            Op::DropEph(a) => ("drop_ephemeron", vec![a]),
            Op::StoreEph(a, b, c) => ("store_ephemeron_in_node", vec![a, b, c]),
            Op::MapNew => ("weakmap_new", vec![]),
            Op::MapInsert(a, b) => ("weakmap_insert", vec![a, b]),
            Op::MapRemove(a) => ("weakmap_remove", vec![a]),
            Op::MapGet(a) => ("weakmap_get", vec![a]),
            Op::MapDrop => ("weakmap_drop", vec![]),
            Op::Collect => ("collect", vec![]),
            Op::BorrowCollect(a) => ("borrow_mut_across_collect", vec![a]),
            Op::Garbage(a) => ("garbage_to_threshold", vec![a]),
            Op::MarkResurrect(a) => ("mark_resurrect", vec![a]),
            Op::Unpark => ("unpark", vec![]),
        };
        let args: Vec<String> = a.iter().map(|x| x.to_string()).collect();
        format!("[\"{}\"{}{}]", n, if args.is_empty() { "" } else { "," }, args.join(","))
    }
    fn from_json(name: &str, a: &[u8]) -> Option<Op> {
        let g = |i: usize| a.get(i).copied().unwrap_or(0);
        Some(match name {
            "alloc" => Op::Alloc,
            "alloc_cyclic" => Op::AllocCyclic,
            "link" => Op::Link(g(0), g(1), g(2)),
            "unlink" => Op::Unlink(g(0), g(1)),
            "load" => Op::Load(g(0), g(1)),
            "drop_handle" => Op::DropHandle(g(0)),
            "clone_handle" => Op::CloneHandle(g(0)),
            "make_weak" => Op::MakeWeak(g(0)),
            "upgrade" => Op::Upgrade(g(0)),
            "drop_weak" => Op::DropWeak(g(0)),
            "make_ephemeron" => Op::MakeEph(g(0), g(1)),
            "ephemeron_value" => Op::EphValue(g(0)),
            "drop_ephemeron" => Op::DropEph(g(0)),
            "store_ephemeron_in_node" => Op::StoreEph(g(0), g(1), g(2)),
            "weakmap_new" => Op::MapNew,
            "weakmap_insert" => Op::MapInsert(g(0), g(1)),
            "weakmap_remove" => Op::MapRemove(g(0)),
            "weakmap_get" => Op::MapGet(g(0)),
            "weakmap_drop" => Op::MapDrop,
            "collect" => Op::Collect,
            "borrow_mut_across_collect" => Op::BorrowCollect(g(0)),
            "garbage_to_threshold" => Op::Garbage(g(0)),
            "mark_resurrect" => Op::MarkResurrect(g(0)),
            "unpark" => Op::Unpark,
            _ => return None,
        })
    }
}

// ---------------------------------------------------------------- model

#[derive(Clone, Debug)]
struct MNode {
    edges: [Option<usize>; EDGES],
    ephs: Vec<(usize, usize)>,
    swept: bool,
}

#[derive(Clone, Debug, Default)]
struct Model {
    nodes: Vec<MNode>,
    roots: Vec<Option<usize>>,
    weaks: Vec<Option<usize>>,
    ephs: Vec<Option<(usize, usize)>>,
    map: Option<Vec<(usize, usize)>>,
    parked: Vec<usize>,
}

impl Model {
    fn new(r: usize, w: usize, e: usize) -> Self {
        Model { nodes: vec![], roots: vec![None; r], weaks: vec![None; w], ephs: vec![None; e], map: None, parked: vec![] }
    }

    /// reachable set: roots, strong edges, ephemeron fix-point (driver-held, node-held, weak map)
    fn reachable(&self) -> Vec<bool> {
        let n = self.nodes.len();
        let mut mark = vec![false; n];
        let mut work: Vec<usize> = self.roots.iter().flatten().copied().chain(self.parked.iter().copied()).collect();
        loop {
            while let Some(x) = work.pop() {
                if mark[x] || self.nodes[x].swept {
                    continue;
                }
                mark[x] = true;
                for e in self.nodes[x].edges.iter().flatten() {
                    work.push(*e);
                }
            }
            // ephemerons
            let mut changed = false;
            let fire = |k: usize, v: usize, mark: &Vec<bool>, work: &mut Vec<usize>| {
                if !self.nodes[k].swept && mark[k] && !mark[v] {
                    work.push(v);
                    true
                } else {
                    false
                }
            };
            for e in self.ephs.iter().flatten() {
                changed |= fire(e.0, e.1, &mark, &mut work);
            }
            if let Some(m) = &self.map {
                for e in m {
                    changed |= fire(e.0, e.1, &mark, &mut work);
                }
            }
            for (i, nd) in self.nodes.iter().enumerate() {
                if mark[i] {
                    for e in &nd.ephs {
                        changed |= fire(e.0, e.1, &mark, &mut work);
                    }
                }
            }
            if !changed {
                break;
            }
        }
        mark
    }

    /// applies a collection: returns the list of nodes that die now
    fn collect(&mut self) -> Vec<usize> {
        let mark = self.reachable();
        let mut died = vec![];
        for i in 0..self.nodes.len() {
            if !mark[i] && !self.nodes[i].swept {
                self.nodes[i].swept = true;
                died.push(i);
            }
        }
        // weak map entries with dead keys disappear
        if let Some(m) = &mut self.map {
            let nodes = &self.nodes;
            m.retain(|(k, _)| !nodes[*k].swept);
        }
        died
    }

    fn free_root(&self) -> Option<usize> {
        self.roots.iter().position(Option::is_none)
    }
    fn live_count(&self) -> usize {
        self.nodes.iter().filter(|n| !n.swept).count()
    }
}

// ---------------------------------------------------------------- the real heap under test

struct Real {
    log: Rc<Log>,
    roots: Vec<Option<Gc<Node>>>,
    weaks: Vec<Option<WeakGc<Node>>>,
    ephs: Vec<Option<Ephemeron<Node, Gc<Node>>>>,
    map: Option<WeakMap<Node, Gc<Node>>>,
}

struct Violation(String);

fn check_node(g: &Gc<Node>, expect: usize) -> Result<(), Violation> {
    if g.counter.canary.get() != MAGIC {
        return Err(Violation(format!("node {expect}: dead canary {:#x} behind a live handle", g.counter.canary.get())));
    }
    if g.id != expect {
        return Err(Violation(format!("handle for node {expect} points at node {}", g.id)));
    }
    Ok(())
}

struct Runner {
    m: Model,
    r: Real,
    ops_done: BTreeMap<&'static str, u64>,
    skipped: u64,
    collections: u64,
    census_checks: u64,
    upgrades_some: u64,
    upgrades_none: u64,
    eph_some: u64,
    eph_none: u64,
    died_total: u64,
    base: boa_gc::verif::Stats,
    allow_resurrect: bool,
}

impl Runner {
    fn new(roots: usize, weaks: usize, ephs: usize, allow_resurrect: bool) -> Self {
        let base = boa_gc::verif::stats();
        Runner {
            m: Model::new(roots, weaks, ephs),
            r: Real {
                log: Rc::new(Log::default()),
                roots: (0..roots).map(|_| None).collect(),
                weaks: (0..weaks).map(|_| None).collect(),
                ephs: (0..ephs).map(|_| None).collect(),
                map: None,
            },
            ops_done: BTreeMap::new(),
            skipped: 0,
            collections: 0,
            census_checks: 0,
            upgrades_some: 0,
            upgrades_none: 0,
            eph_some: 0,
            eph_none: 0,
            died_total: 0,
            base,
            allow_resurrect,
        }
    }

    fn new_node(&mut self, cyclic: bool) -> Gc<Node> {
        let id = self.m.nodes.len();
        self.r.log.drops.borrow_mut().push(0);
        self.r.log.finalizes.borrow_mut().push(0);
        self.r.log.resurrect.borrow_mut().push(false);
        let log = self.r.log.clone();
        let mk = || Node {
            id,
            counter: DropCounter { id, log: log.clone(), canary: Cell::new(MAGIC) },
            edges: GcRefCell::new((0..EDGES).map(|_| None).collect()),
            ephs: GcRefCell::new(Vec::new()),
        };
        let mut mn = MNode { edges: [None; EDGES], ephs: vec![], swept: false };
        let g = if cyclic {
            // a node whose first edge is itself, built with new_cyclic
            mn.edges[0] = Some(id);
            Gc::new_cyclic(|w: &WeakGc<Node>| {
                // the weak pointer cannot be upgraded while the node is under construction
                let _ = w.is_upgradable();
                mk()
            })
        } else {
            Gc::new(mk())
        };
        if cyclic {
            g.edges.borrow_mut()[0] = Some(g.clone());
        }
        self.m.nodes.push(mn);
        g
    }

    fn root(&self, i: u8) -> Option<(usize, usize)> {
        let occupied: Vec<usize> = (0..self.m.roots.len()).filter(|&k| self.m.roots[k].is_some()).collect();
        if occupied.is_empty() {
            return None;
        }
        let slot = occupied[(i as usize) % occupied.len()];
        Some((slot, self.m.roots[slot].unwrap()))
    }

    fn put_root(&mut self, id: usize, g: Gc<Node>) -> bool {
        match self.m.free_root() {
            Some(s) => {
                self.m.roots[s] = Some(id);
                self.r.roots[s] = Some(g);
                true
            }
            None => false, // handle dropped immediately
        }
    }

    fn do_collect(&mut self) -> Result<(), Violation> {
        force_collect();
        self.after_collect()
    }

    fn after_collect(&mut self) -> Result<(), Violation> {
        self.collections += 1;
        let died = self.m.collect();
        // finalizer resurrection (quarantine stream only): nodes that parked themselves survive
        let parked_now: Vec<usize> = self.r.log.parked.borrow().iter().map(|g| g.id).filter(|id| !self.m.parked.contains(id)).collect();
        let mut really_died = died.clone();
        if !parked_now.is_empty() {
            for p in &parked_now {
                if !self.m.parked.contains(p) {
                    self.m.parked.push(*p);
                }
            }
            // the resurrected nodes and whatever they reach survive this collection
            for d in &died {
                self.m.nodes[*d].swept = false;
            }
            let mark = self.m.reachable();
            really_died.clear();
            for d in died {
                if mark[d] {
                    continue;
                }
                self.m.nodes[d].swept = true;
                really_died.push(d);
            }
        }
        self.died_total += really_died.len() as u64;
        // every node that was unreachable must have been finalized and freed by *this* collection
        self.check_counters()?;
        // Internal weak-pointer boxes (the weak map registry's own pointer to a dropped map) are
        // released one collection later; the census is therefore taken after a second collection,
        // which must not change any node.
        force_collect();
        self.check_counters()?;
        self.check_census()
    }

    fn check_counters(&self) -> Result<(), Violation> {
        let drops = self.r.log.drops.borrow();
        let fins = self.r.log.finalizes.borrow();
        for (i, n) in self.m.nodes.iter().enumerate() {
            if n.swept {
                if drops[i] != 1 {
                    return Err(Violation(format!("node {i} is unreachable after a collection but was dropped {} times (expected exactly once)", drops[i])));
                }
                if fins[i] != 1 && !self.allow_resurrect {
                    return Err(Violation(format!("node {i} is unreachable after a collection but was finalized {} times (expected exactly once)", fins[i])));
                }
            } else {
                if drops[i] != 0 {
                    return Err(Violation(format!("node {i} is reachable from a live handle but was dropped {} times", drops[i])));
                }
                if fins[i] != 0 && !self.allow_resurrect {
                    return Err(Violation(format!("node {i} is reachable from a live handle but was finalized {} times", fins[i])));
                }
            }
        }
        Ok(())
    }

    fn check_census(&mut self) -> Result<(), Violation> {
        self.census_checks += 1;
        let s = boa_gc::verif::stats();
        let live_nodes = self.m.live_count();
        let maps = usize::from(self.m.map.is_some());
        let expect_strong = self.base.strong_boxes + live_nodes + maps;
        if s.strong_boxes != expect_strong {
            return Err(Violation(format!("census after collection: {} strong boxes on the heap, model has {} (live nodes {live_nodes}, weak maps {maps})", s.strong_boxes, expect_strong)));
        }
        // ephemeron boxes: weak handles, driver-held ephemerons, node-held ephemerons of live nodes,
        // one weak pointer per weak map plus its live entries
        let mut eph = self.m.weaks.iter().flatten().count() + self.m.ephs.iter().flatten().count();
        for n in &self.m.nodes {
            if !n.swept {
                eph += n.ephs.len();
            }
        }
        if let Some(m) = &self.m.map {
            eph += 1 + m.len();
        }
        eph += self.r.log.weak_self.borrow().len();
        let expect_eph = self.base.ephemerons + eph;
        if s.ephemerons != expect_eph {
            return Err(Violation(format!("census after collection: {} ephemeron boxes on the heap, model has {}", s.ephemerons, expect_eph)));
        }
        if s.weak_maps != self.base.weak_maps + maps {
            return Err(Violation(format!("census after collection: {} weak map boxes, model has {}", s.weak_maps, self.base.weak_maps + maps)));
        }
        Ok(())
    }

    fn step(&mut self, op: Op) -> Result<(), Violation> {
        let mut done = true;
        match op {
            Op::Alloc | Op::AllocCyclic => {
                let id = self.m.nodes.len();
                let g = self.new_node(op == Op::AllocCyclic);
                check_node(&g, id)?;
                self.put_root(id, g);
            }
            Op::Link(a, e, b) => match (self.root(a), self.root(b)) {
                (Some((sa, ia)), Some((sb, ib))) => {
                    let e = (e as usize) % EDGES;
                    let gb = self.r.roots[sb].as_ref().unwrap().clone();
                    let ga = self.r.roots[sa].as_ref().unwrap();
                    check_node(ga, ia)?;
                    ga.edges.borrow_mut()[e] = Some(gb);
                    self.m.nodes[ia].edges[e] = Some(ib);
                }
                _ => done = false,
            },
            Op::Unlink(a, e) => match self.root(a) {
                Some((sa, ia)) => {
                    let e = (e as usize) % EDGES;
                    let ga = self.r.roots[sa].as_ref().unwrap();
                    check_node(ga, ia)?;
                    ga.edges.borrow_mut()[e] = None;
                    self.m.nodes[ia].edges[e] = None;
                }
                None => done = false,
            },
            Op::Load(a, e) => match self.root(a) {
                Some((sa, ia)) => {
                    let e = (e as usize) % EDGES;
                    let got = self.r.roots[sa].as_ref().unwrap().edges.borrow()[e].clone();
                    match (got, self.m.nodes[ia].edges[e]) {
                        (Some(g), Some(ib)) => {
                            check_node(&g, ib)?;
                            self.put_root(ib, g);
                        }
                        (None, None) => {}
                        (g, mexp) => {
                            return Err(Violation(format!("edge {e} of node {ia}: heap has {:?}, model has {:?}", g.map(|g| g.id), mexp)));
                        }
                    }
                }
                None => done = false,
            },
            Op::DropHandle(a) => match self.root(a) {
                Some((sa, _)) => {
                    self.r.roots[sa] = None;
                    self.m.roots[sa] = None;
                }
                None => done = false,
            },
            Op::CloneHandle(a) => match self.root(a) {
                Some((sa, ia)) => {
                    let g = self.r.roots[sa].as_ref().unwrap().clone();
                    self.put_root(ia, g);
                }
                None => done = false,
            },
            Op::MakeWeak(a) => match (self.root(a), self.m.weaks.iter().position(Option::is_none)) {
                (Some((sa, ia)), Some(w)) => {
                    self.r.weaks[w] = Some(WeakGc::new(self.r.roots[sa].as_ref().unwrap()));
                    self.m.weaks[w] = Some(ia);
                }
                _ => done = false,
            },
            Op::Upgrade(w) => {
                let occupied: Vec<usize> = (0..self.m.weaks.len()).filter(|&k| self.m.weaks[k].is_some()).collect();
                if occupied.is_empty() {
                    done = false;
                } else {
                    let w = occupied[(w as usize) % occupied.len()];
                    let id = self.m.weaks[w].unwrap();
                    let got = self.r.weaks[w].as_ref().unwrap().upgrade();
                    let upgradable = self.r.weaks[w].as_ref().unwrap().is_upgradable();
                    let expect_live = !self.m.nodes[id].swept;
                    if got.is_some() != expect_live || upgradable != expect_live {
                        return Err(Violation(format!(
                            "weak pointer to node {id}: upgrade() is {} / is_upgradable() is {upgradable}, but the node is {}",
                            if got.is_some() { "Some" } else { "None" },
                            if expect_live { "still live" } else { "already freed" }
                        )));
                    }
                    match got {
                        Some(g) => {
                            self.upgrades_some += 1;
                            check_node(&g, id)?;
                            self.put_root(id, g);
                        }
                        None => self.upgrades_none += 1,
                    }
                }
            }
            Op::DropWeak(w) => {
                let occupied: Vec<usize> = (0..self.m.weaks.len()).filter(|&k| self.m.weaks[k].is_some()).collect();
                if occupied.is_empty() {
                    done = false;
                } else {
                    let w = occupied[(w as usize) % occupied.len()];
                    self.r.weaks[w] = None;
                    self.m.weaks[w] = None;
                }
            }
            Op::MakeEph(k, v) => match (self.root(k), self.root(v), self.m.ephs.iter().position(Option::is_none)) {
                (Some((sk, ik)), Some((sv, iv)), Some(e)) => {
                    let val = self.r.roots[sv].as_ref().unwrap().clone();
                    self.r.ephs[e] = Some(Ephemeron::new(self.r.roots[sk].as_ref().unwrap(), val));
                    self.m.ephs[e] = Some((ik, iv));
                }
                _ => done = false,
            },
            Op::EphValue(e) => {
                let occupied: Vec<usize> = (0..self.m.ephs.len()).filter(|&k| self.m.ephs[k].is_some()).collect();
                if occupied.is_empty() {
                    done = false;
                } else {
                    let e = occupied[(e as usize) % occupied.len()];
                    let (ik, iv) = self.m.ephs[e].unwrap();
                    let got: Option<Gc<Node>> = self.r.ephs[e].as_ref().unwrap().value().map(|v| (*v).clone());
                    let expect = !self.m.nodes[ik].swept;
                    if got.is_some() != expect {
                        return Err(Violation(format!(
                            "ephemeron (key {ik} -> value {iv}): value() is {}, but the key is {}",
                            if got.is_some() { "Some" } else { "None" },
                            if expect { "still live" } else { "already freed" }
                        )));
                    }
                    match got {
                        Some(g) => {
                            self.eph_some += 1;
                            check_node(&g, iv)?;
                            self.put_root(iv, g);
                        }
                        None => self.eph_none += 1,
                    }
                }
            }
            Op::DropEph(e) => {
                let occupied: Vec<usize> = (0..self.m.ephs.len()).filter(|&k| self.m.ephs[k].is_some()).collect();
                if occupied.is_empty() {
                    done = false;
                } else {
                    let e = occupied[(e as usize) % occupied.len()];
                    self.r.ephs[e] = None;
                    self.m.ephs[e] = None;
                }
            }
            Op::StoreEph(a, k, v) => match (self.root(a), self.root(k), self.root(v)) {
                (Some((sa, ia)), Some((sk, ik)), Some((sv, iv))) => {
                    let val = self.r.roots[sv].as_ref().unwrap().clone();
                    let e = Ephemeron::new(self.r.roots[sk].as_ref().unwrap(), val);
                    self.r.roots[sa].as_ref().unwrap().ephs.borrow_mut().push(e);
                    self.m.nodes[ia].ephs.push((ik, iv));
                }
                _ => done = false,
            },
            Op::MapNew => {
                if self.m.map.is_none() {
                    self.r.map = Some(WeakMap::new());
                    self.m.map = Some(vec![]);
                } else {
                    done = false;
                }
            }
            Op::MapInsert(k, v) => match (self.root(k), self.root(v), self.m.map.is_some()) {
                (Some((sk, ik)), Some((sv, iv)), true) => {
                    let val = self.r.roots[sv].as_ref().unwrap().clone();
                    let key = self.r.roots[sk].as_ref().unwrap().clone();
                    self.r.map.as_mut().unwrap().insert(&key, val);
                    let m = self.m.map.as_mut().unwrap();
                    m.retain(|(kk, _)| *kk != ik);
                    m.push((ik, iv));
                }
                _ => done = false,
            },
            Op::MapRemove(k) => match (self.root(k), self.m.map.is_some()) {
                (Some((sk, ik)), true) => {
                    let key = self.r.roots[sk].as_ref().unwrap().clone();
                    let removed = self.r.map.as_mut().unwrap().remove(&key);
                    let m = self.m.map.as_mut().unwrap();
                    let had = m.iter().any(|(kk, _)| *kk == ik);
                    m.retain(|(kk, _)| *kk != ik);
                    if removed != had {
                        return Err(Violation(format!("weak map remove(key {ik}) returned {removed}, model had entry: {had}")));
                    }
                }
                _ => done = false,
            },
            Op::MapGet(k) => match (self.root(k), self.m.map.is_some()) {
                (Some((sk, ik)), true) => {
                    let key = self.r.roots[sk].as_ref().unwrap().clone();
                    let got: Option<Gc<Node>> = {
                        let map = self.r.map.as_ref().unwrap();
                        let has = map.contains_key(&key);
                        let e = map.get(&key);
                        let v = e.as_ref().and_then(|e| e.value().map(|v| (*v).clone()));
                        if has != v.is_some() {
                            return Err(Violation(format!("weak map contains_key(key {ik}) = {has} but get() has value: {}", v.is_some())));
                        }
                        v
                    };
                    let expect = self.m.map.as_ref().unwrap().iter().find(|(kk, _)| *kk == ik).map(|x| x.1);
                    match (got, expect) {
                        (Some(g), Some(iv)) => {
                            check_node(&g, iv)?;
                            self.put_root(iv, g);
                        }
                        (None, None) => {}
                        (g, e) => {
                            return Err(Violation(format!("weak map get(key {ik}): heap has {:?}, model has {:?}", g.map(|g| g.id), e)));
                        }
                    }
                }
                _ => done = false,
            },
            Op::MapDrop => {
                if self.m.map.is_some() {
                    self.r.map = None;
                    self.m.map = None;
                } else {
                    done = false;
                }
            }
            Op::Collect => self.do_collect()?,
            Op::BorrowCollect(a) => match self.root(a) {
                Some((sa, ia)) => {
                    let g = self.r.roots[sa].as_ref().unwrap().clone();
                    check_node(&g, ia)?;
                    {
                        let _b = g.edges.borrow_mut();
                        force_collect();
                    }
                    drop(g);
                    self.after_collect()?;
                }
                None => done = false,
            },
            Op::Garbage(n) => {
                // allocate unreferenced nodes until the allocator's own threshold triggers collections
                let before = boa_gc::verif::stats().collections;
                let mut guard = 0u32;
                let rounds = 1 + (n as u32 % 2);
                while boa_gc::verif::stats().collections < before + rounds as usize && guard < 200_000 {
                    let g = self.new_node(false);
                    drop(g);
                    guard += 1;
                }
                // the threshold collections have happened inside allocation; settle the model
                let _ = self.m.collect();
                force_collect();
                self.after_collect()?;
            }
            Op::MarkResurrect(a) => match self.root(a) {
                Some((sa, ia)) if self.allow_resurrect => {
                    let w = WeakGc::new(self.r.roots[sa].as_ref().unwrap());
                    self.r.log.weak_self.borrow_mut().insert(ia, w);
                    self.r.log.resurrect.borrow_mut()[ia] = true;
                }
                _ => done = false,
            },
            Op::Unpark => {
                if self.allow_resurrect && !self.m.parked.is_empty() {
                    self.r.log.parked.borrow_mut().clear();
                    self.m.parked.clear();
                } else {
                    done = false;
                }
            }
        }
        if done {
            *self.ops_done.entry(op.name()).or_insert(0) += 1;
        } else {
            self.skipped += 1;
        }
        // handles held by the driver must always be intact
        for (s, id) in self.m.roots.iter().enumerate() {
            if let Some(id) = id {
                check_node(self.r.roots[s].as_ref().unwrap(), *id)?;
            }
        }
        // counters may only move at collections
        self.check_counters()
    }

    /// final phase of every history: collect, then drop everything, collect, census must be the base
    fn finish(mut self) -> Result<Self, Violation> {
        self.do_collect()?;
        for r in self.r.roots.iter_mut() {
            *r = None;
        }
        for r in self.m.roots.iter_mut() {
            *r = None;
        }
        for w in self.r.weaks.iter_mut() {
            *w = None;
        }
        for w in self.m.weaks.iter_mut() {
            *w = None;
        }
        for e in self.r.ephs.iter_mut() {
            *e = None;
        }
        for e in self.m.ephs.iter_mut() {
            *e = None;
        }
        self.r.map = None;
        self.m.map = None;
        self.r.log.parked.borrow_mut().clear();
        self.m.parked.clear();
        self.r.log.weak_self.borrow_mut().clear();
        self.do_collect()?;
        // a second collection: ephemeron boxes only die after their holders
        force_collect();
        let s = boa_gc::verif::stats();
        if s.strong_boxes != self.base.strong_boxes || s.ephemerons != self.base.ephemerons || s.weak_maps != self.base.weak_maps {
            return Err(Violation(format!(
                "heap not empty after dropping every handle and collecting: {} boxes / {} ephemerons / {} weak maps left (base {}/{}/{})",
                s.strong_boxes, s.ephemerons, s.weak_maps, self.base.strong_boxes, self.base.ephemerons, self.base.weak_maps
            )));
        }
        let drops = self.r.log.drops.borrow().clone();
        let fins = self.r.log.finalizes.borrow().clone();
        for i in 0..drops.len() {
            if drops[i] != 1 || (fins[i] != 1 && !self.allow_resurrect) {
                return Err(Violation(format!("at the end of the history node {i} was dropped {} times and finalized {} times (expected 1 and 1)", drops[i], fins[i])));
            }
        }
        Ok(self)
    }
}

// ---------------------------------------------------------------- drivers

struct Rng(u64);
impl Rng {
    fn next(&mut self) -> u64 {
        self.0 = self.0.wrapping_add(0x9E37_79B9_7F4A_7C15);
        let mut z = self.0;
        z = (z ^ (z >> 30)).wrapping_mul(0xBF58_476D_1CE4_E5B9);
        z = (z ^ (z >> 27)).wrapping_mul(0x94D0_49BB_1331_11EB);
        z ^ (z >> 31)
    }
    fn below(&mut self, n: u64) -> u64 {
        self.next() % n.max(1)
    }
}

fn random_op(r: &mut Rng, max_nodes: usize, nodes: usize, resurrect: bool) -> Op {
    let b = |r: &mut Rng| r.below(256) as u8;
    loop {
        let k = r.below(if resurrect { 110 } else { 104 });
        let op = match k {
            0..=13 => Op::Alloc,
            14..=15 => Op::AllocCyclic,
            16..=33 => Op::Link(b(r), b(r), b(r)),
            34..=39 => Op::Unlink(b(r), b(r)),
            40..=46 => Op::Load(b(r), b(r)),
            47..=58 => Op::DropHandle(b(r)),
            59..=61 => Op::CloneHandle(b(r)),
            62..=66 => Op::MakeWeak(b(r)),
            67..=72 => Op::Upgrade(b(r)),
            73..=74 => Op::DropWeak(b(r)),
            75..=78 => Op::MakeEph(b(r), b(r)),
            79..=82 => Op::EphValue(b(r)),
            83 => Op::DropEph(b(r)),
            84..=87 => Op::StoreEph(b(r), b(r), b(r)),
            88 => Op::MapNew,
            89..=92 => Op::MapInsert(b(r), b(r)),
            93 => Op::MapRemove(b(r)),
            94..=96 => Op::MapGet(b(r)),
            97 => Op::MapDrop,
            98..=101 => Op::Collect,
            102 => Op::BorrowCollect(b(r)),
            103 => {
                if r.below(40) == 0 {
                    Op::Garbage(b(r))
                } else {
                    Op::Collect
                }
            }
            104..=107 => Op::MarkResurrect(b(r)),
            _ => Op::Unpark,
        };
        if matches!(op, Op::Alloc | Op::AllocCyclic) && nodes >= max_nodes {
            continue;
        }
        return op;
    }
}

fn history_json(h: &[Op]) -> String {
    let v: Vec<String> = h.iter().map(Op::to_json).collect();
    format!("[{}]", v.join(","))
}

fn parse_history(s: &str) -> Vec<Op> {
    // tiny parser for [["name",a,b],...]
    let mut out = vec![];
    let mut i = 0;
    let b = s.as_bytes();
    while i < b.len() {
        if b[i] == b'"' {
            let j = s[i + 1..].find('"').unwrap() + i + 1;
            let name = &s[i + 1..j];
            let end = s[j..].find(']').unwrap() + j;
            let args: Vec<u8> = s[j + 1..end].split(',').filter_map(|x| x.trim().parse::<u8>().ok()).collect();
            if let Some(op) = Op::from_json(name, &args) {
                out.push(op);
            }
            i = end;
        }
        i += 1;
    }
    out
}

struct Totals {
    histories: u64,
    ops: BTreeMap<&'static str, u64>,
    skipped: u64,
    collections: u64,
    census_checks: u64,
    upgrades_some: u64,
    upgrades_none: u64,
    eph_some: u64,
    eph_none: u64,
    died: u64,
    nodes: u64,
    distinct: std::collections::HashSet<u64>,
    samples: Vec<String>,
}

impl Totals {
    fn new() -> Self {
        Totals { histories: 0, ops: BTreeMap::new(), skipped: 0, collections: 0, census_checks: 0, upgrades_some: 0, upgrades_none: 0,
                 eph_some: 0, eph_none: 0, died: 0, nodes: 0, distinct: Default::default(), samples: vec![] }
    }
    fn add(&mut self, r: &Runner, h: &[Op]) {
        self.histories += 1;
        for (k, v) in &r.ops_done {
            *self.ops.entry(k).or_insert(0) += v;
        }
        self.skipped += r.skipped;
        self.collections += r.collections;
        self.census_checks += r.census_checks;
        self.upgrades_some += r.upgrades_some;
        self.upgrades_none += r.upgrades_none;
        self.eph_some += r.eph_some;
        self.eph_none += r.eph_none;
        self.died += r.died_total;
        self.nodes += r.m.nodes.len() as u64;
        // non-trivial: at least one node died at a collection while another survived it, or a weak observation was made
        let nontrivial = r.died_total > 0 && (r.upgrades_some + r.upgrades_none + r.eph_some + r.eph_none > 0 || r.m.nodes.len() > 1);
        if nontrivial {
            use std::hash::{Hash, Hasher};
            let mut hs = std::collections::hash_map::DefaultHasher::new();
            history_json(h).hash(&mut hs);
            self.distinct.insert(hs.finish());
        }
        if self.samples.len() < 3 && nontrivial {
            self.samples.push(history_json(&h[..h.len().min(40)]));
        }
    }
    fn json(&self, extra: &str) -> String {
        let ops: Vec<String> = self.ops.iter().map(|(k, v)| format!("\"{k}\":{v}")).collect();
        format!(
            "{{\"histories\":{},\"distinct_nontrivial\":{},\"ops\":{{{}}},\"skipped_ops\":{},\"collections\":{},\"census_checks\":{},\"upgrade_some\":{},\"upgrade_none\":{},\"ephemeron_some\":{},\"ephemeron_none\":{},\"nodes_died\":{},\"nodes_allocated\":{},\"samples\":[{}]{}}}",
            self.histories, self.distinct.len(), ops.join(","), self.skipped, self.collections, self.census_checks, self.upgrades_some,
            self.upgrades_none, self.eph_some, self.eph_none, self.died, self.nodes, self.samples.join(","), extra
        )
    }
}

fn run_history(h: &[Op], resurrect: bool, slots: (usize, usize, usize)) -> Result<Runner, (usize, String)> {
    let mut r = Runner::new(slots.0, slots.1, slots.2, resurrect);
    for (i, op) in h.iter().enumerate() {
        if let Err(Violation(v)) = r.step(*op) {
            return Err((i, v));
        }
    }
    r.finish().map_err(|Violation(v)| (h.len(), v))
}

fn fail(h: &[Op], at: usize, what: &str, totals: &Totals) -> ! {
    let esc = what.replace('\\', "\\\\").replace('"', "\\\"");
    println!("{}", totals.json(&format!(",\"violation\":{{\"at_op\":{},\"what\":\"{}\",\"history\":{}}}", at, esc, history_json(h))));
    std::process::exit(1);
}

/// enumerate all valid histories of exactly `len` ops (canonical alphabet over the model state)
fn valid_ops(m: &Model, max_nodes: usize) -> Vec<Op> {
    let mut v = vec![];
    let occ: Vec<u8> = (0..m.roots.iter().flatten().count()).map(|x| x as u8).collect();
    let free_root = m.free_root().is_some();
    if m.nodes.len() < max_nodes && free_root {
        v.push(Op::Alloc);
    }
    for &a in &occ {
        for e in 0..EDGES as u8 {
            for &b in &occ {
                v.push(Op::Link(a, e, b));
            }
        }
        v.push(Op::DropHandle(a));
    }
    // edges present
    let occ_ids: Vec<usize> = m.roots.iter().flatten().copied().collect();
    for (ai, id) in occ_ids.iter().enumerate() {
        for e in 0..EDGES {
            if m.nodes[*id].edges[e].is_some() {
                v.push(Op::Unlink(ai as u8, e as u8));
                if free_root {
                    v.push(Op::Load(ai as u8, e as u8));
                }
            }
        }
    }
    if free_root {
        for &a in &occ {
            // cloning only matters when it creates a second handle to a node with one handle
            let id = occ_ids[a as usize];
            if occ_ids.iter().filter(|x| **x == id).count() == 1 {
                v.push(Op::CloneHandle(a));
            }
        }
    }
    let nweak = m.weaks.iter().flatten().count();
    if m.weaks.iter().any(Option::is_none) {
        for &a in &occ {
            v.push(Op::MakeWeak(a));
        }
    }
    for w in 0..nweak as u8 {
        v.push(Op::Upgrade(w));
    }
    let neph = m.ephs.iter().flatten().count();
    if m.ephs.iter().any(Option::is_none) {
        for &a in &occ {
            for &b in &occ {
                v.push(Op::MakeEph(a, b));
            }
        }
    }
    for e in 0..neph as u8 {
        v.push(Op::EphValue(e));
        v.push(Op::DropEph(e));
    }
    if m.map.is_none() {
        v.push(Op::MapNew);
    } else {
        for &a in &occ {
            for &b in &occ {
                v.push(Op::MapInsert(a, b));
            }
            v.push(Op::MapGet(a));
        }
    }
    v.push(Op::Collect);
    for &a in &occ {
        v.push(Op::BorrowCollect(a));
    }
    v
}

fn main() {
    let args: Vec<String> = std::env::args().collect();
    let mode = args.get(1).map(String::as_str).unwrap_or("");
    let mut totals = Totals::new();
    match mode {
        "random" => {
            let seed: u64 = args[2].parse().unwrap();
            let histories: u64 = args[3].parse().unwrap();
            let max_ops: u64 = args[4].parse().unwrap();
            let max_nodes: usize = args[5].parse().unwrap();
            let resurrect = args.get(6).map(|s| s == "resurrect").unwrap_or(false);
            let mut rng = Rng(seed);
            for _ in 0..histories {
                let n_ops = 1 + rng.below(max_ops);
                let slots = (2 + rng.below(14) as usize, 1 + rng.below(6) as usize, 1 + rng.below(6) as usize);
                let node_cap = 1 + rng.below(max_nodes as u64) as usize;
                let mut r = Runner::new(slots.0, slots.1, slots.2, resurrect);
                let mut h = Vec::with_capacity(n_ops as usize);
                for i in 0..n_ops {
                    let op = random_op(&mut rng, node_cap, r.m.nodes.len(), resurrect);
                    h.push(op);
                    if let Err(Violation(v)) = r.step(op) {
                        let what = format!("{v} [slots {}/{}/{}]", slots.0, slots.1, slots.2);
                        fail(&h, i as usize, &what, &totals);
                    }
                }
                match r.finish() {
                    Ok(r) => totals.add(&r, &h),
                    Err(Violation(v)) => {
                        let what = format!("{v} [slots {}/{}/{}]", slots.0, slots.1, slots.2);
                        fail(&h, h.len(), &what, &totals)
                    }
                }
            }
            println!("{}", totals.json(""));
        }
        "exhaustive" => {
            let len: usize = args[2].parse().unwrap();
            let shard: u64 = args[3].parse().unwrap();
            let nshards: u64 = args[4].parse().unwrap();
            let max_nodes: usize = args.get(5).and_then(|s| s.parse().ok()).unwrap_or(3);
            let slots = (3usize, 1usize, 1usize);
            // DFS over the model; leaves are executed on the real heap
            let mut count: u64 = 0;
            fn dfs(h: &mut Vec<Op>, m: &Model, len: usize, max_nodes: usize, shard: u64, nshards: u64, count: &mut u64, totals: &mut Totals,
                   slots: (usize, usize, usize)) {
                if h.len() == len {
                    *count += 1;
                    if *count % nshards != shard {
                        return;
                    }
                    match run_history(h, false, slots) {
                        Ok(r) => totals.add(&r, h),
                        Err((at, v)) => fail(h, at, &v, totals),
                    }
                    return;
                }
                for op in valid_ops(m, max_nodes) {
                    // advance the model only
                    let mut m2 = m.clone();
                    model_step(&mut m2, op);
                    h.push(op);
                    dfs(h, &m2, len, max_nodes, shard, nshards, count, totals, slots);
                    h.pop();
                }
            }
            let m = Model::new(slots.0, slots.1, slots.2);
            let mut h = vec![];
            dfs(&mut h, &m, len, max_nodes, shard, nshards, &mut count, &mut totals, slots);
            println!("{}", totals.json(&format!(",\"enumerated\":{count},\"length\":{len},\"max_nodes\":{max_nodes}")));
        }
        "replay" => {
            let text = std::fs::read_to_string(&args[2]).unwrap();
            let resurrect = text.contains("mark_resurrect");
            let h = parse_history(&text);
            let slots = (
                args.get(3).and_then(|s| s.parse().ok()).unwrap_or(8usize),
                args.get(4).and_then(|s| s.parse().ok()).unwrap_or(4usize),
                args.get(5).and_then(|s| s.parse().ok()).unwrap_or(4usize),
            );
            match run_history(&h, resurrect, slots) {
                Ok(r) => {
                    totals.add(&r, &h);
                    println!("{}", totals.json(""));
                }
                Err((at, v)) => fail(&h, at, &v, &totals),
            }
        }
        _ => {
            eprintln!("usage: gcmon random|exhaustive|replay ...");
            std::process::exit(2);
        }
    }
}

/// model-only transition used by the exhaustive enumerator (mirrors Runner::step)
fn model_step(m: &mut Model, op: Op) {
    let occ: Vec<usize> = (0..m.roots.len()).filter(|&k| m.roots[k].is_some()).collect();
    let root = |i: u8| -> Option<(usize, usize)> {
        if occ.is_empty() {
            None
        } else {
            let s = occ[(i as usize) % occ.len()];
            Some((s, m.roots[s].unwrap()))
        }
    };
    match op {
        Op::Alloc => {
            let id = m.nodes.len();
            m.nodes.push(MNode { edges: [None; EDGES], ephs: vec![], swept: false });
            if let Some(s) = m.free_root() {
                m.roots[s] = Some(id);
            }
        }
        Op::Link(a, e, b) => {
            if let (Some((_, ia)), Some((_, ib))) = (root(a), root(b)) {
                m.nodes[ia].edges[e as usize % EDGES] = Some(ib);
            }
        }
        Op::Unlink(a, e) => {
            if let Some((_, ia)) = root(a) {
                m.nodes[ia].edges[e as usize % EDGES] = None;
            }
        }
        Op::Load(a, e) => {
            if let Some((_, ia)) = root(a) {
                if let (Some(ib), Some(s)) = (m.nodes[ia].edges[e as usize % EDGES], m.free_root()) {
                    m.roots[s] = Some(ib);
                }
            }
        }
        Op::DropHandle(a) => {
            if let Some((s, _)) = root(a) {
                m.roots[s] = None;
            }
        }
        Op::CloneHandle(a) => {
            if let (Some((_, ia)), Some(s)) = (root(a), m.free_root()) {
                m.roots[s] = Some(ia);
            }
        }
        Op::MakeWeak(a) => {
            if let (Some((_, ia)), Some(w)) = (root(a), m.weaks.iter().position(Option::is_none)) {
                m.weaks[w] = Some(ia);
            }
        }
        Op::Upgrade(w) => {
            let o: Vec<usize> = (0..m.weaks.len()).filter(|&k| m.weaks[k].is_some()).collect();
            if !o.is_empty() {
                let id = m.weaks[o[w as usize % o.len()]].unwrap();
                if !m.nodes[id].swept {
                    if let Some(s) = m.free_root() {
                        m.roots[s] = Some(id);
                    }
                }
            }
        }
        Op::MakeEph(k, v) => {
            if let (Some((_, ik)), Some((_, iv)), Some(e)) = (root(k), root(v), m.ephs.iter().position(Option::is_none)) {
                m.ephs[e] = Some((ik, iv));
            }
        }
        Op::EphValue(e) => {
            let o: Vec<usize> = (0..m.ephs.len()).filter(|&k| m.ephs[k].is_some()).collect();
            if !o.is_empty() {
                let (ik, iv) = m.ephs[o[e as usize % o.len()]].unwrap();
                if !m.nodes[ik].swept {
                    if let Some(s) = m.free_root() {
                        m.roots[s] = Some(iv);
                    }
                }
            }
        }
        Op::DropEph(e) => {
            let o: Vec<usize> = (0..m.ephs.len()).filter(|&k| m.ephs[k].is_some()).collect();
            if !o.is_empty() {
                m.ephs[o[e as usize % o.len()]] = None;
            }
        }
        Op::MapNew => {
            if m.map.is_none() {
                m.map = Some(vec![]);
            }
        }
        Op::MapInsert(k, v) => {
            if let (Some((_, ik)), Some((_, iv))) = (root(k), root(v)) {
                if let Some(mm) = m.map.as_mut() {
                    mm.retain(|(kk, _)| *kk != ik);
                    mm.push((ik, iv));
                }
            }
        }
        Op::MapGet(k) => {
            if let Some((_, ik)) = root(k) {
                let found = m.map.as_ref().and_then(|mm| mm.iter().find(|(kk, _)| *kk == ik).map(|x| x.1));
                if let (Some(iv), Some(s)) = (found, m.free_root()) {
                    m.roots[s] = Some(iv);
                }
            }
        }
        Op::Collect | Op::BorrowCollect(_) => {
            m.collect();
        }
        _ => {}
    }
}
