"""Grammar-directed generator of closed, deterministic, terminating JavaScript programs
(the `core` profile of DESIGN.md 2.5).

Every program prints what it computes through print(); loops carry syntactic bounds or fuel,
recursion carries a depth parameter. A program knows its own scope chain: identifiers are only
referenced where they are declared (TDZ reads and undeclared names are generated on purpose,
inside try/catch).

`avoid` is a set of shape names the main stream must not produce (open known findings, V8/spec
divergences); see DESIGN.md 2.7.
"""
from .rng import Rng

ARITH = ["+", "-", "*", "/", "%"]
BITW = ["&", "|", "^", "<<", ">>", ">>>"]
REL = ["<", ">", "<=", ">="]
EQ = ["==", "!=", "===", "!=="]
LOGIC = ["&&", "||", "??"]
ASSIGN_OPS = ["+=", "-=", "*=", "/=", "%=", "&=", "|=", "^=", "<<=", ">>=", ">>>=", "**="]
LOGIC_ASSIGN = ["&&=", "||=", "??="]


class Var:
    __slots__ = ("name", "kind", "const", "fn", "cls", "gen", "depth", "prot")

    def __init__(self, name, kind, const=False, fn=False, cls=False, gen=False, depth=0, prot=False):
        self.prot = prot
        self.name = name
        self.kind = kind  # var | let | const | param | fn | class
        self.const = const
        self.fn = fn
        self.cls = cls
        self.gen = gen
        self.depth = depth  # function nesting depth at declaration


class Scope:
    def __init__(self, parent, function=False):
        self.parent = parent
        self.vars = {}
        self.function = function

    def lookup_all(self):
        out = {}
        s = self
        while s is not None:
            for k, v in s.vars.items():
                out.setdefault(k, v)
            s = s.parent
        return out


class Ctx:
    """Per-function generation context."""

    def __init__(self, kind="script", strict=False, depth=0):
        self.kind = kind  # script | function | generator | arrow | method | ctor | derived_ctor | async
        self.strict = strict
        self.depth = depth
        self.labels = []  # (name, is_loop)
        self.in_loop = 0
        self.in_switch = 0
        self.in_finally = 0
        self.fuel_vars = 0


class Gen:
    def __init__(self, rng, avoid=(), max_depth=5, budget=220, features=None, strict=None):
        self.r = rng
        self.avoid = set(avoid)
        self.max_depth = max_depth
        self.budget = budget
        self.counter = 0
        self.scope = Scope(None, function=True)
        self.ctx = Ctx("script", strict=bool(strict))
        self.strict_program = bool(strict)
        self.features = features or {}
        self.used = {}  # feature -> count
        self.expr_reads = None
        self.expr_writes = None
        self.fn_depth = 0
        self.classes = []  # (name, has_base, methods, static_methods, fields)
        self.callable_done = set()
        self.in_param_init = 0
        self.scope_has_direct_eval = False

    # ---------------------------------------------------------------- utilities
    def use(self, f):
        self.used[f] = self.used.get(f, 0) + 1

    def w(self, name, default):
        return self.features.get(name, default)

    def fresh(self, prefix):
        self.counter += 1
        return "%s%d" % (prefix, self.counter)

    def push_scope(self, function=False):
        self.scope = Scope(self.scope, function)

    def pop_scope(self):
        self.scope = self.scope.parent

    def declare(self, name, kind, **kw):
        v = Var(name, kind, depth=self.fn_depth, **kw)
        self.scope.vars[name] = v
        return v

    def visible(self, pred=None):
        allv = self.scope.lookup_all()
        return [v for v in allv.values() if pred is None or pred(v)]

    def spend(self, n=1):
        self.budget -= n
        return self.budget > 0

    # ---------------------------------------------------------------- literals
    def lit_int(self):
        r = self.r
        return str(r.choice([0, 1, 2, 3, 5, 7, 10, 16, 31, 32, 100, 255, 256, 1000, 65535, 2147483647, 2147483648,
                             4294967295, 4294967296, 9007199254740991, -1, -2, -7, -2147483648, r.range(0, 50)]))

    def lit_num(self):
        r = self.r
        k = r.below(10)
        if k < 6:
            s = self.lit_int()
        elif k < 8:
            s = r.choice(["0.5", "1.5", "2.25", "0.1", "-0.75", "3.125", "1e21", "1e-7", "123456789.125", "0.000001"])
        else:
            s = r.choice(["NaN", "Infinity", "-Infinity", "-0", "0"])
        return "(%s)" % s if s.startswith("-") else s

    def lit_str(self):
        return self.r.choice(["''", "'a'", "'b'", "'abc'", "'0'", "'1'", "'12'", "'-3'", "'1.5'", "' 7 '", "'x y'", "'0x10'",
                              "'true'", "'null'", "'undefined'", "'\\u00e9'", "'\\ud83d\\ude00'", "'length'", "'NaN'", "'1e3'"])

    def lit_big(self):
        return self.r.choice(["0n", "1n", "2n", "7n", "10n", "255n", "9007199254740993n", "(-3n)", "18446744073709551616n"])

    def literal(self):
        r = self.r
        k = r.weighted([("num", 40), ("str", 20), ("bool", 8), ("null", 4), ("undef", 5), ("big", self.w("bigint", 3)),
                        ("regex", 0)])
        if k == "num":
            return self.lit_num()
        if k == "str":
            return self.lit_str()
        if k == "bool":
            return r.choice(["true", "false"])
        if k == "null":
            return "null"
        if k == "undef":
            return r.choice(["undefined", "void 0"])
        self.use("bigint")
        return self.lit_big()

    # ---------------------------------------------------------------- expressions
    def readable(self):
        """identifiers that may be read without TDZ/ReferenceError at this point"""
        vs = self.visible(lambda v: not (v.fn or v.cls or v.kind in ("fn", "class")) or "fn_to_string" not in self.avoid)
        if self.expr_writes is not None and "rw_same_expr" in self.avoid:
            vs = [v for v in vs if v.name not in self.expr_writes]
        return vs

    def writable(self):
        vs = self.visible(lambda v: not v.const and not v.prot and not v.fn and not v.cls and v.kind != "class")
        if self.expr_reads is not None and "rw_same_expr" in self.avoid:
            vs = [v for v in vs if v.name not in self.expr_reads and v.name not in self.expr_writes]
        return vs

    def read_ident(self):
        vs = self.readable()
        if not vs:
            return self.literal()
        v = self.r.choice(vs)
        if self.expr_reads is not None:
            self.expr_reads.add(v.name)
        return v.name

    def full_expr(self, depth=0):
        """An expression with fresh read/write bookkeeping (one full expression)."""
        saved = (self.expr_reads, self.expr_writes)
        self.expr_reads, self.expr_writes = set(), set()
        try:
            return self.expr(depth)
        finally:
            self.expr_reads, self.expr_writes = saved

    def coercer(self):
        """object with logging coercion hooks"""
        r = self.r
        self.use("coercer")
        tag = self.fresh("k")
        val = r.choice([self.lit_int(), self.lit_str(), "{}", "null", self.lit_num()])
        k = r.below(4)
        if k == 0:
            return "{valueOf(){print('%s.valueOf');return %s}}" % (tag, val)
        if k == 1:
            return "{toString(){print('%s.toString');return %s}}" % (tag, val)
        if k == 2:
            return "{valueOf(){print('%s.valueOf');return %s},toString(){print('%s.toString');return %s}}" % (
                tag, r.choice([val, "{}"]), tag, self.lit_str())
        return "{[Symbol.toPrimitive](h){print('%s.toPrim',h);return %s}}" % (tag, val)

    def expr(self, depth=0):
        r = self.r
        if depth >= self.max_depth or not self.spend():
            return self.leaf()
        kinds = [
            ("leaf", 22), ("binary", 22), ("unary", 7), ("update", 5), ("assign", 9), ("cond", 5), ("comma", 2),
            ("call", 9), ("array", 5), ("object", 5), ("member", 7), ("template", 3), ("funcexpr", 4),
            ("logical", 6), ("typeof", 3), ("coercer", 4), ("new", 3), ("optchain", 2), ("inop", 2),
            ("spreadcall", 2), ("destruct_assign", 2), ("classexpr", 1), ("this", 2), ("yield", 3), ("delete", 1),
            ("tagged", 1), ("exp", 2), ("newtarget", 1), ("super", 2), ("bigop", self.w("bigint", 2)), ("evalexpr", self.w("eval", 1)),
            ("iife_gen", 2), ("seqcall", 2),
        ]
        k = r.weighted(kinds)
        m = getattr(self, "e_" + k)
        return m(depth + 1)

    def leaf(self):
        r = self.r
        if r.chance(0.55):
            return self.read_ident()
        return self.literal()

    def e_leaf(self, d):
        return self.leaf()

    def e_binary(self, d):
        op = self.r.choice(ARITH * 3 + BITW + REL * 2 + EQ * 2)
        return "(%s %s %s)" % (self.expr(d), op, self.expr(d))

    def e_exp(self, d):
        # only integer ** small non-negative integer: Math.pow on other inputs is implementation-approximated
        self.use("exp")
        return "(%s ** %s)" % (self.r.choice(["2", "3", "(-2)", "10", "1", "0"]), self.r.choice(["0", "1", "2", "3", "5", "10"]))

    def e_bigop(self, d):
        self.use("bigint")
        op = self.r.choice(["+", "-", "*", "/", "%", "**", "&", "|", "^", "<<", ">>", "<", "==", "===", ">>>"])
        a = self.lit_big() if self.r.chance(0.8) else self.expr(d)
        b = self.lit_big() if self.r.chance(0.7) else self.expr(d)
        if op == "**":
            b = self.r.choice(["0n", "1n", "2n", "5n"])
        if op in ("<<",):
            b = self.r.choice(["0n", "1n", "7n", "64n"])
        return "(%s %s %s)" % (a, op, b)

    def e_logical(self, d):
        return "(%s %s %s)" % (self.expr(d), self.r.choice(LOGIC[:2] if self.r.chance(0.7) else LOGIC[2:]), self.expr(d))

    def e_unary(self, d):
        op = self.r.choice(["-", "+", "!", "~", "void ", "- -", "!!"])
        return "(%s%s)" % (op, self.expr(d))

    def e_typeof(self, d):
        self.use("typeof")
        if self.r.chance(0.2):
            return "typeof %s" % self.fresh("undeclared")
        return "typeof %s" % self.expr(d)

    def pick_writable(self, lexical_only=False):
        vs = self.writable()
        if lexical_only:
            vs = [v for v in vs if v.kind == "let"]
        if not vs:
            return None
        v = self.r.choice(vs)
        if self.expr_writes is not None:
            self.expr_writes.add(v.name)
        return v

    def assign_target(self, d, lexical_only=False, rw=False):
        """returns a simple assignment target expression; rw: the target is read and written (update, compound assignment)"""
        r = self.r
        k = r.weighted([("var", 55), ("prop", 25), ("computed", 15), ("constvar", 3), ("undeclared", 2)])
        if lexical_only and k in ("constvar", "undeclared"):
            k = "prop"
        if k == "var":
            v = self.pick_writable(lexical_only)
            if v:
                return v.name
            k = "prop"
        if k == "constvar":
            cs = self.visible(lambda v: v.const and not v.prot)
            if cs:
                self.use("assign_const")
                return r.choice(cs).name
            k = "prop"
        if k == "undeclared":
            if not self.ctx.strict and not self.strict_program and "implicit_global" not in self.avoid:
                self.use("implicit_global")
                return self.fresh("g")
            k = "prop"
        if k == "prop":
            return "%s.%s" % (self.obj_expr(d), r.choice(["a", "b", "c", "x", "length"]))
        if rw and "v8_double_key_coercion" in self.avoid:
            # V8 coerces the key of `o[k]++` / `o[k] += v` twice (once for the load, once for the store); the
            # specification coerces it once (GetValue stores the property key back into the Reference Record)
            return "%s[String(%s)]" % (self.obj_expr(d), self.expr(d + 1))
        return "%s[%s]" % (self.obj_expr(d), self.expr(d + 1))

    def obj_expr(self, d):
        """an expression that very likely evaluates to an object"""
        r = self.r
        objs = self.visible(lambda v: v.name.startswith("o") or v.name.startswith("a"))
        if self.expr_writes is not None and "rw_same_expr" in self.avoid:
            objs = [v for v in objs if v.name not in self.expr_writes]
        if objs and r.chance(0.75):
            v = r.choice(objs)
            if self.expr_reads is not None:
                self.expr_reads.add(v.name)
            return v.name
        if r.chance(0.5):
            return "({a:%s,b:%s})" % (self.leaf(), self.leaf())
        return "[%s,%s]" % (self.leaf(), self.leaf())

    def e_update(self, d):
        self.use("update")
        t = self.assign_target(d, rw=True)
        op = self.r.choice(["++", "--"])
        return "(%s%s)" % (t, op) if self.r.chance(0.5) else "(%s%s)" % (op, t)

    def e_assign(self, d):
        r = self.r
        k = r.weighted([("=", 45), ("op", 35), ("logic", 20)])
        if k == "logic" and "logical_assign" in self.avoid:
            k = "op"
        if k == "logic" and "logical_assign_nonlexical" in self.avoid:
            t = self.assign_target(d, lexical_only=True, rw=True)
        else:
            t = self.assign_target(d, rw=(k != "="))
        if k == "=":
            return "(%s = %s)" % (t, self.expr(d))
        if k == "op":
            op = r.choice(ASSIGN_OPS)
            if op == "**=":
                return "(%s **= %s)" % (t, r.choice(["0", "1", "2"])) if "exp_assign" not in self.avoid else "(%s *= %s)" % (t, self.expr(d))
            return "(%s %s %s)" % (t, op, self.expr(d))
        self.use("logical_assign")
        return "(%s %s %s)" % (t, r.choice(LOGIC_ASSIGN), self.expr(d))

    def e_cond(self, d):
        return "(%s ? %s : %s)" % (self.expr(d), self.expr(d), self.expr(d))

    def e_comma(self, d):
        return "(%s, %s)" % (self.expr(d), self.expr(d))

    def args(self, d, n=None):
        r = self.r
        n = r.below(4) if n is None else n
        out = []
        for _ in range(n):
            if r.chance(0.12):
                self.use("spread_arg")
                out.append("...[%s,%s]" % (self.expr(d + 1), self.leaf()))
            else:
                out.append(self.expr(d + 1))
        return ", ".join(out)

    def e_call(self, d):
        r = self.r
        fns = self.visible(lambda v: v.fn and not v.gen)
        # never call a function declared at the same or an outer function depth from inside itself without fuel:
        # recursion is only produced by s_recursive(), so calls go to functions declared *before* and completed.
        fns = [f for f in fns if f.name in self.callable_done]
        if fns and r.chance(0.8):
            f = r.choice(fns)
            self.use("call")
            form = r.below(10)
            if form < 7:
                return "%s(%s)" % (f.name, self.args(d))
            if form == 7:
                return "%s.call(%s)" % (f.name, self.args(d, 1 + r.below(2)))
            if form == 8:
                return "%s.apply(%s, [%s])" % (f.name, self.leaf(), self.args(d))
            return "%s.bind(%s)(%s)" % (f.name, self.leaf(), self.args(d))
        # method on a literal
        self.use("method_call")
        return "({m(a,b){return %s}}).m(%s)" % (self.r.choice(["a", "b", "this", "arguments.length", "[a,b]", "a+b"]), self.args(d))

    def e_seqcall(self, d):
        # calls to builtins with spec-exact results
        r = self.r
        self.use("builtin_call")
        k = r.below(12)
        a = self.expr(d)
        if k == 0:
            return "String(%s)" % a
        if k == 1:
            return "Number(%s)" % a
        if k == 2:
            return "Boolean(%s)" % a
        if k == 3:
            return "Object.keys(Object(%s))" % a
        if k == 4:
            return "Array.isArray(%s)" % a
        if k == 5:
            return "[%s, %s].concat(%s)" % (self.leaf(), self.leaf(), a)
        if k == 6:
            return "Math.max(%s, %s)" % (a, self.leaf())
        if k == 7:
            return "Math.floor(%s)" % a
        if k == 8:
            return "[3,1,2].map(x => x + %s)" % self.leaf()
        if k == 9:
            return "Object.is(%s, %s)" % (a, self.leaf())
        if k == 10:
            return "JSON.stringify([%s])" % self.leaf()
        return "(%s).toString()" % self.lit_int()

    def e_spreadcall(self, d):
        self.use("spread")
        return "[...[%s], ...%s]" % (self.args(d, 2), self.r.choice(["'ab'", "[1,,2]", "[]", "new Set([1,1,2])"]))

    def e_array(self, d):
        r = self.r
        n = r.below(5)
        items = []
        for _ in range(n):
            k = r.below(10)
            if k == 0:
                items.append("")
                self.use("hole")
            elif k == 1:
                items.append("...[%s]" % self.leaf())
            else:
                items.append(self.expr(d + 1))
        s = ", ".join(items)
        if items and items[-1] == "":
            s += ","
        return "[%s]" % s

    def prop_key(self):
        r = self.r
        k = r.below(10)
        if k < 6:
            return r.choice(["a", "b", "c", "x", "y"])
        if k < 8:
            return r.choice(["1", "0", "'k'", "10", "2"])
        self.use("computed_key")
        return "[%s]" % self.leaf()

    def e_object(self, d):
        r = self.r
        n = r.below(4)
        items = []
        allow_spread = r.chance(0.5) or "v8_accessor_spread_order" not in self.avoid
        allow_accessor = (not allow_spread) or "v8_accessor_spread_order" not in self.avoid
        for _ in range(n):
            k = r.below(12)
            if (k in (7, 8) and not allow_accessor) or (k == 9 and not allow_spread):
                k = 0
            if k < 6:
                items.append("%s: %s" % (self.prop_key(), self.expr(d + 1)))
            elif k == 6:
                vs = self.readable()
                if vs:
                    v = r.choice(vs)
                    if self.expr_reads is not None:
                        self.expr_reads.add(v.name)
                    items.append(v.name)
            elif k == 7:
                items.append("get %s(){ return %s }" % (r.choice(["g", "a", "h"]), self.leaf()))
                self.use("getter")
            elif k == 8:
                items.append("set %s(v){ print('set', v) }" % r.choice(["s", "b"]))
                self.use("setter")
            elif k == 9:
                items.append("...%s" % self.obj_expr(d + 1))
                self.use("obj_spread")
            elif k == 10:
                items.append("m(){ return %s }" % self.r.choice(["this.a", "1", "arguments.length", "typeof this"]))
            else:
                items.append("%s: %s" % (self.prop_key(), self.leaf()))
        return "({%s})" % ", ".join(items)

    def e_member(self, d):
        r = self.r
        o = self.obj_expr(d)
        k = r.below(6)
        if k < 3:
            return "%s.%s" % (o, r.choice(["a", "b", "length", "x", "c"]))
        if k < 5:
            return "%s[%s]" % (o, self.expr(d))
        return "%s[%s]" % (self.lit_str(), self.r.choice(["0", "1", "'length'", "-1"]))

    def e_optchain(self, d):
        self.use("optchain")
        r = self.r
        base = r.choice([self.leaf(), self.obj_expr(d), "null", "undefined"])
        tail = r.choice(["?.a", "?.[0]", "?.a?.b", "?.m?.()", "?.a.b", "?.length", "?.a?.[%s]" % self.leaf()])
        return "(%s)%s" % (base, tail)

    def e_inop(self, d):
        if self.r.chance(0.5):
            return "(%s in %s)" % (self.r.choice(["'a'", "0", "'length'", "'x'"]), self.obj_expr(d))
        cl = [c for c in self.visible(lambda v: v.cls)]
        rhs = self.r.choice(cl).name if cl and self.r.chance(0.6) else self.r.choice(["Object", "Array", "Function", "Error"])
        return "(%s instanceof %s)" % (self.expr(d), rhs)

    def e_template(self, d):
        self.use("template")
        return "`t${%s}u${%s}`" % (self.expr(d), self.leaf())

    def e_tagged(self, d):
        self.use("tagged_template")
        return "((s, ...v) => s.raw.join('|') + v.length)`a${%s}b\\n${%s}`" % (self.leaf(), self.leaf())

    def e_this(self, d):
        if self.ctx.kind in ("script", "function", "arrow") and not self.ctx.strict:
            return "typeof this"
        return self.r.choice(["this", "typeof this", "(this && this.a)"])

    def e_newtarget(self, d):
        if self.ctx.kind in ("function", "ctor", "derived_ctor", "method", "generator"):
            self.use("new_target")
            return "typeof new.target"
        return self.leaf()

    def e_super(self, d):
        if self.ctx.kind in ("method", "derived_ctor_after_super"):
            self.use("super_prop")
            return self.r.choice(["super.a", "super.m0 && super.m0()", "typeof super.x", "super['a']"])
        return self.leaf()

    def e_yield(self, d):
        if self.ctx.kind == "generator" and not self.in_param_init:
            self.use("yield")
            if self.r.chance(0.15):
                return "(yield* [%s, %s])" % (self.leaf(), self.leaf())
            return "(yield %s)" % self.expr(d)
        return self.leaf()

    def e_delete(self, d):
        self.use("delete")
        return "delete %s.%s" % (self.obj_expr(d), self.r.choice(["a", "b", "zz"]))

    def e_coercer(self, d):
        r = self.r
        c = self.coercer()
        op = r.choice(ARITH + REL + ["==", "+", "+", "-", "&", "<<"])
        if r.chance(0.5):
            return "(%s %s %s)" % (c, op, self.expr(d))
        if r.chance(0.5):
            return "(%s %s %s)" % (self.expr(d), op, c)
        return "(%s %s %s)" % (c, op, self.coercer())

    def e_new(self, d):
        cl = self.visible(lambda v: v.cls and v.name in self.callable_done)
        if cl:
            self.use("new_class")
            return "new %s(%s)" % (self.r.choice(cl).name, self.args(d, self.r.below(3)))
        fns = [f for f in self.visible(lambda v: v.fn and not v.gen and v.kind == "fn") if f.name in self.callable_done]
        if fns:
            self.use("new_fn")
            return "new %s(%s)" % (self.r.choice(fns).name, self.args(d, self.r.below(3)))
        return "new Object(%s)" % self.leaf()

    def e_destruct_assign(self, d):
        self.use("destructuring_assign")
        a = self.pick_writable()
        b = self.pick_writable()
        if not a or not b or a.name == b.name:
            return self.leaf()
        if self.r.chance(0.5):
            return "([%s, %s = %s] = [%s])" % (a.name, b.name, self.leaf(), self.args(d, 2))
        return "({a: %s, b: %s = %s} = %s)" % (a.name, b.name, self.leaf(), self.obj_expr(d))

    def e_evalexpr(self, d):
        if "eval" in self.avoid:
            return self.leaf()
        self.use("eval")
        # direct or indirect eval of a tiny expression over visible names
        inner = self.leaf() if self.r.chance(0.5) else "%s + %s" % (self.leaf(), self.leaf())
        inner = inner.replace("\\", "\\\\").replace("'", "\\'")
        if self.r.chance(0.7):
            self.scope_has_direct_eval = True
            return "eval('%s')" % inner
        # indirect eval only sees globals: use literals only
        return "(0, eval)('%s')" % self.r.choice(["1 + 1", "typeof x9", "'s'", "this === globalThis"])

    # ---- function-like expressions
    def params(self, ctx_kind):
        """returns (text, [names])"""
        r = self.r
        n = r.below(4)
        names, parts = [], []
        simple = True
        self.in_param_init += 1
        for i in range(n):
            nm = self.fresh("p")
            k = r.below(12)
            if k < 7:
                parts.append(nm)
                names.append(nm)
            elif k < 9:
                simple = False
                self.use("default_param")
                # a default may read earlier parameters and outer variables
                for q in names:
                    pass
                parts.append("%s = %s" % (nm, self.param_default(names)))
                names.append(nm)
            elif k == 9 and i == n - 1:
                simple = False
                self.use("rest_param")
                parts.append("...%s" % nm)
                names.append(nm)
            elif k == 10:
                simple = False
                self.use("destructured_param")
                n2 = self.fresh("p")
                parts.append("{a: %s, b: %s = %s}" % (nm, n2, self.literal()))
                names += [nm, n2]
            else:
                simple = False
                self.use("destructured_param")
                n2 = self.fresh("p")
                parts.append("[%s, %s = %s]" % (nm, n2, self.literal()))
                names += [nm, n2]
        self.in_param_init -= 1
        return ", ".join(parts), names, simple

    def param_default(self, earlier):
        r = self.r
        k = r.below(6)
        if k == 0 and earlier:
            return r.choice(earlier)
        if k == 1 and earlier and "param_closure" not in self.avoid:
            self.use("param_closure")
            return "() => %s" % r.choice(earlier)
        if k == 2:
            return "(print('default'), %s)" % self.literal()
        vs = self.readable()
        if k == 3 and vs:
            return r.choice(vs).name
        return self.literal()

    def function_body(self, kind, names, strict=False, stmts=None):
        saved_ctx = self.ctx
        self.ctx = Ctx(kind, strict=strict or saved_ctx.strict, depth=saved_ctx.depth + 1)
        self.fn_depth += 1
        saved_rw = (self.expr_reads, self.expr_writes)
        self.expr_reads = self.expr_writes = None
        self.push_scope(function=True)
        for nm in names:
            self.declare(nm, "param")
        if kind not in ("arrow",):
            pass
        body = []
        if strict and not saved_ctx.strict:
            body.append("'use strict';")
        n = stmts if stmts is not None else 1 + self.r.below(4)
        for _ in range(n):
            body.append(self.stmt())
        if self.r.chance(0.7):
            body.append("return %s;" % self.full_expr(1))
        self.pop_scope()
        self.fn_depth -= 1
        self.expr_reads, self.expr_writes = saved_rw
        self.ctx = saved_ctx
        return "{ %s }" % " ".join(body)

    def e_funcexpr(self, d):
        r = self.r
        if self.fn_depth >= 3 or self.budget < 30:
            return "(() => %s)()" % self.leaf()
        k = r.below(4)
        ptext, names, simple = self.params("function")
        if k == 0:
            self.use("arrow")
            if r.chance(0.5):
                # expression-bodied arrow
                self.push_scope(function=True)
                for nm in names:
                    self.declare(nm, "param")
                saved_ctx = self.ctx
                self.ctx = Ctx("arrow", strict=saved_ctx.strict, depth=saved_ctx.depth + 1)
                self.ctx.kind = saved_ctx.kind if saved_ctx.kind in ("method", "ctor") else "arrow"
                self.fn_depth += 1
                saved_rw = (self.expr_reads, self.expr_writes)
                self.expr_reads = self.expr_writes = None
                body = self.full_expr(d + 1)
                self.expr_reads, self.expr_writes = saved_rw
                self.fn_depth -= 1
                self.ctx = saved_ctx
                self.pop_scope()
                f = "((%s) => %s)" % (ptext, body)
            else:
                f = "((%s) => %s)" % (ptext, self.function_body("arrow", names))
        elif k == 1:
            self.use("function_expr")
            strict = simple and r.chance(0.2)
            f = "(function(%s) %s)" % (ptext, self.function_body("function", names, strict=strict))
        elif k == 2:
            self.use("named_function_expr")
            nm = self.fresh("nf")
            self.push_scope()
            self.declare(nm, "fn", fn=False, const=True)
            f = "(function %s(%s) %s)" % (nm, ptext, self.function_body("function", names))
            self.pop_scope()
        else:
            self.use("arrow")
            f = "((%s) => %s)" % (ptext, self.function_body("arrow", names))
        if r.chance(0.75) or "fn_to_string" in self.avoid:
            return "%s(%s)" % (f, self.args(d, r.below(3)))
        return f

    def e_iife_gen(self, d):
        if self.fn_depth >= 3 or self.budget < 40:
            return self.leaf()
        self.use("generator")
        r = self.r
        ptext, names, _ = self.params("generator")
        body = self.function_body("generator", names)
        consume = r.choice(["[...%s]", "Array.from(%s)", "%s.next().value", "((g) => [g.next(1), g.next(2), g.return(7), g.next()])(%s)",
                            "((g) => { try { return [g.next(), g.throw(new RangeError('t')), g.next()] } catch (e) { return ['caught', __show(e)] } })(%s)"])
        if "%s.next()" in consume or consume.startswith("[...") or consume.startswith("Array.from"):
            pass
        return consume % ("(function*(%s) %s)(%s)" % (ptext, body, self.args(d, r.below(3))))

    def e_classexpr(self, d):
        if self.fn_depth >= 3 or self.budget < 40:
            return self.leaf()
        self.use("class_expr")
        return "new (%s)(%s)" % (self.class_text(None, d), self.leaf())

    # ---------------------------------------------------------------- classes
    def class_text(self, name, d):
        r = self.r
        bases = [v for v in self.visible(lambda v: v.cls) if v.name in self.callable_done]
        base = None
        k = r.below(10)
        if bases and k < 4:
            base = r.choice(bases).name
        elif k == 4:
            base = r.choice(["Object", "Array", "null", "Error"])
            if base == "null":
                base = None  # `extends null` constructors always throw in `new`; keep it rare
        members = []
        saved_ctx, saved_rw = self.ctx, (self.expr_reads, self.expr_writes)
        self.expr_reads = self.expr_writes = None
        # constructor
        if r.chance(0.7):
            ptext, names, _ = self.params("ctor")
            self.ctx = Ctx("derived_ctor" if base else "ctor", strict=True, depth=saved_ctx.depth + 1)
            self.fn_depth += 1
            self.push_scope(function=True)
            for nm in names:
                self.declare(nm, "param")
            body = []
            if base:
                if r.chance(0.15):
                    body.append("try { print(this) } catch (e) { print('tdz-this', e) }")
                    self.use("this_before_super")
                body.append("super(%s);" % self.args(2, r.below(3)))
                self.ctx.kind = "derived_ctor_after_super"
            for _ in range(r.below(3)):
                body.append("this.%s = %s;" % (r.choice(["a", "b", "c"]), self.full_expr(2)))
            if r.chance(0.3):
                body.append(self.stmt())
            self.pop_scope()
            self.fn_depth -= 1
            members.append("constructor(%s) { %s }" % (ptext, " ".join(body)))
        nmeth = r.below(4)
        for i in range(nmeth):
            st = "static " if r.chance(0.25) else ""
            mk = r.below(10)
            mname = r.choice(["m0", "m1", "a", "b", "toString", "valueOf", "[Symbol.iterator]", "['c' + 1]", "#p"])
            if mname == "#p":
                self.use("private_method")
                mname = "#p%d" % i
            if mname == "[Symbol.iterator]":
                members.append("%s*[Symbol.iterator]() { yield 1; yield %s; }" % (st, self.literal()))
                continue
            if mk < 6:
                ptext, names, _ = self.params("method")
                self.ctx = Ctx("method", strict=True, depth=saved_ctx.depth + 1)
                body = self.function_body("method", names, stmts=r.below(3))
                members.append("%s%s(%s) %s" % (st, mname, ptext, body))
            elif mk < 8:
                self.use("class_getter")
                members.append("%sget %s() { print('get'); return %s }" % (st, mname, r.choice(["this.b" if mname == "a" else "this.a", "1", "typeof this"])))   # never the getter's own name: unbounded recursion
            elif mk == 8:
                self.use("class_setter")
                members.append("%sset %s(v) { print('set', v) }" % (st, mname))
            else:
                self.use("class_generator_method")
                members.append("%s*%s() { yield %s; return 2 }" % (st, mname, self.literal()))
        for i in range(r.below(3)):
            self.use("class_field")
            st = "static " if r.chance(0.3) else ""
            fname = r.choice(["f0", "f1", "a", "#q", "['k']", "0"])
            if fname == "#q":
                fname = "#q%d" % i
                self.use("private_field")
            self.ctx = Ctx("method", strict=True, depth=saved_ctx.depth + 1)
            members.append("%s%s = %s;" % (st, fname, r.choice([self.literal(), "this", "(print('field'), 1)", "() => this"])))
        if r.chance(0.15):
            self.use("static_block")
            members.append("static { print('static block', typeof this); }")
        self.ctx, (self.expr_reads, self.expr_writes) = saved_ctx, saved_rw
        # deduplicate constructor / private names (duplicates are early errors)
        seen, out = set(), []
        for m in members:
            key = m.split("(")[0].split("=")[0].strip()
            key = key.replace("static ", "").replace("get ", "G").replace("set ", "S").replace("*", "")
            if key.lstrip("GS").startswith("#"):
                key = key.lstrip("GS")
            if key in seen and (key.startswith("#") or key == "constructor"):
                continue
            seen.add(key)
            out.append(m)
        return "class %s%s { %s }" % (name or "", " extends %s" % base if base else "", " ".join(out))

    # ---------------------------------------------------------------- statements
    def block(self, n=None, scope=True):
        if scope:
            self.push_scope()
        n = 1 + self.r.below(3) if n is None else n
        out = [self.stmt() for _ in range(n)]
        if scope:
            self.pop_scope()
        return "{ %s }" % " ".join(out)

    def stmt(self):
        r = self.r
        if not self.spend(2):
            return "print(%s);" % self.full_expr(3)
        kinds = [
            ("print", 20), ("decl", 18), ("exprstmt", 14), ("if", 8), ("for", 7), ("while", 3), ("dowhile", 2),
            ("forof", 5), ("forin", 3), ("switch", 4), ("try", 7), ("labeled", 3), ("block", 3), ("funcdecl", 6),
            ("classdecl", 3), ("throw", 2), ("breakcont", 4), ("ret", 2), ("tdz", 3), ("closure_loop", 3),
            ("recursive", 2), ("generator", 4), ("destruct_decl", 4), ("with", self.w("with", 1)), ("evalstmt", self.w("eval", 1)),
            ("finally_ctl", 3), ("getter_obj", 2), ("args_obj", 2),
        ]
        k = r.weighted(kinds)
        return getattr(self, "s_" + k)()

    def s_print(self):
        n = 1 + self.r.below(2)
        return "print(%s);" % ", ".join(self.full_expr(1) for _ in range(n))

    def new_let_name(self):
        # may shadow an outer let of the same pool (never one in the current scope)
        outer = [v.name for v in self.visible(lambda v: v.kind in ("let", "const")) if v.name not in self.scope.vars]
        if outer and self.r.chance(0.15):
            self.use("shadowing")
            return self.r.choice(outer)
        return self.fresh(self.r.choice(["v", "v", "o", "a"]))

    def init_for(self, name):
        if name.startswith("o"):
            return self.e_object(2)
        if name.startswith("a"):
            return self.e_array(2)
        return self.full_expr(1)

    def s_decl(self):
        r = self.r
        k = r.weighted([("let", 40), ("const", 25), ("var", 35)])
        if k == "var":
            nm = self.fresh(r.choice(["w", "w", "o", "a"]))
            init = self.init_for(nm) if r.chance(0.8) else None
            # var lives in the function scope
            s = self.scope
            while not s.function:
                s = s.parent
            s.vars[nm] = Var(nm, "var", depth=self.fn_depth)
            self.use("var")
            first = "var %s%s;" % (nm, " = " + init if init is not None else "")
            if init is not None and r.chance(0.3):
                # a second declaration of the same var whose initializer reads the variable while it is being
                # computed, or fails half-way: the old value must stay visible until the initializer has completed
                self.use("var_redeclare_self")
                e = self.literal()
                form = r.choice(["[...X, E]" if nm.startswith("a") else "[X, E]", "[E, X]", "{t: X, u: E}", "{u: E, ...X}", "(E || X)", "(X || E)", "(E && X)",
                                 "(X ?? E)", "(E ?? X)", "(E, X)", "`t${X}`", "[X].concat([X])", "(X ? [X] : {v: X})",
                                 "THROW[X, null.p]", "THROW{t: X, u: undeclaredInit()}", "THROW[...X, ...null]", "THROW(X || E, [E, null.p])"])
                if form.startswith("THROW"):
                    second = "try { var %s = %s; } catch (e) { print('init threw'); }" % (nm, form[5:].replace("X", nm).replace("E", e))
                else:
                    second = "var %s = %s;" % (nm, form.replace("X", nm).replace("E", e))
                return "%s %s print(%s);" % (first, second, nm)
            return first
        nm = self.new_let_name() if (k == "let" or "assign_const_in_tdz" not in self.avoid) else self.fresh(r.choice(["v", "v", "o", "a"]))
        if k == "let":
            init = self.init_for(nm) if r.chance(0.85) else None
            self.declare(nm, "let")
            self.use("let")
            return "let %s%s;" % (nm, " = " + init if init is not None else "")
        init = self.init_for(nm)
        self.declare(nm, "const", const=True)
        self.use("const")
        return "const %s = %s;" % (nm, init)

    def pattern(self, declare_kind, depth=0):
        """destructuring pattern declaring fresh names; returns (pattern, source expr)"""
        r = self.r
        names = []

        def fresh():
            nm = self.fresh("v")
            names.append(nm)
            return nm

        if r.chance(0.5):
            parts = []
            for _ in range(1 + r.below(3)):
                k = r.below(8)
                if k == 0:
                    parts.append("")
                elif k == 1:
                    parts.append("%s = %s" % (fresh(), self.literal()))
                elif k == 2 and depth < 1:
                    p, _ = self.pattern(declare_kind, depth + 1)
                    parts.append(p[0] if isinstance(p, tuple) else p)
                else:
                    parts.append(fresh())
            if r.chance(0.3):
                parts.append("...%s" % fresh())
            pat = "[%s]" % ", ".join(parts)
            src = r.choice(["[1, 2, 3, 4]", "'xyz'", "[]", "[undefined, null]", "[[1, 2], [3]]", "new Set([5, 6])"])
        else:
            parts = []
            for _ in range(1 + r.below(3)):
                k = r.below(8)
                key = r.choice(["a", "b", "c", "length", "0"])
                if k == 0:
                    parts.append("%s: %s = %s" % (key, fresh(), self.literal()))
                elif k == 1:
                    parts.append("[%s]: %s" % (r.choice(["'a'", "'b'", "0"]), fresh()))
                elif k == 2 and depth < 1:
                    parts.append("%s: {x: %s = %s}" % (key, fresh(), self.literal()) if r.chance(0.5) else "%s: [%s]" % (key, fresh()))
                else:
                    parts.append("%s: %s" % (key, fresh()))
            if r.chance(0.25):
                parts.append("...%s" % fresh())
            pat = "{%s}" % ", ".join(parts)
            src = r.choice(["{a: 1, b: 'two', c: {x: 3}}", "{a: [7], b: undefined}", "'str'", "[9, 8]", "{a: {x: null}, c: []}",
                            "{get a(){ print('get a'); return {x: 1} }, b: 2}"])
        for nm in names:
            if declare_kind == "var":
                s = self.scope
                while not s.function:
                    s = s.parent
                s.vars[nm] = Var(nm, "var", depth=self.fn_depth)
            else:
                self.declare(nm, declare_kind, const=(declare_kind == "const"))
        return pat, src

    def s_destruct_decl(self):
        self.use("destructuring_decl")
        kind = self.r.choice(["let", "const", "var"])
        pat, src = self.pattern(kind)
        return "%s %s = %s;" % (kind, pat, src)

    def s_exprstmt(self):
        r = self.r
        k = r.below(4)
        if k == 0:
            return "%s;" % self.full_expr_of(self.e_assign)
        if k == 1:
            return "%s;" % self.full_expr_of(self.e_update)
        if k == 2:
            return "%s;" % self.full_expr_of(self.e_call)
        return "%s;" % self.guard_stmt_expr(self.full_expr(0))

    def guard_stmt_expr(self, e):
        # an expression statement must not start with `{`, `function`, `class`, `let [`
        return "(%s)" % e

    def full_expr_of(self, m):
        saved = (self.expr_reads, self.expr_writes)
        self.expr_reads, self.expr_writes = set(), set()
        try:
            return m(1)
        finally:
            self.expr_reads, self.expr_writes = saved

    def s_if(self):
        s = "if (%s) %s" % (self.full_expr(1), self.block())
        if self.r.chance(0.5):
            s += " else %s" % (self.block() if self.r.chance(0.8) else self.s_if())
        return s

    def loop_body(self, label=None):
        self.ctx.in_loop += 1
        b = self.block()
        self.ctx.in_loop -= 1
        # global fuel: deterministic termination on both engines (see prelude __tick)
        return "{ __tick(); " + b[1:]

    def s_for(self):
        r = self.r
        self.use("for")
        self.push_scope()
        i = self.fresh("i")
        kind = r.choice(["let", "let", "var"])
        if kind == "var":
            s = self.scope
            while not s.function:
                s = s.parent
            s.vars[i] = Var(i, "var", depth=self.fn_depth, prot=True)
        else:
            self.declare(i, "let", prot=True)
        n = r.choice([0, 1, 2, 3, 4])
        cond = r.choice(["%s < %d" % (i, n), "%s <= %d" % (i, n), "%d > %s" % (n, i), "%s != %d" % (i, n)]) if n else "%s < 0" % i
        cs = self.visible(lambda v: v.const and v.name.startswith("v"))
        if cs and r.chance(0.2):
            self.use("const_bound_loop")
            cond = "%s < (%s | 0) && %s < 4" % (i, r.choice(cs).name, i)
        # the loop variable is protected: the body may read it but the generator never picks it as a write target
        body = self.loop_body()
        self.pop_scope()
        return "for (%s %s = 0; %s; %s++) %s" % (kind, i, cond, i, body)

    def s_while(self):
        self.use("while")
        f = self.fresh("fuel")
        cond = self.full_expr(2)
        self.push_scope()
        self.declare(f, "let", prot=True)
        body = self.loop_body()
        self.pop_scope()
        n = self.r.choice([1, 2, 3, 5])
        return "{ let %s = %d; while (%s-- > 0 && (%s, true)) %s }" % (f, n, f, cond, body)

    def s_dowhile(self):
        self.use("dowhile")
        f = self.fresh("fuel")
        self.push_scope()
        self.declare(f, "let", prot=True)
        body = self.loop_body()
        self.pop_scope()
        return "{ let %s = %d; do %s while (--%s > 0); }" % (f, self.r.choice([1, 2, 3]), body, f)

    def iterable(self):
        r = self.r
        return r.choice(["[1, 2, 3]", "'ab'", "[[1, 'x'], [2, 'y']]", "new Set([1, 2, 1])", "new Map([[1, 2], ['k', {a: 1}]])",
                         "[]", "[{a: 1, b: 2}, {a: 3}]", "(function*(){ yield 1; yield 2; print('gen done') })()",
                         "{[Symbol.iterator]() { let n = 0; return { next() { return {done: n > 2, value: n++} }, return() { print('iter return'); return {} } } }}"])

    def s_forof(self):
        self.use("forof")
        r = self.r
        self.push_scope()
        kind = r.choice(["let", "const", "var"])
        if r.chance(0.3):
            pat, _ = self.pattern(kind)
            self.use("forof_destructuring")
            head = "%s %s" % (kind, pat)
            it = r.choice(["[[1, 2], [3, 4]]", "[{a: 1, b: 2}, {a: 3}]", "['ab', 'cd']", "[[], [5]]"])
        else:
            nm = self.fresh("e")
            if kind == "var":
                s = self.scope
                while not s.function:
                    s = s.parent
                s.vars[nm] = Var(nm, "var", depth=self.fn_depth)
            else:
                self.declare(nm, kind, const=(kind == "const"))
            head = "%s %s" % (kind, nm)
            it = self.iterable()
        body = self.loop_body()
        self.pop_scope()
        return "for (%s of %s) %s" % (head, it, body)

    def s_forin(self):
        self.use("forin")
        self.push_scope()
        nm = self.fresh("k")
        self.declare(nm, "let")
        body = self.loop_body()
        self.pop_scope()
        src = self.r.choice(["{a: 1, b: 2, c: 3}", "[7, 8]", "'xy'", "{b: 1, a: 2, 1: 0, 0: 1}", "Object.create({inh: 1}, {own: {value: 1, enumerable: true}})",
                             "null", "undefined", "5"])
        return "for (let %s in %s) %s" % (nm, src, body)

    def s_switch(self):
        r = self.r
        self.use("switch")
        self.ctx.in_switch += 1
        self.push_scope()
        cases = []
        n = 1 + r.below(4)
        default_at = r.below(n + 1) if r.chance(0.6) else -1
        for i in range(n):
            if i == default_at:
                head = "default:"
            else:
                head = "case %s:" % r.choice([self.lit_int(), self.lit_str(), self.leaf()])
            body = []
            for _ in range(r.below(3)):
                k = r.below(6)
                if k == 0 and "switch_lexical" not in self.avoid:
                    self.use("switch_lexical")
                    body.append(self.s_decl())
                else:
                    body.append("print(%s);" % self.full_expr(2))
            if r.chance(0.6):
                body.append("break;")
            cases.append("%s %s" % (head, " ".join(body)))
        self.pop_scope()
        self.ctx.in_switch -= 1
        return "switch (%s) { %s }" % (self.full_expr(2), " ".join(cases))

    def s_throw(self):
        self.use("throw")
        v = self.r.choice(["new Error('e')", "new TypeError('t')", "new RangeError('r')", "'str'", "42", "{a: 1}", "null", "undefined"])
        return "throw %s;" % v

    def s_try(self):
        r = self.r
        self.use("try")
        self.push_scope()
        body = [self.stmt() for _ in range(1 + r.below(2))]
        if r.chance(0.5):
            body.append(self.s_throw())
        self.pop_scope()
        s = "try { %s }" % " ".join(body)
        has_catch = r.chance(0.8)
        if has_catch:
            k = r.below(4)
            self.push_scope()
            if k == 0:
                s += " catch { %s }" % self.stmt()
            elif k == 1:
                self.use("catch_destructuring")
                n1 = self.fresh("v")
                self.declare(n1, "let")
                s += " catch ({name: %s}) { print('caught', %s); }" % (n1, n1)
            else:
                e = self.fresh("e")
                if "error_to_string" not in self.avoid:
                    self.declare(e, "let")
                s += " catch (%s) { print('caught', %s); %s }" % (e, e, self.stmt() if r.chance(0.4) else "")
            self.pop_scope()
        if not has_catch or r.chance(0.4):
            self.use("finally")
            self.ctx.in_finally += 1
            s += " finally %s" % self.block(1 + r.below(2))
            self.ctx.in_finally -= 1
        return s

    def s_finally_ctl(self):
        """control flow leaving try/finally: break/continue/return through finally, override in finally"""
        r = self.r
        self.use("finally_control")
        L = self.fresh("L")
        k = r.below(5)
        if k == 0:
            return "%s: { try { print('t'); break %s; } finally { print('f'); } print('unreachable'); }" % (L, L)
        if k == 1:
            i = self.fresh("i")
            return "for (let %s = 0; %s < 3; %s++) { try { if (%s == 1) continue; print('body', %s); } finally { print('fin', %s); } }" % (i, i, i, i, i, i)
        if k == 2:
            return "print((function(){ try { return 'try' } finally { print('fin') } })());"
        if k == 3:
            return "print((function(){ try { throw 1 } catch (e) { return 'catch' } finally { return 'finally' } })());"
        i = self.fresh("i")
        return "%s: for (let %s = 0; %s < 3; %s++) { try { try { if (%s) break %s; } finally { print('inner', %s); } } finally { print('outer', %s); } }" % (
            L, i, i, i, i, L, i, i)

    def s_labeled(self):
        self.use("label")
        L = self.fresh("L")
        self.ctx.labels.append((L, False))
        b = self.block()
        self.ctx.labels.pop()
        return "%s: %s" % (L, b)

    def s_breakcont(self):
        r = self.r
        c = self.ctx
        if c.in_finally:
            return self.s_print()
        opts = []
        if c.in_loop:
            opts += ["if (%s) break;", "if (%s) continue;"]
        if c.labels:
            opts += ["if (%%s) break %s;" % r.choice(c.labels)[0]]
        if c.in_switch and not c.in_loop:
            opts += ["if (%s) break;"]
        if not opts:
            return self.s_print()
        self.use("break_continue")
        return r.choice(opts) % self.full_expr(2)

    def s_ret(self):
        if self.ctx.kind in ("script",) or self.ctx.in_finally:
            return self.s_print()
        self.use("return")
        return "if (%s) return %s;" % (self.full_expr(2), self.full_expr(2))

    def s_block(self):
        return self.block()

    def s_funcdecl(self):
        # function declarations only at function/script top level (block-level functions are Annex B territory in sloppy mode)
        r = self.r
        if not self.scope.function or self.fn_depth >= 3 or self.budget < 40:
            return self.s_print()
        self.use("function_decl")
        nm = self.fresh("f")
        ptext, names, simple = self.params("function")
        v = self.declare(nm, "fn", fn=True)
        strict = simple and r.chance(0.2)
        body = self.function_body("function", names, strict=strict)
        self.callable_done.add(nm)
        return "function %s(%s) %s" % (nm, ptext, body)

    def s_recursive(self):
        if not self.scope.function or self.fn_depth >= 2:
            return self.s_print()
        self.use("recursion")
        nm = self.fresh("f")
        self.declare(nm, "fn", fn=True)
        n = self.r.choice([0, 1, 3, 5])
        acc = self.r.choice(["n + %s(n - 1)", "[n].concat(%s(n - 1))", "(print('down', n), %s(n - 1))"]) % nm
        return "function %s(n) { if (n <= 0) return %s; return %s; } print(%s(%d));" % (nm, self.literal(), acc, nm, n)

    def s_generator(self):
        if not self.scope.function or self.fn_depth >= 3 or self.budget < 40:
            return self.s_print()
        self.use("generator")
        r = self.r
        nm = self.fresh("g")
        ptext, names, _ = self.params("generator")
        self.declare(nm, "fn", fn=True, gen=True)
        body = self.function_body("generator", names)
        it = self.fresh("it")
        self.declare(it, "let", const=True)
        drive = r.choice([
            "print(%(it)s.next(), %(it)s.next('x'), %(it)s.next());",
            "for (const y of %(it)s) { print('y', y); }",
            "print(%(it)s.next()); print(%(it)s.return('r')); print(%(it)s.next());",
            "try { print(%(it)s.next()); print(%(it)s.throw(new TypeError('in'))); } catch (e) { print('out', e); } print(%(it)s.next());",
            "print([...%(it)s]);",
        ]) % {"it": it}
        return "function* %s(%s) %s const %s = %s(%s); %s" % (nm, ptext, body, it, nm, self.args(2, r.below(3)), drive)

    def s_classdecl(self):
        if self.fn_depth >= 3 or self.budget < 50:
            return self.s_print()
        self.use("class_decl")
        nm = self.fresh("C")
        text = self.class_text(nm, 1)
        self.declare(nm, "class", cls=True, const=False)
        self.callable_done.add(nm)
        inst = self.fresh("o")
        self.declare(inst, "let")
        use = self.r.choice([
            "print(%(o)s, Object.getOwnPropertyNames(%(C)s.prototype));",
            "print(%(o)s instanceof %(C)s, typeof %(C)s, %(C)s.name, %(C)s.length);",
            "try { print(%(o)s.m0 && %(o)s.m0(1), %(o)s.a, String(%(o)s)); } catch (e) { print('E', e); }",
            "try { %(C)s(); } catch (e) { print('call without new', e); }",
        ]) % {"o": inst, "C": nm}
        return "%s let %s; try { %s = new %s(%s); } catch (e) { print('ctor threw', e); } %s" % (text, inst, inst, nm, self.args(2, self.r.below(3)), use)

    def s_tdz(self):
        if "tdz" in self.avoid:
            return self.s_print()
        self.use("tdz")
        r = self.r
        nm = self.fresh("v")
        k = r.below(5)
        if k == 0:
            s = "{ try { print(%s); } catch (e) { print('tdz', e); } let %s = %s; print(%s); }" % (nm, nm, self.literal(), nm)
        elif k == 1:
            s = "{ const rd = () => %s; try { print(rd()); } catch (e) { print('tdz', e); } let %s = %s; print(rd()); }" % (nm, nm, self.literal())
        elif k == 2:
            s = "{ try { %s = 1; } catch (e) { print('tdz-assign', e); } let %s; print(%s); }" % (nm, nm, nm)
        elif k == 3:
            s = "{ try { print(typeof %s); } catch (e) { print('tdz-typeof', e); } const %s = %s; }" % (nm, nm, self.literal())
        else:
            s = "try { (function(a = %s, %s = 1) { print(a, %s); })(); } catch (e) { print('tdz-param', e); }" % (nm, nm, nm)
        return s

    def s_closure_loop(self):
        self.use("closure_in_loop")
        r = self.r
        fs = self.fresh("a")
        i = self.fresh("i")
        kind = r.choice(["let", "let", "var"])
        s = "{ const %s = []; for (%s %s = 0; %s < 3; %s++) { %s.push(() => %s%s); } print(%s.map(f => f())); }" % (
            fs, kind, i, i, i, fs, i, r.choice(["", " * 2", "++"]), fs)
        return s

    def s_with(self):
        if self.ctx.strict or self.strict_program or "with" in self.avoid:
            return self.s_print()
        self.use("with")
        vs = self.readable()
        inner = vs and self.r.choice(vs).name or "a"
        return "with ({a: 1, %s: 'shadow'}) { print(a, %s); a = 2; }" % (inner if not inner.startswith("p") else "b", inner)

    def s_evalstmt(self):
        if "eval" in self.avoid:
            return self.s_print()
        self.use("eval")
        r = self.r
        nm = self.fresh("w")
        k = r.below(4)
        if k == 0 and not self.ctx.strict and not self.strict_program:
            # var declared by direct eval becomes visible in the enclosing function (sloppy)
            return "eval('var %s = %s;'); print(typeof %s);" % (nm, self.lit_int(), nm)
        if k == 1:
            return "print(eval('let %s = 2; %s * 3'), typeof %s);" % (nm, nm, nm)
        if k == 2:
            vs = self.readable()
            x = r.choice(vs).name if vs else "1"
            return "print(eval('typeof %s'));" % x
        return "try { eval('let a = ;'); } catch (e) { print('eval syntax', e); }"

    def s_getter_obj(self):
        self.use("accessor_object")
        o = self.fresh("o")
        self.declare(o, "let")
        return ("let %s = { n: 0, get a() { print('get a'); return this.n++ }, set a(v) { print('set a', v); this.n = v } }; "
                "%s.a; %s.a = %s; print(%s.a %s %s.a);") % (o, o, o, self.literal(), o, self.r.choice(["+", "<", "=="]), o)

    def s_args_obj(self):
        if self.fn_depth >= 3:
            return self.s_print()
        self.use("arguments_object")
        strict = "'use strict';" if self.r.chance(0.4) else ""
        return "print((function(a, b) { %s arguments[0] = 9; a = a + 1; b = 5; return [a, b, arguments.length, arguments[0], arguments[1]]; })(%s));" % (
            strict, self.args(2, self.r.below(4)))

    # ---------------------------------------------------------------- program
    def program_parts(self, nstmts=None):
        """returns (directive or None, [statements], final expression or None)"""
        r = self.r
        directive = None
        if self.strict_program:
            directive = "'use strict';"
            self.ctx.strict = True
        out = []
        n = nstmts or 3 + r.below(8)
        for _ in range(n):
            s = self.stmt()
            if r.chance(0.75) and not s.startswith(("function", "class", "let ", "const ", "var ")):
                s = "try { %s } catch (e) { print('top', e); }" % s
            out.append(s)
            if self.budget <= 0:
                break
        final = None
        if r.chance(0.5) or "stmt_completion_value" in self.avoid:
            final = self.full_expr(1)
        return directive, out, final

    def program(self, nstmts=None):
        d, stmts, final = self.program_parts(nstmts)
        return render_plain(d, stmts, final)


def render_plain(directive, stmts, final):
    out = ([directive] if directive else []) + list(stmts)
    if final is not None:
        out.append("(%s);" % final)
    return "\n".join(out)


def render_main(directive, stmts, final, call=True):
    """the same program as the body of a function `__main` (entered by the VM's call opcode or by the host)"""
    body = ([directive] if directive else []) + list(stmts)
    if final is not None:
        body.append("return (%s);" % final)
    src = "function __main() {\n%s\n}" % "\n".join(body)
    if call:
        src += "\n__main();"
    return src


def generate_parts(seed, index, avoid=(), strict=None, features=None, budget=None, max_depth=5, label="core"):
    rng = Rng(seed, label, index)
    if strict is None:
        strict = rng.chance(0.3)
    g = Gen(rng, avoid=avoid, strict=strict, features=features, budget=budget or rng.choice([40, 80, 150, 250]), max_depth=max_depth)
    d, stmts, final = g.program_parts()
    return (d, stmts, final), g.used


def generate(seed, index, avoid=(), strict=None, features=None, budget=None, max_depth=5, label="core"):
    parts, used = generate_parts(seed, index, avoid, strict, features, budget, max_depth, label)
    return render_plain(*parts), used


def generate_form(seed, index, form=None, **kw):
    """`generate`, rendered either as a plain script or as the body of a function `__main` that the script calls
    (form "main": top-level declarations become function locals, i.e. candidates for frame registers).
    form None alternates with the index."""
    parts, used = generate_parts(seed, index, **kw)
    if form is None:
        form = "main" if index % 2 else "plain"
    return (render_main(*parts) if form == "main" else render_plain(*parts)), used
