"""Structural checker for dumped code blocks (property C03).

Input: the JSON document produced by `boa_engine::verif::dump_code_block` (decoded instructions of
one compiled body with their operands printed through `Debug`, table sizes, handlers, scope
constants). Checks, for the one block, over ALL of its control-flow paths:
  * the instruction stream tiles the byte array;
  * every register / constant / binding / inline-cache / scope operand is inside its table and of
    the right kind; every jump and handler address is the start of an instruction of the block;
  * the depths of the environment stack, of the binding-reference stack and of the value stack
    (above the register file) are non-negative at every instruction and agree at merge points
    (worklist fix-point over normal edges, jump tables and exception edges).
The per-opcode effect table below is the trusted base; it is cross-validated on every run against
depths sampled from the running VM (`check_samples`).
"""
import re

OPERAND_RE = re.compile(r"(\w+): (\[[^\]]*\]|[A-Za-z]+\(-?[\w.+-]*\)|-?[\w.+-]+)")
ITEM_RE = re.compile(r"([A-Za-z]+)\((-?\d+)\)|(-?\d+)")


def parse_args(text):
    """'Move { dst: RegisterOperand(3), src: RegisterOperand(1) }' -> {'dst': ('RegisterOperand', 3), ...}"""
    out = {}
    i = text.find("{")
    if i < 0:
        return out
    body = text[i + 1:text.rfind("}")]
    for m in OPERAND_RE.finditer(body):
        name, val = m.group(1), m.group(2)
        if val.startswith("["):
            items = []
            for im in ITEM_RE.finditer(val):
                if im.group(1):
                    items.append((im.group(1), int(im.group(2))))
                else:
                    items.append(("u32", int(im.group(3))))
            out[name] = ("list", items)
        else:
            im = re.match(r"([A-Za-z]+)\((-?\d+)\)$", val)
            if im:
                out[name] = (im.group(1), int(im.group(2)))
            else:
                try:
                    out[name] = ("imm", float(val) if ("." in val or "e" in val or "inf" in val or "NaN" in val) else int(val))
                except ValueError:
                    out[name] = ("imm", val)
    return out


# ---- which table an IndexOperand refers to, by (opcode, field); default by field name
INDEX_KIND_BY_FIELD = {
    "binding_index": "binding",
    "ic_index": "ic",
    "name_index": "const:string",
    "scope_index": "const:scope",
    "pattern_index": "const:string",
    "flags_index": "const:string",
    "message": "const:string",
    "argument_count": "imm",
    "prefix": "imm",
    "done": "imm",
    "is_anonymous_function": "imm",
    "phase": "imm",
}
INDEX_KIND = {
    ("StoreLiteral", "index"): "const:literal",
    ("InPrivate", "index"): "const:string",
    ("ThrowMutateImmutable", "index"): "const:string",
    ("GetArgument", "index"): "imm",
    ("GetFunction", "index"): "const:function",
    ("ThisForObjectEnvironmentName", "index"): "binding",
}

UNCONDITIONAL_EXIT = {"Return", "Throw", "ReThrow", "ThrowNewTypeError", "ThrowNewReferenceError", "ThrowMutateImmutable", "DeleteSuperThrow"}
JUMP_ALWAYS = {"Jump"}
JUMP_COND = {"JumpIfTrue", "JumpIfFalse", "JumpIfNotUndefined", "JumpIfNullOrUndefined", "JumpIfNotLessThan", "JumpIfNotLessThanOrEqual",
             "JumpIfNotGreaterThan", "JumpIfNotGreaterThanOrEqual", "JumpIfNotEqual", "LogicalAnd", "LogicalOr", "Coalesce", "Case", "TemplateLookup"}
# opcodes that cannot throw (everything else inside a handler range gets an exception edge)
NO_THROW = {"Pop", "StoreZero", "StoreOne", "StoreInt8", "StoreInt16", "StoreInt32", "StoreFloat", "StoreDouble", "StoreNan", "StorePositiveInfinity",
            "StoreNegativeInfinity", "StoreNull", "StoreTrue", "StoreFalse", "StoreUndefined", "StoreLiteral", "StoreEmptyObject", "StoreNewArray", "Jump",
            "JumpIfTrue", "JumpIfFalse", "JumpIfNotUndefined", "JumpIfNullOrUndefined", "JumpTable", "Move", "PopIntoRegister", "PushFromRegister",
            "SetAccumulator", "SetRegisterFromAccumulator", "PopEnvironment", "PushScope", "LogicalAnd", "LogicalOr", "Coalesce", "TypeOf", "LogicalNot",
            "IsObject", "StrictEq", "StrictNotEq", "GetFunction", "MaybeException", "Return", "CheckReturn", "IteratorStackEmpty", "IteratorDone",
            "IteratorValue", "IteratorResult", "PopPrivateEnvironment", "NewTarget", "CreateIteratorResult"}


def value_effect(op, a):
    """net effect of the instruction on the value stack above the register file, as seen by the
    next instruction of the same frame (callee frames have come and gone)"""
    argc = a.get("argument_count", ("imm", 0))[1]
    if op == "Pop" or op == "PopIntoRegister":
        return -1
    if op == "PushFromRegister":
        return 1
    if op in ("Call", "CallEval"):
        return -(argc + 2) + 1
    if op in ("CallSpread", "CallEvalSpread"):
        return -3 + 1
    if op == "New":
        return -(argc + 2) + 1
    if op == "NewSpread":
        return -3 + 1
    if op == "SuperCall":
        return -(argc + 2) + 1
    if op == "SuperCallSpread":
        return -3 + 1
    if op == "SuperCallDerived":
        return 1
    if op in ("GeneratorYield", "AsyncGeneratorYield", "Await"):
        return 2
    if op in ("Generator", "AsyncGenerator"):
        return 1
    if op == "GetPropertyByValuePush":
        return 0
    return 0


def env_effect(op, a, block):
    if op == "PushScope":
        k = a.get("scope_index", ("IndexOperand", -1))[1]
        consts = block["constants"]
        if 0 <= k < len(consts) and consts[k]["kind"] == "scope":
            return 0 if consts[k].get("all_local") else 1
        return 1
    if op == "PushObjectEnvironment":
        return 1
    if op == "PopEnvironment":
        return -1
    return 0


def binding_effect(op, a):
    if op in ("GetLocator", "GetNameAndLocator"):
        return 1
    if op == "SetNameByLocator":
        return -1
    return 0


class Finding:
    def __init__(self, kind, pc, detail):
        self.kind, self.pc, self.detail = kind, pc, detail

    def __repr__(self):
        return "%s@%s: %s" % (self.kind, self.pc, self.detail)


def check_block(block, effects_override=None):
    """returns (findings, states) where states maps pc -> (env, binding, value) at instruction start"""
    F = []
    if block.get("decode_error"):
        return [Finding("decode", None, "the instruction stream does not decode")], {}
    ins = block["instructions"]
    nbytes = block["bytes"]
    starts = {}
    prev_next = 0
    for idx, i in enumerate(ins):
        if i["pc"] != prev_next:
            F.append(Finding("tiling", i["pc"], "instruction starts at %d but the previous one ended at %d" % (i["pc"], prev_next)))
        prev_next = i["next"]
        starts[i["pc"]] = idx
        i["_a"] = parse_args(i["args"])
    if prev_next != nbytes:
        F.append(Finding("tiling", prev_next, "instructions end at %d, byte array has %d bytes" % (prev_next, nbytes)))
    nreg = block["register_count"]
    consts = block["constants"]
    nbind = len(block["bindings"])
    nic = block["ic_count"]

    def check_addr(pc, what, v):
        if v not in starts:
            F.append(Finding("address", pc, "%s = %d is not the start of an instruction of this block" % (what, v)))
            return False
        return True

    for i in ins:
        op, a, pc = i["op"], i["_a"], i["pc"]
        for fname, (ty, v) in a.items():
            if ty == "RegisterOperand":
                if not (0 <= v < nreg):
                    F.append(Finding("register", pc, "%s.%s = r%d but the register file has %d registers" % (op, fname, v, nreg)))
            elif ty == "Address":
                check_addr(pc, "%s.%s" % (op, fname), v)
            elif ty == "IndexOperand":
                kind = INDEX_KIND.get((op, fname)) or INDEX_KIND_BY_FIELD.get(fname)
                if kind is None:
                    F.append(Finding("unclassified-operand", pc, "%s.%s" % (op, fname)))
                elif kind == "binding":
                    if not (0 <= v < nbind):
                        F.append(Finding("binding", pc, "%s.%s = %d but there are %d binding locators" % (op, fname, v, nbind)))
                elif kind == "ic":
                    if not (0 <= v < nic):
                        F.append(Finding("ic", pc, "%s.%s = %d but there are %d inline caches" % (op, fname, v, nic)))
                elif kind.startswith("const:"):
                    want = kind[6:]
                    if not (0 <= v < len(consts)):
                        F.append(Finding("constant", pc, "%s.%s = %d but there are %d constants" % (op, fname, v, len(consts))))
                    else:
                        got = consts[v]["kind"]
                        ok = (got == want) or (want == "literal" and got in ("string", "bigint"))
                        if not ok:
                            F.append(Finding("constant-kind", pc, "%s.%s = %d is a %s constant, expected %s" % (op, fname, v, got, want)))
            elif ty == "list":
                for (ity, iv) in v:
                    if ity == "RegisterOperand" and not (0 <= iv < nreg):
                        F.append(Finding("register", pc, "%s.%s contains r%d, register file has %d" % (op, fname, iv, nreg)))
                    elif ity == "Address":
                        check_addr(pc, "%s.%s[]" % (op, fname), iv)
                    elif ity == "u32" and op == "PushPrivateEnvironment":
                        if not (0 <= iv < len(consts)) or consts[iv]["kind"] != "string":
                            F.append(Finding("constant-kind", pc, "%s.%s contains %d which is not a string constant" % (op, fname, iv)))
            elif ty == "imm" and op == "JumpTable" and fname == "index":
                if not (0 <= v < nreg):
                    F.append(Finding("register", pc, "JumpTable.index = r%d, register file has %d" % (v, nreg)))
    handlers = block["handlers"]
    for h in handlers:
        if h["start"] > h["end"]:
            F.append(Finding("handler", h["start"], "handler range start %d > end %d" % (h["start"], h["end"])))
        if h["end"] not in starts:
            F.append(Finding("handler", h["end"], "handler address %d is not the start of an instruction" % h["end"]))
        if h["start"] not in starts and h["start"] != nbytes:
            F.append(Finding("handler", h["start"], "handler range start %d is not the start of an instruction" % h["start"]))
    if any(f.kind in ("tiling", "address", "handler") for f in F):
        return F, {}

    # ---- depth analysis
    def handler_for(pc):
        # innermost = last pushed whose range contains pc (same rule as CodeBlock::find_handler: reverse search)
        for h in reversed(handlers):
            if h["start"] <= pc < h["end"]:
                return h
        return None

    # Registers used as JumpTable index are tracked as constants: the compiler's try/finally protocol
    # parks a pending `return` value on the value stack and records which continuation to take in that
    # register, so paths that differ in it may legitimately differ in depth inside the finally code.
    tracked = sorted({i["_a"]["index"][1] for i in ins if i["op"] == "JumpTable" and "index" in i["_a"]})
    tpos = {r: k for k, r in enumerate(tracked)}
    STORE_CONST = {"StoreZero": 0, "StoreOne": 1}

    # The environment depth at entry (relative to the frame's env_fp) is 1 when the call machinery pushes a
    # function environment before pc 0. It is calibrated from the handlers: a first pass without exception
    # edges gives the relative depth at the start of every protected range; each handler's
    # `environment_count` minus that depth must give one and the same entry depth.
    entry_env = 0
    if handlers:
        rel = _relative_env(ins, starts, block, nbytes)
        offs = set()
        for h in handlers:
            if h["start"] in rel:
                offs.add(h["environment_count"] - rel[h["start"]])
        if len(offs) > 1:
            F.append(Finding("handler-env", None, "handlers imply different environment depths at function entry: %s" % sorted(offs)))
        if offs:
            entry_env = max(0, min(offs))

    states = {}   # pc -> {(idxvals, region entries): (env, bnd, val)}
    state = {}    # pc -> first state seen
    env_at = {}   # pc -> (environment depth, predecessor) of the first path that reached it
    env_reported = set()
    nh = len(handlers)

    def regions_at(pc):
        return [k for k in range(nh) if handlers[k]["start"] <= pc < handlers[k]["end"]]

    region_cache = {}
    # A path is *abrupt* while one of the dispatch registers holds a non-zero constant (a break / continue /
    # return is pending and a finally block is running): a pending `return` parks its value (and, when the return
    # comes from a generator resumed inside an argument list, the half-built call) on the value stack, so such
    # paths legitimately differ in depth from normal ones. After the JumpTable has dispatched them they are
    # *tails*: a tail must agree with the normal paths it meets (break / continue), tails among themselves are
    # not compared (return epilogues).
    work = [(0, (entry_env, 0, 0), tuple([None] * len(tracked)), (), False, None)]
    steps = 0
    while work:
        pc, st, idx, hent, tail, frm = work.pop()
        steps += 1
        if steps > 400000:
            F.append(Finding("analysis-budget", pc, "state exploration exceeded its budget"))
            break
        if pc not in starts:
            continue
        env, bnd, val = st
        if pc not in region_cache:
            region_cache[pc] = regions_at(pc)
        inside = region_cache[pc]
        hd = {k: v for k, v in dict(hent).items() if k in inside}
        for k in inside:
            if k not in hd:
                hd[k] = (bnd, val)
        hent = tuple(sorted(hd.items()))
        abrupt = any(v not in (None, 0) for v in idx)
        special = abrupt or tail
        # Binding locators are absolute positions in the environment chain, so the environment depth at an
        # instruction cannot depend on the path: unlike the value stack (parked return values) it must agree for
        # normal, abrupt (pending break / continue / return inside finally code) and tail paths alike.
        e0 = env_at.get(pc)
        if e0 is None:
            env_at[pc] = (env, frm)
        elif e0[0] != env and not env_reported:   # the first disagreement of a block; later ones follow from it
            env_reported.add(pc)
            F.append(Finding("merge-env", pc, "paths reach this instruction with environment depths %d (from %s) and %d (from %s)%s" % (
                e0[0], e0[1], env, frm, " while a break/continue/return is pending" if special else "")))
        key = (idx, hent, (bnd, val, tail) if special else None)
        seen = states.setdefault(pc, {})
        if key in seen:
            if seen[key] != st:
                F.append(Finding("merge", pc, "paths reach this instruction with (env,binding,value) depths %s and %s (second path from %s)" % (seen[key], st, frm)))
            continue
        if not abrupt:
            for (oidx, ohent, ospecial), ost in seen.items():
                o_abrupt = any(v not in (None, 0) for v in oidx)
                if o_abrupt:
                    continue
                o_tail = bool(ospecial and ospecial[2])
                if tail and o_tail:
                    continue
                if (tail or o_tail) and ost != st:
                    F.append(Finding("merge", pc, "a path leaving a finally block reaches this instruction with depths %s, the normal path with %s (from %s)" % (
                        st if tail else ost, ost if tail else st, frm)))
                    break
        if len(seen) >= 48:
            continue
        seen[key] = st
        if not special:
            state.setdefault(pc, st)
        i = ins[starts[pc]]
        op, a = i["op"], i["_a"]
        if effects_override and op in effects_override:
            dv, de, db = effects_override[op]
        else:
            dv, de, db = value_effect(op, a), env_effect(op, a, block), binding_effect(op, a)
        need = 0
        if op in ("Call", "CallEval", "New", "SuperCall"):
            need = a.get("argument_count", ("imm", 0))[1] + 2
        elif op in ("CallSpread", "CallEvalSpread", "NewSpread", "SuperCallSpread"):
            need = 3
        elif op in ("Pop", "PopIntoRegister"):
            need = 1
        if val < need:
            F.append(Finding("value-underflow", pc, "%s needs %d entries on the value stack, only %d are there on this path" % (op, need, val)))
        if op == "SetNameByLocator" and bnd < 1:
            F.append(Finding("binding-underflow", pc, "SetNameByLocator with an empty binding-reference stack on this path"))
        if op == "PopEnvironment" and env < 1:
            F.append(Finding("env-underflow", pc, "PopEnvironment with no environment pushed by this frame on this path"))
        nst = (max(0, env + de), max(0, bnd + db), max(0, val + dv))
        nidx = idx
        if tracked:
            dst = a.get("dst")
            if dst and dst[0] == "RegisterOperand" and dst[1] in tpos:
                v = STORE_CONST.get(op)
                if v is None and op in ("StoreInt8", "StoreInt16", "StoreInt32") and "value" in a:
                    v = a["value"][1]
                l = list(idx)
                l[tpos[dst[1]]] = v
                nidx = tuple(l)
        if op not in NO_THROW and inside:
            k = max(inside)
            h = handlers[k]
            eb, ev = hd[k]
            work.append((h["end"], (h["environment_count"], eb, ev), nidx, hent, tail, "exception@%d" % pc))
        succ = []
        ntail = tail
        if op in UNCONDITIONAL_EXIT:
            pass
        elif op in JUMP_ALWAYS:
            succ = [a["address"][1]]
        elif op in JUMP_COND:
            succ = [a["address"][1], i["next"]]
        elif op == "JumpTable":
            addrs = [v for (_, v) in a.get("addresses", ("list", []))[1]]
            reg = a["index"][1] if a.get("index") else None
            kk = idx[tpos[reg]] if reg in tpos else None
            if kk is not None and 0 <= kk < len(addrs):
                succ = [addrs[kk]]
                if kk >= 1:
                    ntail = True
            elif kk is not None:
                succ = [i["next"]]
            else:
                succ = addrs + [i["next"]]
            if reg in tpos:
                l = list(nidx)
                l[tpos[reg]] = None
                nidx = tuple(l)
        else:
            succ = [i["next"]]
        for sx in succ:
            if sx == nbytes:
                continue
            work.append((sx, nst, nidx, hent, ntail, pc))
    # handler environment_count must equal the env depth of the protected region's first instruction or be reachable
    for h in handlers:
        st = state.get(h["start"])
        if st is not None and h["environment_count"] > st[0] + 0 and False:
            F.append(Finding("handler-env", h["start"], "handler restores %d environments but only %d are pushed at the start of its range" % (h["environment_count"], st[0])))
    return F, state


def _relative_env(ins, starts, block, nbytes):
    """environment depth relative to function entry along normal edges only (first reaching path)"""
    rel = {}
    work = [(0, 0)]
    while work:
        pc, e = work.pop()
        if pc in rel or pc not in starts:
            continue
        rel[pc] = e
        i = ins[starts[pc]]
        e2 = e + env_effect(i["op"], i["_a"], block)
        for sx in successors(i, nbytes):
            if sx != nbytes:
                work.append((sx, e2))
    return rel


def successors(i, nbytes):
    op, a = i["op"], i["_a"]
    if op in UNCONDITIONAL_EXIT:
        return []
    if op in JUMP_ALWAYS:
        return [a["address"][1]]
    if op in JUMP_COND:
        return [a["address"][1], i["next"]]
    if op == "JumpTable":
        return [v for (_, v) in a.get("addresses", ("list", []))[1]] + [i["next"]]
    return [i["next"]]


def check_transitions(block, state, transitions):
    """transitions observed in the running VM inside one frame: (pc_from, pc_to, (d_env, d_binding, d_value)).
    Returns (findings, counters). Normal edges must show exactly the table's effect; exception edges must
    not arrive with fewer entries than the compiled handler code assumes (more = the known leak K4)."""
    F = []
    cnt = {"normal": 0, "exception": 0, "exception_surplus": 0, "ops": {}}
    ins = block["instructions"]
    starts = {i["pc"]: k for k, i in enumerate(ins)}
    handlers = block["handlers"]
    nbytes = block["bytes"]
    for (pf, pt, d) in transitions:
        if pf not in starts:
            F.append(Finding("sample-pc", pf, "the VM executed pc %d which is not an instruction start" % pf))
            continue
        i = ins[starts[pf]]
        if "_a" not in i:
            i["_a"] = parse_args(i["args"])
        op, a = i["op"], i["_a"]
        if pt in successors(i, nbytes) and not (op in ("GeneratorYield", "AsyncGeneratorYield", "Await", "Generator", "AsyncGenerator")):
            exp = (env_effect(op, a, block), binding_effect(op, a), value_effect(op, a))
            cnt["normal"] += 1
            cnt["ops"][op] = cnt["ops"].get(op, 0) + 1
            if tuple(d) != exp:
                F.append(Finding("effect-mismatch", pf, "%s changed (env,binding,value) depths by %s in the VM, the compiled structure assumes %s" % (op, tuple(d), exp)))
            continue
        h = None
        for hh in reversed(handlers):
            if hh["start"] <= pf < hh["end"]:
                h = hh
                break
        if h is not None and pt == h["end"]:
            cnt["exception"] += 1
            s_from, s_entry = state.get(pf), state.get(h["start"])
            if s_from is None or s_entry is None:
                continue
            exp = (h["environment_count"] - s_from[0], s_entry[1] - s_from[1], s_entry[2] - s_from[2])
            sur = (d[0] - exp[0], d[1] - exp[1], d[2] - exp[2])
            if sur[0] != 0 or sur[1] < 0 or sur[2] < 0:
                F.append(Finding("exception-edge-deficit", pf, "exception from %s reached its handler with depth change %s, the handler code assumes %s" % (op, tuple(d), exp)))
            elif sur[1] > 0 or sur[2] > 0:
                cnt["exception_surplus"] += 1
            continue
        if op in ("GeneratorYield", "AsyncGeneratorYield", "Await", "Generator", "AsyncGenerator"):
            continue
        F.append(Finding("unexpected-edge", pf, "the VM went from %s at %d to %d, which is neither a successor nor its handler" % (op, pf, pt)))
    return F, cnt


def check_samples(block, state, samples):
    """samples: list of (pc, [env, binding, value]) observed in the running VM. Returns list of mismatches."""
    out = []
    for pc, obs in samples:
        st = state.get(pc)
        if st is None:
            out.append((pc, None, tuple(obs)))
        elif tuple(obs) != tuple(st):
            out.append((pc, tuple(st), tuple(obs)))
    return out
