"""Deterministic workload for C13: test doubles (as 64-bit patterns) and test texts.

Nothing here uses Python floats: doubles are built from bit patterns or through the exact model
(`models.numtext.dec_to_double`, `round_ratio`).  Every list is a function of the seed only.

Doubles come as (bits, class) pairs, texts as (text, class) pairs; the `class` strings end up in the
evidence histograms of the check.
"""
from .models import numtext as M
from .rng import Rng

SIGN = M.SIGN
HIDDEN = M.HIDDEN
MAXF = M.MAX_FINITE
MIN_NORMAL = 0x0010000000000000

# StrWhiteSpaceChar code points used to decorate texts, and look-alikes that are NOT white space
WS_CHARS = ["\t", "\n", "\v", "\f", "\r", " ", "\u00a0", "\u1680", "\u2000", "\u2001", "\u2002", "\u2003", "\u2004", "\u2005", "\u2006", "\u2007", "\u2008", "\u2009", "\u200a", "\u2028", "\u2029", "\u202f", "\u205f",
            "\u3000", "\ufeff"]
NOT_WS_CHARS = ["\u180e", "\u200b", "\u0085", "\u200c", "\u2060"]


def pow2_bits(k):
    """bit pattern of 2**k, -1074 <= k <= 1023"""
    if k >= -1022:
        return (k + 1023) << 52
    return 1 << (k + 1074)


def pow10_bits(k):
    return M.dec_to_double(1, k)


def neighbours(b, n=1):
    """b-n .. b+n among positive finite patterns"""
    return [x for x in range(b - n, b + n + 1) if 0 < x <= MAXF]


def structured_doubles(thorough=False):
    """seed-independent structured doubles: list of (bits, class)"""
    out = []

    def add(b, cls):
        out.append((b, cls))

    for b in (0, SIGN, M.NAN, M.POS_INF, M.NEG_INF, 0x7FF0000000000001, 0xFFF8000000000000, 0x7FFFFFFFFFFFFFFF):
        add(b, "special")
    # powers of two +-1 ulp; all subnormal boundaries
    step = 1 if thorough else 1
    for k in range(-1074, 1024, step):
        b = pow2_bits(k)
        for x in neighbours(b, 1):
            add(x, "pow2" if k >= -1022 else "pow2-subnormal")
    # powers of ten +-1 ulp
    for k in range(-324, 309):
        b = pow10_bits(k)
        for x in neighbours(b, 1):
            add(x, "pow10")
    # subnormal extremes, min normal, max finite
    for b in list(range(1, 18)) + neighbours(MIN_NORMAL, 3) + [MAXF, MAXF - 1, MAXF - 2]:
        add(b, "range-edge")
    # 2**53 neighbourhood
    b53 = pow2_bits(53)
    for x in range(b53 - 40, b53 + 41):
        add(x, "2^53")
    for k in (31, 32, 63, 64):
        for x in neighbours(pow2_bits(k), 3):
            add(x, "int-edge")
    # notation thresholds: 1e21 (toString / toFixed), 1e-7 and 1e-6 (toString / toPrecision), small powers of ten
    for k in (21, 20, 22, -7, -6, -5, 0, 1, 2, 15, 16, 17):
        for x in neighbours(pow10_bits(k), 4):
            add(x, "notation-threshold")
    # n.5 and n.x5 style decimals (classic toFixed cases), as nearest doubles
    for digits, e in [(5, -1), (15, -1), (25, -1), (35, -1), (1005, -3), (1045, -3), (1255, -3), (8345, -3), (10235, -4), (105, -2), (115, -2),
                      (125, -2), (135, -2), (145, -2), (155, -2), (5, -3), (5, -7), (15, -7), (95, -1), (995, -2), (9995, -3), (99995, -4),
                      (999999999999999, -15), (9999999999999999, -16), (4999999999999999, -16), (5000000000000001, -16),
                      (123456789012345678, -2), (1, -1), (2, -1), (3, -1), (7, -1), (1, -22), (5, -22), (1, -21), (1, -20), (49, -22), (51, -22),
                      (1, -100), (5, -101), (123, -25), (999999, -27), (15, 21), (25, 21), (5, 21), (1, 23), (25, 0), (35, 0), (125, 0), (1234567895, 0)]:
        b = M.dec_to_double(digits, e)
        for x in neighbours(b, 1):
            add(x, "decimal-classic")
    res = []
    for b, cls in out:
        res.append((b, cls))
        if b not in (0, SIGN) and not M.is_nan(b) and cls not in ("special",):
            if (b * 2654435761) & 3 == 0:  # a quarter also negated (deterministic)
                res.append((b | SIGN, cls + "-neg"))
    return res


def random_doubles(rng, n):
    """seeded doubles from several distributions: list of (bits, class)"""
    out = []
    for i in range(n):
        w = rng.below(100)
        if w < 30:
            b = rng.next()
            cls = "uniform-bits"
        elif w < 55:
            # uniform mantissa, binary exponent in the range where decimal notation is positional
            e = rng.range(1023 - 24, 1023 + 72)
            b = (e << 52) | (rng.next() & M.FRAC_MASK)
            cls = "mid-range"
        elif w < 65:
            # short decimals: d digits * 10**-k
            nd = rng.range(1, 8)
            digits = rng.range(1, 10 ** nd - 1)
            k = rng.range(0, nd + 6)
            b = M.dec_to_double(digits, -k)
            cls = "short-decimal"
        elif w < 73:
            # tiny values around the toFixed / toPrecision leading-zero region
            e = rng.range(1023 - 400, 1023 - 20)
            b = (e << 52) | (rng.next() & M.FRAC_MASK)
            cls = "small"
        elif w < 80:
            b = rng.next() & M.FRAC_MASK  # subnormal
            if b == 0:
                b = 1
            cls = "subnormal"
        elif w < 90:
            bits = rng.range(1, 70)
            v = rng.next() & ((1 << bits) - 1) | (1 << (bits - 1))
            b = M.round_ratio(v, 1)
            cls = "integer"
        elif w < 95:
            # few significant bits (many trailing zero bits): exact short binary fractions
            nb = rng.range(1, 20)
            m = (rng.next() & ((1 << nb) - 1)) | 1
            sh = rng.range(-120, 120)
            b = M.round_ratio(m << max(sh, 0), 1 << max(-sh, 0))
            cls = "few-bits"
        else:
            e = rng.range(1023 + 72, 2046)
            b = (e << 52) | (rng.next() & M.FRAC_MASK)
            cls = "large"
        if w >= 30 and rng.chance(0.25):
            b |= SIGN
        out.append((b & ((1 << 64) - 1), cls))
    return out


# ------------------------------------------------------------------------------------------------
# exact ties for toFixed / toExponential / toPrecision

def fixed_ties(rng, per_d=1):
    """(bits, d): doubles x = k / 2**(d+1) with odd k: x * 10**d is exactly a half-integer, so toFixed(d) is a real tie"""
    out = []
    for d in range(0, 101):
        for _ in range(per_d):
            kb = rng.range(1, 53)
            k = (rng.next() & ((1 << kb) - 1)) | 1
            b = M.round_ratio(k, 1 << (d + 1))
            neg, dg, ex = M.exact_decimal(b)
            assert ex == -(d + 1) and dg % 10 == 5, "tie construction failed"
            if k >= (1 << (d + 1)) * M.p10(21):
                continue  # |x| >= 1e21: toFixed falls back to ToString
            out.append((b, d))
    return out


def precision_ties(rng, per_p=1):
    """(bits, p): doubles whose exact decimal expansion has exactly p+1 significant digits, the last being 5:
    toPrecision(p) and toExponential(p-1) are real ties"""
    out = []
    for p in range(1, 101):
        made = 0
        tries = 0
        while made < per_p and tries < 200:
            tries += 1
            # x = k * 2**-j, odd k: digits of k * 5**j
            j = rng.range(1, 140)
            f = 5 ** j
            lo = -(-M.p10(p) // f)
            hi = (M.p10(p + 1) - 1) // f
            hi = min(hi, (1 << 53) - 1)
            if lo < 1:
                lo = 1
            if hi < lo:
                continue
            k = rng.range(lo, hi) | 1
            if k > hi:
                k -= 2
            if k < lo:
                continue
            b = M.round_ratio(k, 1 << j)
            neg, dg, ex = M.exact_decimal(b)
            if len(str(dg)) != p + 1 or dg % 10 != 5:
                continue
            out.append((b, p))
            made += 1
        if p <= 16:
            # integer ties: p+1 digit integers ending in 5
            v = rng.range(M.p10(p - 1), M.p10(p) - 1) * 10 + 5
            if v < (1 << 53):
                out.append((M.round_ratio(v, 1), p))
    return out


def near_half_doubles():
    """(bits, p, E): doubles adjacent to the decimal rounding boundaries (lead + 0.5) * 10**E for short leads `lead`
    (p = number of digits of lead) at every decimal position E from 10**-112 to 10**21: the double nearest to the
    boundary and its two neighbours.  Exercises rounding decisions that depend on digits far beyond the 17th."""
    out = []
    for E in range(-112, 22):
        for lead in (1, 2, 4, 5, 9, 10, 14, 49, 50, 99, 100, 104, 249, 999, 12345, 99999):
            b = M.dec_to_double(lead * 10 + 5, E - 1)
            if not (2 < b < MAXF - 2):
                continue
            for x in (b - 1, b, b + 1):
                out.append((x, len(str(lead)), E))
    return out


# ------------------------------------------------------------------------------------------------
# texts for the three decimal parsers

GRAMMAR_TEXTS = [
    "", " ", "+", "-", ".", "+.", "-.", "1.", ".1", "1e", "1e+", "1e-", "e1", "E1", ".e1", "1.e1", "1e1.5", "1_0", "1n", "0n", "0x", "0b", "0o", "0X",
    "0x1g", "0b12", "0o78", "-0x1", "+0b1", "-0o7", "0x-1", "0x1.8", "0x1p3", "0b1e1", "0X1F", "0B11", "0O17", "0xAbCdEf", "0x00000000001",
    "Infinity", "+Infinity", "-Infinity", "infinity", "INFINITY", "Inf", "inf", "-inf", "+inf", "-Inf", "+infinity", "-INFINITY", "infinit",
    "Infinit", "Infinityx", "Infinity1", "Infinity ", " Infinity", "InfinityInfinity", "+-Infinity", "- Infinity", "Infinitye1",
    "nan", "NaN", "+NaN", "-nan", "NAN", "+nan", "nanx", "-NaN", "1 2", "1,2", "0.0.0", "++1", "--1", "+-1", "-+1", "1e1e1", "1f", "1d", "1L",
    "1e+0x1", "00", "010", "-010", "08", "0.0", "-0", "+0", "-0.0e-0", "0e0", ".0", "-.0", "+.0", "0.", "-0.", " 12 ", "12 px", "12px", "1e5x",
    "1e+5x", "1e-5x", "1ex", "1e+x", "1.5.5", "1..5", ".5.", "5e", "5e+", "5E-", "+.5e1", "-.5E-1", "0e", "0e+", "1e00005", "1e-00005",
    "1e+0000000000000000000000308", "1e-0000000000000000000000324", "\u0661", "\uff11", "\uff11\uff12", "1\u0660", "\u00b2", "\u2160", "1\u2009",
    "\u20091", "1\u00a0", "\ufeff1\ufeff", "\u180e1", "1\u180e", "\u200b1", "1\u200b", "\u00851", "1\u0085", "\u20281\u2029", "\t\n\v\f\r 1 \r\f\v\n\t",
    "1\x002", "\x001", "1\x00", "1/2", "1-1", "1+1", "(1)", "'1'", "1;", "true", "null", "undefined", "1e1000", "-1e1000", "1e-1000", "-1e-1000",
    "0e1000", "0e-1000", "0.0000e99999", "1e99999999999999999999", "1e-99999999999999999999", "0x1e1000", "1e400", "1E400", "1e308", "1e309",
    "1.7976931348623157e308", "1.7976931348623158e308", "1.7976931348623159e308", "1.797693134862315807e308", "1.797693134862315808e308",
    "17976931348623158e292", "0.000017976931348623158e313", "4.9e-324", "5e-324", "2.4703282292062327e-324", "2.4703282292062328e-324",
    "2.47032822920623272e-324", "2.4703282292062327208e-324", "2.4703282292062327209e-324", "2.2250738585072014e-308", "2.2250738585072011e-308",
    "2.225073858507201136e-308", "2.2250738585072012e-308", "2.22507385850720138e-308", "9007199254740993", "9007199254740992.5",
    "9007199254740993.0000000000000000000000000001", "9007199254740992.99999999999999999999999", "9007199254740995", "9007199254740994.5",
    "0.1", "0.2", "0.3", "1.005", "123456789012345678901234567890", "8.41e21", "9e22", "1e23", "8.5e22", "1.0000000000000002",
    "1.00000000000000011102230246251565404236316680908203125", "1.00000000000000011102230246251565404236316680908203124",
    "1.00000000000000011102230246251565404236316680908203126", "1.00000000000000033306690738754696212708950042724609375",
    "0.500000000000000166533453693773481063544750213623046875", "3.0000000000000004", "7.0e-10", "-1e-7", "1e-7", "123e-20",
]

LITERAL_BAD = ["1__0", "1_", "0_1", "0_", "1_.5", "1._5", "1.5_", "1e_1", "1e1_", "1_e1", "0x_1", "0xf_", "0x1__f", "0b_1", "0o_7", "0b1_", "3in", "0b2",
               "0o8", "0xg", "0x", "0b", "0o", "1e", "1e+", "1E-", ".", ".e1", "._1", "1.e_1", "0x1.8", "0b1.1", "1a", "0b12", "0o78", "1_000_", "1__000",
               "0.0_", "0._0", "0e_1", ".1_", "1e+_1", "12e1_", "0_0", "0_8"]
LITERAL_GOOD = ["0", "1", "1_000", "1_0_0_0", "1_000.000_1", "1.5_5", "1e1_0", "1_0e1_0", "1_0.0_1e0_1", "0xf_f", "0XF_F", "0xA_b_C", "0b1_0", "0B1_0_1",
                "0o7_7", "0O1_7", ".5", ".5_5", ".5e1", ".5_0e1_0", "5.", "5.e1", "5.E+1_0", "0.", "0.0", "0.5", "0e5", "0E-5", "0.e1", "1e0", "1E+0",
                "1e-0", "9_007_199_254_740_993", "9_007_199_254_740_993.000_000_1", "1_797_693_134_862_315_8e292", "2.470_328_229_206_232_8e-324",
                "0xffff_ffff_ffff_f800", "0x20_0000_0000_0001", "0x20_0000_0000_0001_1", "0b1" + "0" * 52 + "1", "0b1" + "0" * 52 + "11", "0b1" + "0" * 51 + "1_1",
                "0o400000000000000001", "0o400000000000000003", "0o4000000000000000011", "1e308", "1e309", "1.7976931348623158e308", "1.7976931348623159e308",
                "4.9e-324", "2.4703282292062327e-324", "0.000_000_1", "1e21", "1e-7", "123456789012345678901234567890", "0x" + "f" * 256, "0x" + "f" * 255,
                "0x" + "f" * 13 + "8" + "0" * 242, "0x" + "f" * 13 + "7" + "f" * 242, "0b" + "1" * 1024, "0b" + "1" * 53 + "0" * 971, "0o" + "7" * 342]


def _dec_forms(rng, digits, exp10):
    """several decimal spellings of the exact value digits * 10**exp10 (digits: int >= 0, any size)"""
    ds = str(digits)
    form = rng.below(6)
    if form == 0 or (form == 5 and abs(exp10) > 400):
        return "%se%d" % (ds, exp10)
    if form == 1:
        # d.ddd e(exp)
        return "%s.%se%s%d" % (ds[0], ds[1:] or "0", rng.choice(["", "+"]) if exp10 + len(ds) - 1 >= 0 else "", exp10 + len(ds) - 1)
    if form == 2:
        # 0.ddd E exp
        return "0.%sE%d" % (ds, exp10 + len(ds))
    if form == 3:
        # .ddd e exp
        return ".%se%d" % (ds, exp10 + len(ds))
    if form == 4:
        # shift the point by a random amount
        k = rng.range(0, len(ds))
        return "%s.%se%d" % (ds[:k] or "0", ds[k:], exp10 + len(ds) - k) if k < len(ds) else "%s.e%d" % (ds, exp10) if False else "%se%d" % (ds, exp10)
    # positional, no exponent
    if exp10 >= 0:
        return ds + "0" * exp10
    if -exp10 >= len(ds):
        return "0." + "0" * (-exp10 - len(ds)) + ds
    return ds[:exp10] + "." + ds[exp10:]


def halfway_texts(rng, n):
    """texts denoting exactly the midpoint between two adjacent doubles, and that value nudged up / down in a far digit"""
    out = []
    for i in range(n):
        w = rng.below(10)
        if w < 3:
            b = rng.next() & (MAXF >> 1) | (rng.range(1, 2046) << 52) & MAXF
            b &= MAXF
            if b >= MAXF:
                b = MAXF - 1
        elif w < 6:
            e = rng.range(1023 - 60, 1023 + 70)
            b = (e << 52) | (rng.next() & M.FRAC_MASK)
        elif w < 8:
            b = rng.next() & M.FRAC_MASK or 1  # subnormal
        elif w < 9:
            b = rng.choice([0, 1, 2, MIN_NORMAL - 1, MIN_NORMAL, MAXF - 1, pow2_bits(53), pow2_bits(53) - 1, pow2_bits(0) - 1, pow2_bits(0)])
            if b == 0:
                # midpoint between 0 and the minimum subnormal
                dg, ex = 5 ** 1075, -1075
                out += _nudged(rng, dg, ex, "halfway-zero")
                continue
        else:
            b = pow2_bits(rng.range(-1073, 1023))
            if rng.chance(0.5):
                b -= 1
        dg, ex = M.halfway_decimal(b)
        out += _nudged(rng, dg, ex, "halfway")
    # the overflow threshold 2**1024 - 2**970 (ties to even = Infinity) and neighbours
    dg = (1 << 1024) - (1 << 970)
    out += _nudged(rng, dg, 0, "halfway-overflow")
    return out


def _nudged(rng, dg, ex, cls):
    res = [(_dec_forms(rng, dg, ex), cls + "-exact")]
    extra = rng.choice([1, 3, 20, 60])
    up = dg * M.p10(extra) + 1
    dn = dg * M.p10(extra) - 1
    res.append((_dec_forms(rng, up, ex - extra), cls + "-above"))
    res.append((_dec_forms(rng, dn, ex - extra), cls + "-below"))
    return res


def digit_texts(rng, n):
    """random digit strings with 15..800 digits, points and exponents; exponent edges"""
    out = []
    for i in range(n):
        nd = rng.choice([15, 16, 17, 17, 18, 19, 20, 21, 22, 25, 30, 40, 64, 100, 200, 400, 767, 800]) if rng.chance(0.7) else rng.range(1, 30)
        ds = "".join(str(rng.below(10)) for _ in range(nd))
        if rng.chance(0.1):
            ds = "0" * rng.range(1, 30) + ds
        if rng.chance(0.1):
            ds = ds + "0" * rng.range(1, 400)
        w = rng.below(10)
        if w < 2:
            t = ds
            cls = "digits-int"
        elif w < 5:
            k = rng.range(0, len(ds))
            t = ds[:k] + "." + ds[k:]
            cls = "digits-point"
        else:
            k = rng.range(0, len(ds))
            mant = ds[:k] + "." + ds[k:] if rng.chance(0.6) else ds
            if mant == ".":
                mant = "0."
            z = rng.below(10)
            if z < 4:
                ex = rng.range(-40, 40)
            elif z < 7:
                # aim at the overflow / underflow edges, compensating the digit count
                lead = len(ds[:k].lstrip("0")) if "." in mant else len(ds.lstrip("0"))
                ex = rng.choice([308, 309, 307, -323, -324, -325, -308, -307, 310, -330]) - max(lead - 1, 0) + rng.range(-1, 1)
            elif z < 9:
                ex = rng.range(-400, 400)
            else:
                ex = rng.choice([1000, -1000, 99999, -99999, 2147483647, -2147483648, 4294967296, -4294967297, 10 ** 25, -10 ** 25])
            t = mant + rng.choice("eE") + rng.choice(["", "+"] if ex >= 0 else [""]) + str(ex)
            cls = "digits-exp"
        if t.startswith(".") and (len(t) == 1 or t[1] in "eE"):
            t = "0" + t
        out.append((t, cls))
    return out


def exact_expansion_texts(rng, n):
    """the full exact decimal expansion of random doubles (up to ~770 significant digits) and 17-digit renderings"""
    out = []
    for i in range(n):
        w = rng.below(4)
        if w == 0:
            b = rng.next() & MAXF
            if not M.is_finite(b):
                b = MAXF
        elif w == 1:
            b = (rng.range(1023 - 80, 1023 + 80) << 52) | (rng.next() & M.FRAC_MASK)
        elif w == 2:
            b = rng.next() & M.FRAC_MASK or 1
        else:
            b = (rng.range(1, 60) << 52) | (rng.next() & M.FRAC_MASK)
        if b == 0:
            continue
        neg, dg, ex = M.exact_decimal(b)
        if rng.chance(0.5):
            out.append((_dec_forms(rng, dg, ex), "exact-expansion"))
        else:
            # 17 significant digits (always enough to round-trip), truncated and rounded up variants
            ds = str(dg)
            if len(ds) > 17:
                cut = int(ds[:17])
                e2 = ex + len(ds) - 17
                out.append((_dec_forms(rng, cut, e2), "17-digits-trunc"))
                out.append((_dec_forms(rng, cut + 1, e2), "17-digits-up"))
            else:
                out.append((_dec_forms(rng, dg, ex), "exact-expansion"))
    return out


def nondecimal_texts(rng, n):
    """0x / 0o / 0b forms of all sizes incl. rounding beyond 53 bits and overflow"""
    out = []
    for i in range(n):
        radix, pre = rng.choice([(16, "0x"), (16, "0X"), (8, "0o"), (8, "0O"), (2, "0b"), (2, "0B")])
        w = rng.below(10)
        if w < 3:
            bits = rng.range(1, 64)
            v = rng.next() & ((1 << bits) - 1)
            cls = "nondec-small"
        elif w < 7:
            # 54..120 bit values with interesting low bits (halfway / sticky)
            top = (rng.next() & ((1 << 53) - 1)) | (1 << 52)
            extra = rng.range(1, 70)
            low = rng.choice([0, 1, (1 << (extra - 1)), (1 << (extra - 1)) + 1, (1 << (extra - 1)) - 1, (1 << extra) - 1, rng.next() & ((1 << extra) - 1)])
            v = (top << extra) | (low & ((1 << extra) - 1))
            cls = "nondec-round"
        elif w < 9:
            bits = rng.range(65, 1100)
            v = 0
            for _ in range(bits // 64 + 1):
                v = (v << 64) | rng.next()
            v &= (1 << bits) - 1
            v |= 1 << (bits - 1)
            cls = "nondec-big"
        else:
            bits = rng.choice([1023, 1024, 1025])
            v = ((1 << 53) - 1) << (bits - 53)
            if rng.chance(0.5):
                v |= 1 << (bits - 54)
            if rng.chance(0.5):
                v |= 1
            cls = "nondec-overflow-edge"
        t = M.int_to_radix(v, radix)
        if radix == 16 and rng.chance(0.5):
            t = t.upper()
        if rng.chance(0.1):
            t = "0" * rng.range(1, 5) + t
        out.append((pre + t, cls))
    return out


def decorate_ws(rng, t):
    """surround a text with StrWhiteSpace (valid) or look-alikes (invalid); returns (text, class suffix)"""
    w = rng.below(10)
    if w < 6:
        a = "".join(rng.choice(WS_CHARS) for _ in range(rng.range(0, 3)))
        b = "".join(rng.choice(WS_CHARS) for _ in range(rng.range(0, 3)))
        return a + t + b, "+ws"
    if w < 8:
        return rng.choice(NOT_WS_CHARS) + t, "+notws-lead"
    return t + rng.choice(NOT_WS_CHARS), "+notws-trail"


def sign_it(rng, t):
    return rng.choice(["-", "+", "-", ""]) + t


def parser_texts(rng, n):
    """(text, class) for Number()/parseFloat(); literal candidates are derived by the check from the undecorated ones"""
    out = [(t, "grammar") for t in GRAMMAR_TEXTS]
    k = max(1, n // 10)
    out += halfway_texts(rng.fork("half"), k)
    out += digit_texts(rng.fork("digits"), 4 * k)
    out += exact_expansion_texts(rng.fork("exact"), 2 * k)
    out += nondecimal_texts(rng.fork("nondec"), k)
    return out


# ------------------------------------------------------------------------------------------------
# parseInt and toString(radix)

def to_int32(v):
    v &= 0xFFFFFFFF
    return v - (1 << 32) if v >= (1 << 31) else v


def parseint_cases(rng, n):
    """(text, radix_js, radix_int32, class): radix_js is the JS source of the radix argument"""
    out = []
    fixed = [("123", "undefined", 0), ("  -0x1F", "undefined", 0), ("0x1F", "16", 16), ("0X1f", "0", 0), ("0x1F", "10", 10), ("0x", "undefined", 0),
             ("0x", "16", 16), ("0xg", "16", 16), ("-0x", "0", 0), ("z", "36", 36), ("Z", "36", 36), ("12", "2", 2), ("2", "2", 2), ("", "10", 10), ("-", "10", 10),
             ("+", "10", 10), ("-0", "undefined", 0), ("+0", "10", 10), ("-0x0", "16", 16), ("1e3", "undefined", 0), ("1_0", "10", 10), ("1.9", "10", 10),
             ("11", "37", 37), ("11", "1", 1), ("11", "-1", -1), ("11", "4294967312", 16), ("11", "-4294967280", 16), ("11", "16.9", 16), ("11", "NaN", 0),
             ("11", "Infinity", 0), ("11", "2147483648", -2147483648), ("11", "4294967296", 0), ("11", "36", 36), ("11", "2", 2), ("\uff11\uff12", "10", 10),
             ("\u0661", "10", 10), ("1\u0661", "10", 10), ("\u00a0\ufeff\u2003 42", "10", 10), ("\u180e42", "10", 10), ("\u200b42", "10", 10), ("42\u180e", "10", 10),
             ("123abc", "10", 10), ("abc", "10", 10), ("abc", "16", 16), ("aBc", "12", 12), ("09", "undefined", 0), ("010", "undefined", 0), ("010", "8", 8),
             ("0b11", "undefined", 0), ("0o17", "undefined", 0), ("0b11", "2", 2), ("0b11", "16", 16), ("--1", "10", 10), ("+-1", "10", 10), ("- 1", "10", 10),
             ("Infinity", "10", 10), ("Infinity", "36", 36), ("NaN", "36", 36), ("9007199254740993", "10", 10), ("9007199254740995", "10", 10),
             ("9007199254740992", "10", 10), ("1234567890123456789", "10", 10), ("12345678901234567890", "10", 10), ("18446744073709551615", "10", 10),
             ("18446744073709551616", "10", 10), ("99999999999999999999", "10", 10), ("00000000000000000000000012345678901234567890", "10", 10),
             ("123456789012345678901", "10", 10), ("1" + "0" * 30, "10", 10), ("1" + "0" * 400, "10", 10), ("9" * 309, "10", 10)]
    for t, rj, ri in fixed:
        out.append((t, rj, ri, "fixed"))
    for i in range(n):
        w = rng.below(100)
        radix = rng.range(2, 36)
        if w < 35:
            # integers up to 2**70 in every radix
            bits = rng.range(1, 70)
            if radix not in M.EXACT_RADICES and rng.chance(0.7):
                bits = rng.range(1, 53)
            v = (rng.next() & ((1 << bits) - 1)) | (1 << (bits - 1))
            if bits > 64:
                v = ((rng.next() << 6) | rng.below(64)) & ((1 << bits) - 1) | (1 << (bits - 1))
            t = M.int_to_radix(v, radix)
            cls = "int<=2^70"
        elif w < 55:
            # radix 10 around 2**53..10**20: at most 20 significant digits (the spec's exactness limit)
            radix = 10
            nd = rng.range(16, 20)
            t = str(rng.range(1, 9)) + "".join(str(rng.below(10)) for _ in range(nd - 1))
            cls = "dec<=20digits"
        elif w < 62:
            radix = 10
            nd = rng.choice([21, 22, 25, 40, 100, 308, 309, 310, 400])
            t = str(rng.range(1, 9)) + "".join(str(rng.below(10)) for _ in range(nd - 1))
            cls = "dec>20digits"
        elif w < 85:
            # power-of-two radices: long digit strings, halfway and sticky patterns
            radix = rng.choice([2, 4, 8, 16, 32])
            top = (rng.next() & ((1 << 53) - 1)) | (1 << 52)
            extra = rng.choice([1, 2, 3, 5, 11, 12, 30, 64, 200, 960, 971, 972, 1000])
            extra = rng.range(1, extra)
            low = rng.choice([0, 1, (1 << (extra - 1)), (1 << (extra - 1)) + 1, (1 << (extra - 1)) - 1, (1 << extra) - 1, rng.next() & ((1 << min(extra, 64)) - 1)])
            v = (top << extra) | (low & ((1 << extra) - 1))
            t = M.int_to_radix(v, radix)
            cls = "pow2-radix-long"
        elif w < 92:
            # 2**53 neighbourhood in any radix (exact for every radix: the model accepts values <= 2**53 only for the approximated ones)
            v = (1 << 53) + rng.range(-64, 64)
            t = M.int_to_radix(v, radix)
            cls = "2^53"
        else:
            bits = rng.range(1, 40)
            v = rng.next() & ((1 << bits) - 1)
            t = M.int_to_radix(v, radix) + rng.choice(["", ".5", "e5", "_1", "z", " 1", "n", "\u00a0", "g", "/", ":", "@", "`", "{", "G", "[", "\u0131", "\u212a"])
            cls = "trailing"
        if rng.chance(0.3):
            t = t.upper()
        if rng.chance(0.2):
            t = rng.choice(["-", "+", "-"]) + t
        if rng.chance(0.15):
            t = "".join(rng.choice(WS_CHARS) for _ in range(rng.range(1, 3))) + t
        if radix == 16 and rng.chance(0.3):
            sg = t[:1] if t[:1] in "+-" else ""
            body = t[len(sg):]
            if body[:1] not in WS_CHARS:
                t = sg + rng.choice(["0x", "0X"]) + body
        if radix == 10 and rng.chance(0.4):
            rj, ri = rng.choice([("undefined", 0), ("0", 0)])
        else:
            rj, ri = str(radix), radix
        out.append((t, rj, ri, cls))
    return out


def radix_int_doubles(rng, n):
    """(bits, radix, class): integral doubles for Number.prototype.toString(radix)"""
    out = []
    for radix in range(2, 37):
        for v in [0, 1, radix - 1, radix, radix + 1, radix ** 2 - 1, radix ** 2, radix ** 5, radix ** 10 - 1, (1 << 31) - 1, 1 << 31, (1 << 32) - 1, 1 << 32,
                  (1 << 53) - 1, 1 << 53, (1 << 53) - 2]:
            if v < (1 << 53) + 1:
                out.append((M.round_ratio(v, 1), radix, "radix-fixed"))
                if v:
                    out.append((M.round_ratio(v, 1) | SIGN, radix, "radix-fixed"))
        out.append((SIGN, radix, "radix-special"))
        out.append((M.NAN, radix, "radix-special"))
        out.append((M.POS_INF, radix, "radix-special"))
        out.append((M.NEG_INF, radix, "radix-special"))
    for i in range(n):
        radix = rng.range(2, 36)
        w = rng.below(10)
        if w < 6:
            bits = rng.range(1, 53)
            v = (rng.next() & ((1 << bits) - 1)) | (1 << (bits - 1))
            b = M.round_ratio(v, 1)
            cls = "radix-int<2^53"
        elif w < 9:
            # any integral double in a power-of-two radix: the exact digits are the unique minimal form
            radix = rng.choice([2, 4, 8, 16, 32])
            e = rng.range(1023 + 52, 2046)
            b = (e << 52) | (rng.next() & M.FRAC_MASK)
            cls = "radix-pow2-big"
        else:
            # just below 2**53 (the last integers with a unique form in every radix)
            b = M.round_ratio((1 << 53) - 1 - rng.below(4096), 1)
            cls = "radix-below-2^53"
        if rng.chance(0.2):
            b |= SIGN
        out.append((b, radix, cls))
    return out
