"""gen_async — deterministic generator of closed, terminating promise / async programs (property C16).

A program is a list of top-level statements, ONE LINE EACH (so it can be cut at line boundaries into several
scripts), ending with `print('sync-end');` and an expression statement (the completion value).  Every callback
prints a unique tag, so the print trace IS the order in which jobs ran.  The first letter of a tag says what the
generator knows about the print site:

    r<N>  runs in a promise job (reaction callback, code after an `await`/`yield` of an async body), at most once
    q<N>  runs in a promise job, possibly several times (site inside a named function / loop / thenable)
    s<N>  at most once, no constraint on when (synchronous part of a once-only construct)
    x<N>  no constraint

`r`/`q` sites can never print before `sync-end` when the program is evaluated as ONE script; `r`/`s` tags can
appear at most once in a trace.  The checker (vlib/checks/c16.py) verifies both on the observed traces.

Rules that make every program closed, deterministic and terminating:
  * a name is only referenced by text generated after its declaration; (async) functions and async generators
    only call earlier-declared ones (call DAG), loops are bounded by literals, iterables are finite;
  * all top-level bindings are `var`/function declarations (they survive a cut into several scripts);
  * top-level statements never throw synchronously (everything that may throw sits in an executor / async body /
    callback, where it becomes a rejection);
  * no Date / Math.random / error-message text / Function.prototype.toString; `Promise.withResolvers` is not used
    (absent in node 20): the preamble defines `defer()`.

`avoid` flags (shapes the main stream does not produce; each is documented where it is tested):
  see AVOID_DOC below.
"""
from .rng import Rng

AVOID_DOC = {
    # flag: reason
    "async_from_sync_close": "for-await / yield* over a SYNC iterable that yields something that may reject (rejected or pending "
                             "promise, arbitrary thenable): ES2025 (ecma262 PR #2600) closes the sync iterator in that case and boa "
                             "does so; V8 11.3 (node 20) predates the change, so V8 is no oracle for the iterator's return()/finally "
                             "trace.  Under the flag the elements of sync iterables given to for-await / yield* are plain values, "
                             "Promise.resolve(plain value) or a thenable that resolves with a plain value.  The same spec change makes "
                             "%AsyncFromSyncIteratorPrototype%.throw reject with a TypeError (after closing) when the sync iterator has no "
                             "`throw` method, where ES2024/V8 11.3 reject with the thrown value: under the flag `yield*` in an async generator "
                             "is not applied to arrays / strings (their iterators have no `throw`); sync generators stay.",
}

PREAMBLE = [
    "var n = 0;",
    "function defer(){ var d = {}; d.p = new Promise(function(a, b){ d.res = a; d.rej = b; }); return d; }",
    "function thrower(v){ throw v; }",
]
FINAL = "'fin:' + n"


class Ctx:
    __slots__ = ("after", "once", "is_async", "is_gen", "depth", "locals", "in_loop")

    def __init__(self, after=False, once=False, is_async=False, is_gen=False, depth=0, locals=None, in_loop=False):
        self.after = after
        self.once = once
        self.is_async = is_async
        self.is_gen = is_gen
        self.depth = depth
        self.locals = list(locals or [])
        self.in_loop = in_loop

    def copy(self, **kw):
        c = Ctx(self.after, self.once, self.is_async, self.is_gen, self.depth, self.locals, self.in_loop)
        for k, v in kw.items():
            setattr(c, k, v)
        return c

    def inner(self, **kw):
        """context of a nested FUNCTION (not async unless said)"""
        c = Ctx(self.after, self.once, False, False, self.depth + 1, self.locals, False)
        for k, v in kw.items():
            setattr(c, k, v)
        return c


class Program:
    def __init__(self, stmts, final, features, tags, spin=0):
        self.stmts = stmts
        self.final = final
        self.features = features
        self.tags = tags
        self.spin = spin   # iterations of the synchronous busy loop (0: none); lets large instruction budgets expire

    @property
    def src(self):
        return "\n".join(self.stmts)

    @property
    def preamble_len(self):
        return len(PREAMBLE)


def pr(tag, *args):
    return "print('%s'%s);" % (tag, "".join(", " + a for a in args))


class Gen:
    def __init__(self, rng, avoid=frozenset()):
        self.r = rng
        self.avoid = frozenset(avoid)
        self.tagn = 0
        self.varn = 0
        self.defs = []     # deferred objects: dK.p / dK.res / dK.rej
        self.proms = []    # promise-valued globals
        self.afuncs = []   # call templates of async functions: "af3(%s)"
        self.agens = []    # (call template, body contains yield*) of async generator functions; the yield* mark served the
        #                    avoid flag of findings C16-K1/K4 (fixed in e5d123b) and is kept for future shape flags
        self.gobjs = []    # async generator objects
        self.pclasses = []  # Promise subclasses
        self.labeln = 0
        self.fuel = 0
        self.cur_ystar = False
        self.feat = {}
        self.tags = {}

    # ------------------------------------------------------------ small things
    def use(self, f):
        self.feat[f] = self.feat.get(f, 0) + 1

    def tag(self, c):
        self.tagn += 1
        letter = ("r" if c.once else "q") if c.after else ("s" if c.once else "x")
        t = "%s%d" % (letter, self.tagn)
        self.tags[t] = letter
        return t

    def fresh(self, prefix):
        self.varn += 1
        return "%s%d" % (prefix, self.varn)

    def spend(self, k=1):
        self.fuel -= k
        return self.fuel > 0

    def val(self, c, err_ok=True):
        r = self.r
        k = r.below(100)
        if c.locals and k < 28:
            return r.choice(c.locals)
        if k < 60:
            return str(r.below(10))
        if k < 74:
            return "'%s'" % r.choice("abcde")
        if k < 79:
            return "undefined"
        if k < 82:
            return "null"
        if k < 85:
            return "n"
        if err_ok and k < 95:
            return "new %s('e')" % r.choice(["TypeError", "RangeError", "Error"])
        return "true"

    def plain(self):
        r = self.r
        k = r.below(10)
        return str(r.below(10)) if k < 6 else "'%s'" % r.choice("abcde") if k < 8 else r.choice(["undefined", "null", "true", "n"])

    def awaitable(self, c):
        """value | promise | thenable"""
        r = self.r
        k = r.below(100)
        if k < 30 or not self.spend():
            return self.val(c)
        if k < 80:
            return self.pexpr(c)
        return self.thenable(c)

    # ------------------------------------------------------------ thenables
    def thenable(self, c):
        r = self.r
        self.use("thenable")
        if r.below(100) < 6:
            self.use("thenable_noncallable")
            return "{then: %s}" % r.choice(["5", "null", "undefined", "'s'"])
        b = c.inner(after=True, once=False)
        body = [pr(self.tag(b))]
        m = r.below(100)
        if m < 32:
            body.append("res(%s);" % self.val(b))
        elif m < 46:
            body.append("rej(%s);" % self.val(b))
        elif m < 54:
            body.append("res(%s); res(%s);" % (self.val(b), self.val(b)))
        elif m < 60:
            body.append("res(%s); rej(%s);" % (self.val(b), self.val(b)))
        elif m < 66:
            body.append("throw %s;" % self.val(b))
        elif m < 72:
            body.append("res(%s); throw %s;" % (self.val(b), self.val(b)))
        elif m < 80 and self.spend(2):
            self.use("thenable_resolves_promise")
            body.append("res(%s);" % self.pexpr(b))
        elif m < 86 and self.spend(2) and b.depth < 4:
            self.use("thenable_nested")
            body.append("res(%s);" % self.thenable(b))
        elif m < 95:
            self.use("thenable_async_settle")
            body.append("Promise.resolve().then(function(){ %s %s(%s); });" % (pr(self.tag(b)), r.choice(["res", "res", "rej"]), self.val(b)))
        else:
            self.use("thenable_never")
        fn = "function(res, rej){ %s }" % " ".join(body)
        if r.chance(0.35):
            self.use("thenable_getter")
            gt = self.tag(c.copy(once=False))
            if r.chance(0.12):
                self.use("thenable_getter_throws")
                return "{get then(){ %s throw %s; }}" % (pr(gt), self.val(c))
            return "{get then(){ %s return %s; }}" % (pr(gt), fn)
        return "{then: %s}" % fn

    # ------------------------------------------------------------ callbacks (run in reaction jobs)
    def callback(self, c, kind="then"):
        r = self.r
        b = c.inner(after=True)
        params = ""
        shown = []
        if kind != "finally":
            v = self.fresh("v")
            params = v
            b.locals = b.locals + [v]
            shown = [v]
            if kind == "any_catch" or r.chance(0.06):
                shown = [v, "%s && %s.errors" % (v, v)]
        t = self.tag(b)
        if r.chance(0.12) and self.spend(2):
            # an async callback: its result promise adds ticks, its body awaits
            self.use("async_callback")
            b.is_async = True
            body = [pr(t, *shown)] + self.abody(b, r.range(1, 2))
            return "async function(%s){ %s }" % (params, " ".join(body))
        body = [pr(t, *shown)]
        for _ in range(r.weighted([(0, 5), (1, 4), (2, 1)])):
            if self.spend():
                body.append(self.action(b))
        rt = self.ret(b)
        form = r.below(10)
        if form < 2 and len(body) == 1 and (rt.startswith("return ") or rt == ""):
            self.use("arrow_expr_callback")
            e = rt[len("return "):-1] if rt else "undefined"
            if e.startswith("{"):
                e = "(" + e + ")"
            return "(%s) => (%s, %s)" % (params, body[0][:-1], e)
        if rt:
            body.append(rt)
        if form < 5:
            return "(%s) => { %s }" % (params, " ".join(body))
        return "function(%s){ %s }" % (params, " ".join(body))

    def ret(self, c):
        r = self.r
        k = r.below(100)
        if k < 34:
            return ""
        if k < 58:
            return "return %s;" % self.val(c)
        if k < 70 and self.spend(2):
            self.use("return_promise")
            return "return %s;" % self.pexpr(c)
        if k < 78 and self.spend(2):
            self.use("return_thenable")
            return "return %s;" % self.thenable(c)
        if k < 91:
            self.use("throw_in_callback")
            return "throw %s;" % self.val(c)
        if self.defs:
            self.use("return_pending")
            return "return %s.p;" % r.choice(self.defs)
        return ""

    def action(self, c):
        """a statement with a side effect on the job queue / shared state"""
        r = self.r
        opts = [("n", 3)]
        if self.defs:
            opts.append(("settle", 6))
        if c.depth < 4:
            opts.append(("micro", 2))
            if self.proms:
                opts.append(("attach", 4))
            if self.afuncs:
                opts.append(("call", 3))
            if self.gobjs:
                opts.append(("greq", 3))
        k = r.weighted(opts)
        if k == "n":
            return "n = (n * 7 + %d) %% 1000003;" % r.below(7)
        if k == "settle":
            self.use("settle_in_job" if c.after else "settle_sync")
            d = r.choice(self.defs)
            if r.chance(0.2) and self.spend(2):
                self.use("resolve_with_promise")
                return "%s.res(%s);" % (d, self.pexpr(c) if r.chance(0.7) else self.thenable(c))
            return "%s.%s(%s);" % (d, r.choice(["res", "res", "rej"]), self.val(c))
        if k == "micro":
            if c.after:
                self.use("job_enqueues_job")
            return "Promise.resolve(%s).then(%s);" % (self.val(c, err_ok=False), self.callback(c))
        if k == "attach":
            if c.after:
                self.use("job_enqueues_job")
                self.use("late_handler")
            return "%s%s;" % (r.choice(self.proms), self.link(c))
        if k == "call":
            e = r.choice(self.afuncs) % self.awaitable(c)
            if r.chance(0.6):
                e += self.link(c)
            return e + ";"
        g = self.pick_gobj()
        return "%s.then(%s, %s);" % (self.greq(c, g), self.callback(c), self.callback(c))

    # ------------------------------------------------------------ promise expressions
    def link(self, c):
        r = self.r
        k = r.below(100)
        if k < 34:
            return ".then(%s)" % self.callback(c)
        if k < 52:
            return ".then(%s, %s)" % (self.callback(c), self.callback(c))
        if k < 68:
            self.use("catch")
            return ".catch(%s)" % self.callback(c)
        if k < 84:
            self.use("finally")
            return ".finally(%s)" % self.callback(c, "finally")
        if k < 92:
            return ".then(undefined, %s)" % self.callback(c)
        self.use("then_passthrough")
        return r.choice([".then()", ".then(1, 2)", ".catch()", ".finally()"])

    def ctor(self):
        if self.pclasses and self.r.chance(0.3):
            self.use("subclass_use")
            return self.r.choice(self.pclasses)
        return "Promise"

    def leaf_promise(self, c):
        r = self.r
        k = r.below(100)
        if k < 35:
            return "%s.resolve(%s)" % (self.ctor(), self.val(c))
        if k < 55:
            self.use("reject")
            return "%s.reject(%s)" % (self.ctor(), self.val(c))
        if k < 78 and self.proms:
            return r.choice(self.proms)
        if self.defs:
            self.use("pending_promise")
            return "%s.p" % r.choice(self.defs)
        return "Promise.resolve(%s)" % self.val(c)

    def pick_gobj(self):
        return self.r.choice(self.gobjs)

    def greq(self, c, gy):
        r = self.r
        g, ystar = gy
        k = r.below(100)
        if k < 60:
            return "%s.next(%s)" % (g, self.val(c, err_ok=False))
        if k < 82:
            self.use("gen_return_request")
            return "%s.return(%s)" % (g, self.awaitable(c) if r.chance(0.4) else self.val(c))
        self.use("gen_throw_request")
        return "%s.throw(%s)" % (g, self.val(c))

    def pexpr(self, c):
        r = self.r
        if not self.spend() or c.depth > 5:
            return self.leaf_promise(c)
        opts = [("leaf", 8), ("newp", 6), ("chain", 9), ("comb", 5), ("aiife", 3)]
        if self.afuncs:
            opts.append(("afcall", 6))
        if self.gobjs:
            opts.append(("greq", 3))
        k = r.weighted(opts)
        if k == "leaf":
            return self.leaf_promise(c)
        if k == "newp":
            return self.new_promise(c)
        if k == "chain":
            e = self.pexpr(c.copy(depth=c.depth + 1))
            for _ in range(r.weighted([(1, 5), (2, 3), (3, 1)])):
                e += self.link(c)
            return e
        if k == "comb":
            return self.combinator(c)
        if k == "aiife":
            return self.aiife(c)
        if k == "afcall":
            self.use("async_call")
            return r.choice(self.afuncs) % self.awaitable(c)
        return self.greq(c, self.pick_gobj())

    def new_promise(self, c):
        r = self.r
        self.use("new_promise")
        e = c.inner()
        body = [pr(self.tag(e))]
        m = r.below(100)
        if m < 25:
            body.append("res(%s);" % self.val(e))
        elif m < 38:
            body.append("rej(%s);" % self.val(e))
        elif m < 52 and self.spend(2):
            self.use("resolve_with_promise")
            body.append("res(%s);" % self.pexpr(e))
        elif m < 62 and self.spend(2):
            self.use("resolve_with_thenable")
            body.append("res(%s);" % self.thenable(e))
        elif m < 70:
            self.use("executor_throws")
            body.append("throw %s;" % self.val(e))
        elif m < 78:
            body.append("res(%s); rej(%s);" % (self.val(e), self.val(e)))
        elif m < 84:
            body.append("rej(%s); throw %s;" % (self.val(e), self.val(e)))
        elif m < 95:
            self.use("executor_settles_in_job")
            j = e.inner(after=True)
            body.append("Promise.resolve().then(function(){ %s %s(%s); });" % (pr(self.tag(j)), r.choice(["res", "res", "rej"]), self.val(j)))
        else:
            self.use("never_settles")
        return "new %s(function(res, rej){ %s })" % (self.ctor(), " ".join(body))

    def combinator(self, c):
        r = self.r
        name = r.choice(["all", "allSettled", "any", "race"])
        self.use("Promise." + name)
        k = r.weighted([(0, 1), (1, 2), (2, 5), (3, 5), (4, 2)])
        if k == 0:
            self.use("combinator_empty")
        els = []
        for _ in range(k):
            m = r.below(100)
            if m < 25 or not self.spend():
                els.append(self.val(c))
            elif m < 80:
                els.append(self.pexpr(c.copy(depth=c.depth + 1)))
            else:
                els.append(self.thenable(c))
        arr = "[%s]" % ", ".join(els)
        m = r.below(100)
        if m < 10:
            self.use("combinator_set")
            arr = "new Set(%s)" % arr
        elif m < 20:
            self.use("combinator_generator")
            i = c.inner(once=False)
            arr = "(function*(){ %s %s })()" % (pr(self.tag(i)), " ".join("yield %s;" % (("(" + e + ")") if e.startswith("{") else e) for e in els))
        return "%s.%s(%s)" % (self.ctor(), name, arr)

    def aiife(self, c):
        r = self.r
        self.use("async_iife")
        b = c.inner(is_async=True)
        body = " ".join(self.abody(b, r.range(1, 4)))
        if r.chance(0.4):
            self.use("async_arrow")
            return "(async () => { %s })()" % body
        return "(async function(){ %s })()" % body

    # ------------------------------------------------------------ async bodies
    def abody(self, c, nst, top=True):
        """statements of an async function / async generator body; c.after is updated as awaits are passed"""
        out = []
        done = False
        for _ in range(nst):
            if not self.spend():
                break
            s, done = self.astmt(c)
            out.append(s)
            if done:
                break
        if top and not done:
            rt = self.ret(c)
            if rt:
                if c.is_gen and rt.startswith("return "):
                    self.use("gen_return_value")
                out.append(rt)
        return out

    def astmt(self, c):
        """-> (statement text, body certainly ends here)"""
        r = self.r
        opts = [("print", 3), ("await", 8), ("awaitexpr", 4), ("try", 5), ("action", 4), ("if", 2)]
        if c.depth < 4:
            opts += [("forawait", 4), ("loop", 2), ("tryret", 2)]
        if c.is_gen:
            opts += [("yield", 10), ("yieldstar", 3), ("yieldexpr", 3)]
        k = r.weighted(opts)
        if k == "awaitexpr":
            return self.await_expr(c), False
        if k == "yieldexpr":
            self.use("yield_in_expression")
            ys = ["yield %s" % (self.awaitable_paren(c) if r.chance(0.4) else self.val(c)) for _ in range(r.range(2, 3))]
            c.after = True
            w = self.fresh("y")
            c.locals.append(w)
            form = r.choice(["[%s]", "{a: %s}", "[%s].length"])
            inner = ", ".join("(%s)" % y for y in ys) if "a:" not in form else ", b: ".join("(%s)" % y for y in ys[:2])
            return "var %s = %s; %s" % (w, form % inner, pr(self.tag(c), w)), False
        if k == "print":
            return pr(self.tag(c), *([r.choice(c.locals)] if c.locals and r.chance(0.5) else [])), False
        if k == "await":
            self.use("await")
            a = self.awaitable(c)
            self.use("await_thenable" if a.startswith("{") else "await_promise" if ("Promise" in a or "(" in a or ".p" in a) else "await_value")
            if a.startswith("{"):
                a = "(" + a + ")"
            c.after = True
            if r.chance(0.75):
                w = self.fresh("w")
                c.locals.append(w)
                return "var %s = await %s; %s" % (w, a, pr(self.tag(c), w)), False
            return "await %s; %s" % (a, pr(self.tag(c))), False
        if k == "try":
            self.use("try_in_async")
            entry_after = c.after
            t = c.copy()
            inner = self.abody(t, r.range(1, 3), top=False)
            if r.chance(0.45):
                inner.append(r.choice(["throw %s;" % self.val(t), "await Promise.reject(%s);" % self.val(t)]))
            e = self.fresh("e")
            parts = ["try { %s }" % " ".join(inner)]
            has_catch = r.chance(0.7)
            fin_after = entry_after
            if has_catch:
                cc = c.copy(after=entry_after)
                cc.locals = c.locals + [e]
                cb = [pr(self.tag(cc), e)] + (self.abody(cc, 1, top=False) if r.chance(0.4) else [])
                parts.append("catch (%s) { %s }" % (e, " ".join(cb)))
            if not has_catch or r.chance(0.5):
                self.use("finally_in_async")
                fc = c.copy(after=entry_after)
                fb = [pr(self.tag(fc))]
                if r.chance(0.5):
                    self.use("await_in_finally")
                    fb.append("await %s;" % self.awaitable_paren(fc))
                    fc.after = True
                    fb.append(pr(self.tag(fc)))
                    fin_after = True
                parts.append("finally { %s }" % " ".join(fb))
            c.after = fin_after
            return " ".join(parts), False
        if k == "tryret":
            self.use("return_through_finally")
            t = c.copy()
            inner = self.abody(t, r.range(0, 2), top=False)
            inner.append(r.choice(["return %s;" % self.awaitable_paren(t), "throw %s;" % self.val(t)]))
            fc = c.copy()
            fb = [pr(self.tag(fc))]
            if r.chance(0.7):
                self.use("await_in_finally")
                fb.append("await %s;" % self.awaitable_paren(fc))
                fc.after = True
                fb.append(pr(self.tag(fc)))
            if c.is_gen and r.chance(0.3):
                self.use("yield_in_finally")
                fb.append("yield %s;" % self.val(fc))
            return "try { %s } finally { %s }" % (" ".join(inner), " ".join(fb)), True
        if k == "action":
            return self.action(c), False
        if k == "if":
            cond = r.choice(["n % 2", "n % 3 === 0"] + ["%s === %s" % (l, self.val(c, err_ok=False)) for l in c.locals[:2]])
            a = c.copy()
            b = c.copy()
            sa = self.abody(a, r.range(1, 2), top=False)
            sb = self.abody(b, r.range(0, 1), top=False)
            c.after = a.after and b.after
            return "if (%s) { %s } else { %s }" % (cond, " ".join(sa), " ".join(sb)), False
        if k == "forawait":
            self.use("for_await")
            x = self.fresh("x")
            labeled = r.chance(0.2)
            it = self.iterable(c.copy(once=False) if labeled else c)   # evaluated once per round of the labelled outer loop
            b = c.copy(after=True, once=False, in_loop=True, depth=c.depth + 1)
            b.locals = c.locals + [x]
            body = [pr(self.tag(b), x)]
            if r.chance(0.35):
                body.append("await %s;" % self.awaitable_paren(b))
                body.append(pr(self.tag(b)))
            if r.chance(0.4):
                ex = r.choice(["break;", "continue;", "return %s;" % self.val(b), "throw %s;" % self.val(b)])
                self.use("for_await_exit_" + ex.split(";")[0].split(" ")[0])
                body.append("if (%s === %s) %s" % (x, r.choice(["1", "2", "'a'", x]), ex))
            c.after = True
            decl = r.choice(["var", "let", "const"])
            loop = "for await (%s %s of %s) { %s }" % (decl, x, it, " ".join(body))
            if labeled:
                self.use("labeled_for_await")
                self.labeln += 1
                L, j = "L%d" % self.labeln, self.fresh("j")
                jump = r.choice(["continue %s;" % L, "break %s;" % L])   # `break L` was finding C16-K2 (fixed in 4f1f2df)
                inner = "for await (%s %s of %s) { %s if (%s === %s) %s }" % (decl, x, it, " ".join(body), x, r.choice(["1", "2", "'a'", x]), jump)
                loop = "%s: for (var %s = 0; %s < 2; %s++) { %s %s }" % (L, j, j, j, inner, pr(self.tag(b)))
            return loop, False
        if k == "loop":
            self.use("await_in_loop")
            i = self.fresh("i")
            b = c.copy(once=False, in_loop=True, depth=c.depth + 1)
            b.locals = c.locals + [i]
            a = self.awaitable_paren(b)
            b.after = True
            body = "await %s; %s" % (a, pr(self.tag(b), i))
            c.after = True
            return "for (var %s = 0; %s < %d; %s++) { %s }" % (i, i, r.range(1, 3), i, body), False
        if k == "yield":
            self.use("yield")
            y = self.awaitable_paren(c) if r.chance(0.5) else self.val(c)
            c.after = True
            if r.chance(0.6):
                w = self.fresh("y")
                c.locals.append(w)
                return "var %s = yield %s; %s" % (w, y, pr(self.tag(c), w)), False
            return "yield %s; %s" % (y, pr(self.tag(c))), False
        # yield*
        self.use("yield_star")
        self.cur_ystar = True
        it = self.iterable(c, star=True)
        c.after = True
        w = self.fresh("y")
        c.locals.append(w)
        return "var %s = yield* %s; %s" % (w, it, pr(self.tag(c), w)), False

    def num_awaitable(self, c):
        v = str(self.r.range(1, 6))
        k = self.r.below(10)
        if k < 4:
            return v
        if k < 8:
            return "Promise.resolve(%s)" % v
        self.use("thenable")
        return "({then: function(res){ %s res(%s); }})" % (pr(self.tag(c.inner(after=True, once=False))), v)

    def await_expr(self, c):
        """awaits in expression positions: operands / elements evaluated before the suspension must survive it"""
        r = self.r
        self.use("await_in_expression")
        A = lambda: "await %s" % self.awaitable_paren(c)
        k = r.below(100)
        w = self.fresh("w")
        if k < 14:
            e = "[%s, %s]" % (A(), A())
        elif k < 26:
            e = "{a: %s, b: %s}" % (A(), A())
        elif k < 36:
            e = "[n, %s, n, %s, n]" % (A(), A())
        elif k < 46:
            e = "`${%s}|${%s}`" % (A(), A())
        elif k < 56:
            e = "(%s) || (%s)" % (A(), A())
        elif k < 64:
            e = "(%s) ? (%s) : (%s)" % (A(), A(), A())
        elif k < 72:
            e = "await (%s)" % A()
        elif k < 80:
            e = "(function(p, q){ return [q, p]; })(%s, %s)" % (A(), A())
        elif k < 90:
            # compound assignment to a global: the left operand is read before the suspension
            self.use("compound_assign_await")
            c.after = True
            op = r.choice(["+=", "-=", "*="])
            return "n %s await %s; n = n %% 1000003; %s" % (op, self.num_awaitable(c), pr(self.tag(c), "n"))
        else:
            self.use("destructure_await")
            w2 = self.fresh("w")
            ops = (self.awaitable(c), self.awaitable(c))   # evaluated before the suspension
            c.after = True
            c.locals += [w, w2]
            return "var [%s, %s] = await Promise.all([%s, %s]); %s" % (w, w2, ops[0], ops[1], pr(self.tag(c), w, w2))
        c.after = True
        c.locals.append(w)
        return "var %s = %s; %s" % (w, e, pr(self.tag(c), w))

    def awaitable_paren(self, c):
        a = self.awaitable(c)
        return "(" + a + ")" if a.startswith("{") else a

    def safe_elem(self, c):
        """an element of a sync iterable that cannot reject (see AVOID_DOC['async_from_sync_close'])"""
        r = self.r
        k = r.below(10)
        v = self.plain()   # a literal: a local may hold a rejected promise
        if k < 4:
            return v
        if k < 8:
            return "Promise.resolve(%s)" % v
        self.use("thenable")
        return "{then: function(res){ %s res(%s); }}" % (pr(self.tag(c.inner(after=True, once=False))), v)

    def iterable(self, c, star=False):
        """a finite iterable for `for await` / `yield*` (star)"""
        r = self.r
        sync_any = "async_from_sync_close" not in self.avoid
        agens = self.agens
        opts = [("asyncobj", 4), ("syncgen", 3)]
        if sync_any or not star:
            opts += [("array", 6), ("string", 1)]
        if agens:
            opts.append(("agcall", 8))
        k = r.weighted(opts)
        if k == "agcall":
            self.use("iter_async_generator")
            return r.choice(agens)[0] % self.val(c)
        if k == "string":
            self.use("iter_sync_string")
            return "'ab'"
        if k == "array":
            self.use("iter_sync_array")
            els = [self.awaitable(c) if sync_any else self.safe_elem(c) for _ in range(r.range(0, 3))]
            return "[%s]" % ", ".join(els)
        if k == "syncgen":
            self.use("iter_sync_generator")
            g = c.inner(once=False)
            ys = []
            for _ in range(r.range(1, 3)):
                a = self.awaitable(g) if sync_any else self.safe_elem(g)
                ys.append("yield %s;" % (("(" + a + ")") if a.startswith("{") else a))
            return "(function*(){ %s try { %s } finally { %s } })()" % (pr(self.tag(g)), " ".join(ys), pr(self.tag(g)))
        # custom async iterable
        self.use("iter_async_object")
        g = c.inner(once=False)
        i = self.fresh("k")
        lim = r.range(0, 3)
        wrap = r.choice(["%s", "%s", "Promise.resolve(%s)", "{then: function(res){ res(%s); }}"])
        if "then" in wrap:
            self.use("iter_next_returns_thenable")
        nx = "next: function(){ %s %s++; return %s; }" % (pr(self.tag(g)), i, wrap % ("{value: %s, done: %s > %d}" % (i, i, lim)))
        rt = ""
        if r.chance(0.7):
            rw = r.choice(["%s", "Promise.resolve(%s)"])
            rt = ", return: function(){ %s return %s; }" % (pr(self.tag(g)), rw % "{done: true}")
        else:
            self.use("iter_async_object_no_return")
        return "{[Symbol.asyncIterator]: function(){ var %s = 0; return {%s%s}; }}" % (i, nx, rt)

    # ------------------------------------------------------------ declarations
    def afunc_body(self, gen=False):
        c = Ctx(after=False, once=False, is_async=True, is_gen=gen, depth=1, locals=["a"])
        return " ".join(self.abody(c, self.r.range(2, 5)))

    def params(self):
        """parameter list of an async function (calls pass one argument)"""
        r = self.r
        if not r.chance(0.2):
            return "a"
        self.use("default_param")
        x = Ctx(after=False, once=False)
        k = r.below(10)
        if k < 5:
            return "a, b = (%s, 1)" % pr(self.tag(x))[:-1]
        if k < 8:
            self.use("default_param_throws")
            return "a, b = thrower(%s)" % self.val(x)
        return "a, b = a, {c} = {c: %s}" % pr(self.tag(x))[:-1]

    def top_afunc(self, top):
        r = self.r
        name = self.fresh("af")
        k = r.below(100)
        if k < 35:
            self.use("async_function_decl")
            s = "async function %s(%s){ %s }" % (name, self.params(), self.afunc_body())
            tpl = [name + "(%s)"]
        elif k < 48:
            self.use("async_function_expr")
            s = "var %s = async function(%s){ %s };" % (name, self.params(), self.afunc_body())
            tpl = [name + "(%s)"]
        elif k < 63:
            self.use("async_arrow")
            s = "var %s = async (%s) => { %s };" % (name, self.params(), self.afunc_body())
            tpl = [name + "(%s)"]
        elif k < 70:
            self.use("async_arrow_expr")
            s = "var %s = async a => %s;" % (name, r.choice(["await a", "a", "(await a, await a)", "[await a, %s]" % pr(self.tag(Ctx(after=True)))[:-1]]))
            tpl = [name + "(%s)"]
        elif k < 85:
            self.use("async_method")
            o = self.fresh("o")
            s = "var %s = { async m(%s){ %s }, async k(a){ %s } };" % (o, self.params(), self.afunc_body(), self.afunc_body())
            tpl = [o + ".m(%s)", o + ".k(%s)"]
        else:
            self.use("async_class_method")
            o = self.fresh("C")
            s = "var %s = class { async m(a){ %s } static async s(a){ %s } };" % (o, self.afunc_body(), self.afunc_body())
            tpl = ["new " + o + "().m(%s)", o + ".s(%s)"]
        self.afuncs += tpl
        return s

    def top_agen(self, top):
        r = self.r
        name = self.fresh("ag")
        k = r.below(100)
        self.use("async_generator")
        self.cur_ystar = False
        if k < 60:
            s = "async function* %s(a){ %s }" % (name, self.afunc_body(gen=True))
            tpl = name + "(%s)"
        elif k < 80:
            s = "var %s = { async *g(a){ %s } };" % (name, self.afunc_body(gen=True))
            tpl = name + ".g(%s)"
        else:
            s = "var %s = class { static async *g(a){ %s } };" % (name, self.afunc_body(gen=True))
            tpl = name + ".g(%s)"
        self.agens.append((tpl, self.cur_ystar))
        return s

    def top_gobj(self, top):
        g = self.fresh("g")
        tpl, ystar = self.r.choice(self.agens)
        s = "var %s = %s;" % (g, tpl % self.val(top, err_ok=False))
        self.gobjs.append((g, ystar))
        return s

    def top_greq(self, top):
        r = self.r
        g = self.pick_gobj()
        self.use("queued_generator_requests")
        out = []
        for _ in range(r.range(1, 4)):
            out.append("%s.then(%s, %s);" % (self.greq(top, g), self.callback(top), self.callback(top)))
        return " ".join(out)

    def top_defer(self, top):
        d = self.fresh("d")
        self.defs.append(d)
        self.use("deferred")
        return "var %s = defer();" % d

    def top_prom(self, top):
        p = self.fresh("p")
        s = "var %s = %s;" % (p, self.pexpr(top))
        self.proms.append(p)
        return s

    def top_chain(self, top):
        e = self.pexpr(top)
        for _ in range(self.r.weighted([(1, 4), (2, 3), (3, 2), (5, 1)])):
            e += self.link(top)
        self.use("chain")
        if e.startswith("{") or e.startswith("function") or e.startswith("async function"):
            e = "(" + e + ")"
        return e + ";"

    def top_settle(self, top):
        r = self.r
        d = r.choice(self.defs)
        self.use("settle_sync")
        if r.chance(0.3) and self.spend(2):
            self.use("resolve_with_promise")
            return "%s.res(%s);" % (d, self.pexpr(top) if r.chance(0.7) else self.thenable(top))
        return "%s.%s(%s);" % (d, r.choice(["res", "res", "rej"]), self.val(top))

    def top_aiife(self, top):
        e = self.aiife(top)
        if self.r.chance(0.5):
            e += self.link(top)
        return e + ";"

    def top_late(self, top):
        """a rejection whose handler is attached some jobs later"""
        r = self.r
        self.use("late_handler")
        p = self.fresh("p")
        j = top.inner(after=True)
        hops = r.range(1, 3)
        e = "Promise.resolve()"
        for _ in range(hops - 1):
            e += ".then(function(){ %s })" % pr(self.tag(j))
        e += ".then(function(){ %s %s.catch(%s); })" % (pr(self.tag(j)), p, self.callback(j))
        s = "var %s = Promise.reject(%s); %s;" % (p, self.val(top), e)
        self.proms.append(p)
        return s

    def top_patch(self, top):
        """an own `then` / `constructor` on a promise instance: prints where the spec looks them up"""
        r = self.r
        p = r.choice(self.proms)
        x = Ctx(after=False, once=False)
        if r.chance(0.5):
            self.use("patched_then")
            return "%s.then = function(a, b){ %s return Promise.prototype.then.call(this, a, b); };" % (p, pr(self.tag(x)))
        self.use("constructor_getter")
        ret = r.choice(["Promise", "Promise", "undefined"] + self.pclasses)
        return "Object.defineProperty(%s, 'constructor', {get: function(){ %s return %s; }, configurable: true});" % (p, pr(self.tag(x)), ret)

    def top_subclass(self, top):
        r = self.r
        self.use("promise_subclass")
        name = self.fresh("P")
        x = Ctx(after=False, once=False)
        sp = ""
        if r.chance(0.4):
            self.use("species_getter")
            sp = " static get [Symbol.species](){ %s return %s; }" % (pr(self.tag(x)), r.choice(["Promise", "this", "undefined"]))
        s = "var %s = class extends Promise { constructor(ex){ %s super(ex); }%s };" % (name, pr(self.tag(x)), sp)
        self.pclasses.append(name)
        return s

    def top_selfres(self, top):
        self.use("self_resolution")
        p = self.fresh("p")
        j = top.inner(after=True)
        s = "var %s = Promise.resolve().then(function(){ %s return %s; }); %s.then(%s, %s);" % (
            p, pr(self.tag(j)), p, p, self.callback(top), self.callback(top))
        self.proms.append(p)
        return s

    # ------------------------------------------------------------ whole program
    def program(self):
        r = self.r
        top = Ctx(after=False, once=True)
        stmts = list(PREAMBLE)
        nst = r.range(4, 11)
        # a synchronous busy loop somewhere between the statements: about 45 budget units per round (measured), so
        # that budgets up to 2^20 run out inside the script (15% of the programs)
        spin = r.choice([100, 1000, 10000, 30000]) if r.chance(0.15) else 0
        spin_at = r.below(nst) if spin else -1
        for i in range(nst):
            if i == spin_at:
                self.use("sync_busy_loop")
                stmts.append("for (var s0 = 0; s0 < %d; s0++) { n = (n + s0 * 3) %% 1000003; }" % spin)
            self.fuel = r.range(6, 22)
            opts = [("defer", 3 if len(self.defs) < 3 else 1), ("afunc", 4 if len(self.afuncs) < 5 else 1), ("prom", 5), ("chain", 8), ("aiife", 4),
                    ("late", 1), ("selfres", 0.3), ("agen", 3 if len(self.agens) < 3 else 0.5)]
            if self.defs:
                opts.append(("settle", 3))
            if self.proms:
                opts.append(("patch", 1))
            if len(self.pclasses) < 2:
                opts.append(("subclass", 1))
            if self.agens:
                opts.append(("gobj", 3 if len(self.gobjs) < 3 else 1))
            if self.gobjs:
                opts.append(("greq", 5))
            k = r.weighted(opts)
            stmts.append(getattr(self, "top_" + k)(top))
        stmts.append("print('sync-end');")
        stmts.append("'done:' + n;")
        for s in stmts:
            assert "\n" not in s
        return Program(stmts, FINAL, self.feat, self.tags, spin)


def generate(seed, index, avoid=frozenset(), label="c16"):
    rng = Rng(seed, label, index)
    return Gen(rng, avoid).program()


if __name__ == "__main__":
    import sys
    s = int(sys.argv[1]) if len(sys.argv) > 1 else 0
    k = int(sys.argv[2]) if len(sys.argv) > 2 else 0
    print(generate(s, k).src)
