"""`limits` profile (C08): programs that exceed (or stay just under) a runtime limit through every loop
form and every re-entry route, wrapped in try/catch/finally at every level.

A program is (setup source, expectation). The runaway construct increments the global `__body` once per
iteration / activation, so the host can read afterwards how much work was done."""
from .rng import Rng

# loop forms: `N` = number of iterations requested (a number or Infinity), body increments __body
LOOPS = {
    "while": "var i = 0; while (i < N) { __body++; i++; }",
    "do_while": "var i = 0; do { __body++; i++; } while (i < N);",
    "for": "for (var i = 0; i < N; i++) { __body++; }",
    "for_let_closure": "for (let i = 0; i < N; i++) { __body++; (function(){ return i; }); }",
    "for_continue": "for (var i = 0; i < N; i++) { __body++; if (i % 2) continue; }",
    "labelled_nested": "outer: for (var i = 0; i < N; i++) { for (var j = 0; j < 1; j++) { __body++; continue outer; } }",
    "while_true_break": "var i = 0; while (true) { __body++; if (++i >= N) break; }",
    "for_of_array": "var arr = []; arr.length = Math.min(N, 200000); for (var x of arr) { __body++; }",
    "for_of_generator": "function* g(){ var i = 0; while (i < N) { yield i++; } } for (var x of g()) { __body++; }",
    "for_in": "var o = {}; for (var k = 0; k < Math.min(N, 20000); k++) o['k' + k] = 1; for (var k in o) { __body++; }",
    "loop_in_generator": "function* g(){ for (var i = 0; i < N; i++) { __body++; } yield 1; } g().next();",
    "body_only_continue": "var i = 0; while (i++ < N) { __body++; continue; }",
    "try_in_loop": "for (var i = 0; i < N; i++) { try { __body++; } finally { } }",
    "loop_in_try_catch": "try { for (var i = 0; i < N; i++) { __body++; } } catch (e) { print('INNER-CATCH'); } finally { print('INNER-FINALLY'); }",
}

# routes: how control reaches `run()` (the function containing the runaway construct)
ROUTES = {
    "direct": "run();",
    "call": "(function(){ return run(); })();",
    "new": "new (function(){ run(); })();",
    "getter": "({get g(){ return run(); }}).g;",
    "setter": "({set s(v){ run(); }}).s = 1;",
    "proxy_get": "new Proxy({}, {get(){ return run(); }}).x;",
    "proxy_has": "'x' in new Proxy({}, {has(){ run(); return true; }});",
    "proxy_apply": "new Proxy(function(){}, {apply(){ return run(); }})();",
    "proxy_construct": "new (new Proxy(function(){}, {construct(){ run(); return {}; }}))();",
    "proxy_ownkeys": "Object.keys(new Proxy({}, {ownKeys(){ run(); return []; }}));",
    "proxy_set": "new Proxy({}, {set(){ run(); return true; }}).x = 1;",
    "proxy_delete": "delete new Proxy({}, {deleteProperty(){ run(); return true; }}).x;",
    "proxy_define": "Object.defineProperty(new Proxy({}, {defineProperty(){ run(); return true; }}), 'x', {value: 1, configurable: true});",
    "proxy_getproto": "Object.getPrototypeOf(new Proxy({}, {getPrototypeOf(){ run(); return null; }}));",
    "iterator_next": "for (var v of {[Symbol.iterator](){ return {next(){ run(); return {done: true}; }}; }}) {}",
    "to_primitive": "+{[Symbol.toPrimitive](){ run(); return 1; }};",
    "value_of": "1 + {valueOf(){ run(); return 1; }};",
    "to_string": "`${{toString(){ run(); return 's'; }}}`;",
    "array_map": "[1].map(function(){ return run(); });",
    "array_foreach": "[1].forEach(function(){ run(); });",
    "array_sort": "[2, 1].sort(function(){ run(); return 0; });",
    "array_reduce": "[1, 2].reduce(function(){ return run(); });",
    "array_from": "Array.from({length: 1}, function(){ return run(); });",
    "array_find": "[1].find(function(){ run(); });",
    "string_replace": "'a'.replace('a', function(){ run(); return 'b'; });",
    "string_replace_regex": "'a'.replace(/a/g, function(){ run(); return 'b'; });",
    "json_reviver": "JSON.parse('[1]', function(k, v){ run(); return v; });",
    "json_replacer": "JSON.stringify([1], function(k, v){ run(); return v; });",
    "json_tojson": "JSON.stringify({toJSON(){ run(); return 1; }});",
    "eval": "eval('run()');",
    "indirect_eval": "(0, eval)('run()');",
    "function_ctor": "Function('run()')();",
    "bind": "run.bind(null)();",
    "apply": "run.apply(null, []);",
    "call_method": "run.call(null);",
    "reflect_apply": "Reflect.apply(run, null, []);",
    "reflect_construct": "Reflect.construct(function(){ run(); }, []);",
    "promise_executor": "new Promise(function(){ run(); });",
    "class_field": "new (class { f = run(); })();",
    "class_static_block": "(class { static { run(); } });",
    "class_constructor": "new (class { constructor(){ run(); } })();",
    "derived_constructor": "new (class extends Object { constructor(){ super(); run(); } })();",
    "tagged_template": "(function(){ return run(); })`t`;",
    "has_instance": "({}) instanceof {[Symbol.hasInstance](){ run(); return true; }};",
    "spread_iterator": "[...{[Symbol.iterator](){ run(); return {next(){ return {done: true}; }}; }}];",
    "destructuring_getter": "var {p} = {get p(){ return run(); }};",
    "default_parameter": "(function(a = run()){})();",
    "generator_body": "(function*(){ run(); yield 1; })().next();",
    "map_foreach": "new Map([[1, 1]]).forEach(function(){ run(); });",
    "set_foreach": "new Set([1]).forEach(function(){ run(); });",
    "object_assign_getter": "Object.assign({}, {get g(){ return run(); }});",
    "array_tostring_join": "String([{toString(){ run(); return 'x'; }}]);",
    "async_function_sync_part": "(async function(){ run(); })();",
}

# routes that run the runaway construct inside a job (run by `jobs`)
JOB_ROUTES = {
    "then_job": "Promise.resolve().then(function(){ run(); });",
    "await_continuation": "(async function(){ await null; run(); })();",
    "thenable_job": "Promise.resolve({then(){ run(); }});",
    "async_generator_job": "(async function*(){ await null; run(); yield 1; })().next();",
}

# loops of one activation that suspend in every iteration (the activation's frame is saved and restored around each
# await / yield): the iteration count belongs to the activation, so the limit must still stop them — in the job that
# runs the iteration which exceeds it
SUSPENDING_LOOPS = {
    "await_in_while": "async function run() { var i = 0; while (i < N) { __body++; await null; i++; } print('LOOP-DONE'); }",
    "await_in_do_while": "async function run() { var i = 0; do { __body++; await i; i++; } while (i < N); print('LOOP-DONE'); }",
    "await_in_for_update": "async function run() { for (var i = 0; i < N; await null, i++) { __body++; } print('LOOP-DONE'); }",
    "await_in_try_in_loop": "async function run() { for (var i = 0; i < N; i++) { try { __body++; await null; } finally { } } print('LOOP-DONE'); }",
    "for_await_of_async_generator": "async function* src() { var i = 0; while (i < N) { yield i++; } } async function run() { for await (var x of src()) { __body++; } print('LOOP-DONE'); }",
    "for_await_of_sync_iterable": "function* src() { var i = 0; while (i < N) { yield i++; } } async function run() { for await (var x of src()) { __body++; } print('LOOP-DONE'); }",
    "yield_in_async_generator_loop": "async function* g() { var i = 0; do { __body++; yield i++; } while (i < N); } async function run() { var it = g(); for (;;) { var r = await it.next(); if (r.done) break; } print('LOOP-DONE'); }",
    "await_in_arrow": "var run = async () => { var i = 0; while (i < N) { __body++; await null; i++; } print('LOOP-DONE'); };",
}

WRAP_SUSPENDING = """var __body = 0;
%(construct)s
run().then(function () { print('THEN'); }, function () { print('REJECTED'); });
print('END');
"""


def suspending_program(form, n):
    import re
    return WRAP_SUSPENDING % {"construct": re.sub(r"\bN\b", str(n), SUSPENDING_LOOPS[form])}


WRAP = """var __body = 0;
function run() { %(construct)s }
function level2() { try { %(route)s print('AFTER-ROUTE'); } catch (e) { print('C1'); } finally { print('F1'); } print('AFTER-L2'); }
try { level2(); print('AFTER-L1'); } catch (e) { print('C2'); } finally { print('F2'); }
print('END');
"""

WRAP_SWALLOW = """var __body = 0;
function run() { %(construct)s }
function level2() { for (var q = 0; q < 2; q++) { try { %(route)s print('AFTER-ROUTE'); } catch (e) { print('C1'); continue; } finally { print('F1'); if (q > 5) break; } } return 'swallowed'; }
function level1() { try { return level2(); } finally { print('F2'); return 'overridden'; } }
print('RESULT', level1());
print('END');
"""

RECURSION = {
    "plain": "function rec(n) { __body++; return rec(n + 1); }",
    "mutual": "function rec(n) { __body++; return rec2(n); } function rec2(n) { return rec(n + 1); }",
    "via_getter": "var o = {get r() { __body++; return this.r; }}; function rec() { return o.r; }",
    "via_tostring": "function rec(n) { __body++; return '' + {toString() { return rec(n + 1); }}; }",
    "via_valueof": "function rec(n) { __body++; return 1 + {valueOf() { return rec(n + 1); }}; }",
    "via_proxy": "var p = new Proxy({}, {get(t, k) { __body++; return p.x; }}); function rec() { return p.x; }",
    "via_map_callback": "function rec(n) { __body++; return [1].map(function(){ return rec(n + 1); }); }",
    "via_bound": "function rec(n) { __body++; return recb(n + 1); } var recb = rec.bind(null);",
    "via_new": "function rec(n) { __body++; return new rec(n + 1); }",
    "via_eval": "function rec(n) { __body++; return eval('rec(n + 1)'); }",
    "via_apply": "function rec(n) { __body++; return rec.apply(null, [n + 1]); }",
    "via_class_field": "class R { f = (__body++, new R()); } function rec() { return new R(); }",
    "arrow": "var rec = (n) => { __body++; return rec(n + 1); };",
    "generator_delegate": "function* grec(n) { __body++; yield* grec(n + 1); } function rec(n) { return grec(n).next(); }",
}

STACK = {
    "many_args": "function rec(n) { __body++; return rec(n + 1, 1, 2, 3, 4, 5, 6, 7, 8, 9, 10, 11, 12, 13, 14, 15, 16); }",
    "spread_args": "function rec(n) { __body++; var a = []; for (var i = 0; i < 40; i++) a.push(i); return rec(...a); }",
}


def loop_program(form, route, n, swallow=False, job=False):
    construct = LOOPS[form].replace("N", str(n))
    r = (JOB_ROUTES if job else ROUTES)[route]
    return (WRAP_SWALLOW if swallow else WRAP) % {"construct": construct, "route": r}


def recursion_program(kind, depth_bound=None, table=RECURSION):
    body = table[kind]
    if depth_bound is not None:
        # bounded variant: stop after depth_bound activations
        body = body.replace("__body++;", "if (++__body >= %d) return 0;" % depth_bound, 1).replace("(__body++, new R())", "(++__body >= %d ? 0 : new R())" % depth_bound)
    return """var __body = 0;
%s
function level2() { try { rec(0); print('AFTER-ROUTE'); } catch (e) { print('C1'); } finally { print('F1'); } print('AFTER-L2'); }
try { level2(); print('AFTER-L1'); } catch (e) { print('C2'); } finally { print('F2'); }
print('END');
""" % body
