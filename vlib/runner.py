"""Sharded, supervised execution of job files on the bvh harness and on node (V8)."""
import json
import os
import shutil
import signal
import subprocess
import time

VERIF = os.path.dirname(os.path.dirname(os.path.abspath(__file__)))
WORK = os.path.join(VERIF, ".work")
PRELUDE = os.path.join(VERIF, "oracle", "prelude.js")
NODE = shutil.which("node") or "/usr/bin/node"
NODE_FLAGS = ["--harmony-rab-gsab-transfer", "--harmony-json-parse-with-source", "--harmony-array-grouping",
              "--stack-size=4000"]
NCPU = int(os.environ.get("VERIF_JOBS", "16"))


def workdir(tag):
    d = os.path.join(WORK, "%s-%d" % (tag, os.getpid()))
    os.makedirs(d, exist_ok=True)
    return d


def cleanup(d):
    shutil.rmtree(d, ignore_errors=True)


def _split(jobs, shards):
    buckets = [[] for _ in range(shards)]
    for i, j in enumerate(jobs):
        buckets[i % shards].append((i, j))
    return [b for b in buckets if b]


def _signame(rc):
    if rc < 0:
        try:
            return signal.Signals(-rc).name
        except Exception:
            return "SIG%d" % -rc
    return "exit%d" % rc


def run_bvh(binary, sub, jobs, tag, shards=None, prelude=True, timeout=20, env=None, wall=3600, extra_args=None):
    """Runs jobs (list of dicts). Returns list of result dicts aligned with jobs.
    A job whose process died gets {"fatal": "died:<signal>", "stderr": tail}."""
    shards = shards or NCPU
    d = workdir(tag)
    buckets = _split(jobs, shards)
    procs = []
    for k, b in enumerate(buckets):
        jp = os.path.join(d, "jobs_%d.jsonl" % k)
        op = os.path.join(d, "out_%d.jsonl" % k)
        with open(jp, "w") as f:
            for _, j in b:
                j2 = dict(j)
                j2.setdefault("work", d)
                f.write(json.dumps(j2) + "\n")
        procs.append({"k": k, "jobs": jp, "out": op, "skip": 0, "p": None, "n": len(b), "extra": [], "restarts": 0})
    penv = dict(os.environ)
    if env:
        penv.update(env)

    def start(pr):
        cmd = [binary, sub, pr["jobs"], pr["out"], "--timeout", str(timeout), "--skip", str(pr["skip"])]
        if prelude:
            cmd += ["--prelude", PRELUDE]
        if extra_args:
            cmd += extra_args
        pr["err"] = open(pr["out"] + ".stderr", "ab")
        pr["p"] = subprocess.Popen(cmd, stdout=subprocess.DEVNULL, stderr=pr["err"], env=penv)

    for pr in procs:
        start(pr)
    t_end = time.time() + wall
    pending = list(procs)
    while pending:
        nxt = []
        for pr in pending:
            rc = pr["p"].poll()
            if rc is None:
                if time.time() > t_end:
                    pr["p"].kill()
                    pr["p"].wait()
                    pr["wall"] = True
                else:
                    nxt.append(pr)
                continue
            pr["err"].close()
            if rc == 0:
                continue
            # died or timed out on a job: find it in the journal
            last_b, closed = None, set()
            try:
                with open(pr["out"] + ".journal") as jf:
                    for line in jf:
                        parts = line.split()
                        if len(parts) != 2:
                            continue
                        if parts[0] == "B":
                            last_b = int(parts[1])
                        else:
                            closed.add(int(parts[1]))
            except FileNotFoundError:
                pass
            if last_b is None:
                # never started a job: infrastructure failure
                pr["infra"] = "rc=%s" % _signame(rc)
                continue
            if last_b not in closed:
                tail = ""
                try:
                    with open(pr["out"] + ".stderr", "rb") as ef:
                        tail = ef.read()[-3000:].decode("utf8", "replace")
                except Exception:
                    pass
                pr["extra"].append({"index": last_b, "fatal": "died:" + _signame(rc), "stderr": tail})
            pr["skip"] = last_b + 1
            pr["restarts"] += 1
            if pr["skip"] < pr["n"] and pr["restarts"] < 2000:
                start(pr)
                nxt.append(pr)
        pending = nxt
        if pending:
            time.sleep(0.02)
    results = [None] * len(jobs)
    for pr, b in zip(procs, buckets):
        local = {}
        try:
            with open(pr["out"]) as f:
                for line in f:
                    line = line.strip()
                    if not line:
                        continue
                    try:
                        r = json.loads(line)
                    except Exception:
                        continue
                    local[r.get("index")] = r
        except FileNotFoundError:
            pass
        for r in pr["extra"]:
            local.setdefault(r["index"], r)
        for li, (gi, _) in enumerate(b):
            r = local.get(li)
            if r is None:
                r = {"fatal": "missing" + (":wall" if pr.get("wall") else "") + (":" + pr["infra"] if pr.get("infra") else "")}
            results[gi] = r
    cleanup(d)
    return results


def node_available():
    return os.path.exists(NODE)


def run_node(jobs, tag, shards=None, timeout_ms=5000, wall=3600):
    """Runs session jobs on V8. Returns list aligned with jobs ({"fatal":...} when unavailable)."""
    if not node_available():
        return [{"fatal": "node-unavailable"} for _ in jobs]
    shards = shards or max(1, NCPU // 2)
    d = workdir(tag + "-node")
    buckets = _split(jobs, shards)
    procs = []
    for k, b in enumerate(buckets):
        jp = os.path.join(d, "jobs_%d.jsonl" % k)
        op = os.path.join(d, "out_%d.jsonl" % k)
        with open(jp, "w") as f:
            for _, j in b:
                f.write(json.dumps(j) + "\n")
        cmd = [NODE] + NODE_FLAGS + [os.path.join(VERIF, "oracle", "node_runner.js"), jp, op, PRELUDE, str(timeout_ms)]
        p = subprocess.Popen(cmd, stdout=subprocess.DEVNULL, stderr=subprocess.DEVNULL)
        procs.append((p, op))
    t_end = time.time() + wall
    for p, _ in procs:
        try:
            p.wait(timeout=max(1, t_end - time.time()))
        except subprocess.TimeoutExpired:
            p.kill()
            p.wait()
    results = [None] * len(jobs)
    for (p, op), b in zip(procs, buckets):
        local = {}
        try:
            with open(op) as f:
                for line in f:
                    try:
                        r = json.loads(line)
                    except Exception:
                        continue
                    local[r.get("index")] = r
        except FileNotFoundError:
            pass
        for li, (gi, _) in enumerate(b):
            results[gi] = local.get(li) or {"fatal": "node-missing"}
    cleanup(d)
    return results


class NodePool:
    """Long-lived node processes (start-up is ~2.4 s here) serving session jobs over pipes."""

    def __init__(self, n=8, timeout_ms=5000):
        self.procs = []
        if not node_available():
            return
        for _ in range(n):
            cmd = [NODE] + NODE_FLAGS + [os.path.join(VERIF, "oracle", "node_runner.js"), "--server", PRELUDE, "x", str(timeout_ms)]
            self.procs.append(subprocess.Popen(cmd, stdin=subprocess.PIPE, stdout=subprocess.PIPE, stderr=subprocess.DEVNULL))

    def run(self, jobs):
        if not self.procs:
            return [{"fatal": "node-unavailable"} for _ in jobs]
        import threading
        results = [None] * len(jobs)
        n = len(self.procs)

        def work(k):
            p = self.procs[k]
            for i in range(k, len(jobs), n):
                try:
                    p.stdin.write((json.dumps(jobs[i]) + "\n").encode())
                    p.stdin.flush()
                    line = p.stdout.readline()
                    results[i] = json.loads(line) if line else {"fatal": "node-died"}
                except Exception as e:  # noqa
                    results[i] = {"fatal": "node-io:%s" % e}
        ts = [threading.Thread(target=work, args=(k,)) for k in range(n)]
        for t in ts:
            t.start()
        for t in ts:
            t.join()
        return results

    def close(self):
        for p in self.procs:
            try:
                p.stdin.close()
                p.wait(timeout=5)
            except Exception:
                p.kill()
        self.procs = []
