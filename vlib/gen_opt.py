"""`opt` profile: programs that give the AST optimizer something to do (literal-heavy expressions,
observable coercions next to foldable operators, literal conditions around hoisted declarations)."""
from .rng import Rng
from . import gen_core

LITS = ["0", "1", "2", "3", "-1", "(-0)", "0.5", "1.5", "2147483647", "2147483648", "(-2147483648)", "4294967295", "9007199254740991", "1e21", "1e-7",
        "NaN", "Infinity", "(-Infinity)", "true", "false", "null", "undefined", "''", "'a'", "'1'", "'12'", "' 3 '", "'0x10'", "'abc'", "1n", "2n", "(-3n)",
        "10n", "9007199254740993n"]
BIN = ["+", "-", "*", "/", "%", "**", "&", "|", "^", "<<", ">>", ">>>", "<", ">", "<=", ">=", "==", "!=", "===", "!==", "&&", "||", "??", ",", "in", "instanceof"]
UN = ["-", "+", "!", "~", "typeof ", "void "]


def lit(r):
    return r.choice(LITS)


def obs(r, tag):
    """operand with observable coercion"""
    k = r.below(4)
    v = r.choice(["1", "2", "'3'", "4n", "null", "{}"])
    if k == 0:
        return "({valueOf(){print('%s.valueOf');return %s}})" % (tag, v)
    if k == 1:
        return "({toString(){print('%s.toString');return %s}})" % (tag, v)
    if k == 2:
        return "({[Symbol.toPrimitive](h){print('%s.prim',h);return %s}})" % (tag, v)
    return "(print('%s.eval'), %s)" % (tag, lit(r))


def expr(r, depth, names, counter):
    if depth <= 0 or r.chance(0.3):
        k = r.below(10)
        if k < 6:
            return lit(r)
        if k < 8 and names:
            return r.choice(names)
        counter[0] += 1
        return obs(r, "k%d" % counter[0])
    k = r.below(12)
    if k < 7:
        op = r.choice(BIN)
        a, b = expr(r, depth - 1, names, counter), expr(r, depth - 1, names, counter)
        if op == "**":
            b = r.choice(["0", "1", "2", "3", "(-1)", "0.5", "2n"]) if r.chance(0.8) else b
            a = "(%s)" % a
        if op == "in":
            return "(%s in {a:1, 1:2})" % a
        if op == "instanceof":
            return "(%s instanceof Object)" % a
        return "(%s %s %s)" % (a, op, b)
    if k < 9:
        return "(%s%s)" % (r.choice(UN), expr(r, depth - 1, names, counter))
    if k == 9:
        return "(%s ? %s : %s)" % (expr(r, depth - 1, names, counter), expr(r, depth - 1, names, counter), expr(r, depth - 1, names, counter))
    if k == 10:
        return "`a${%s}b`" % expr(r, depth - 1, names, counter)
    return "[%s, %s].length" % (expr(r, depth - 1, names, counter), lit(r))


def value_wrapper(r, x):
    """an expression whose *value* is that of `x` but which is not a reference to it: foldable wrappers around
    an identifier or member expression (a folding pass may replace them by `x` only where a reference and a value
    cannot be told apart)"""
    w = r.choice(["(%s, X)" % lit(r), "(%s, %s, X)" % (lit(r), lit(r)), "(true && X)", "(1 && X)", "('a' && X)", "(false || X)", "(0 || X)", "('' || X)",
                  "(null ?? X)", "(undefined ?? X)", "(1 ? X : 0)", "(0 ? 0 : X)", "(true ? X : null)", "(void 0, X)"])
    return w.replace("X", x)


def reference_stmt(r, counter):
    """contexts that distinguish a reference from its value: typeof of an unresolvable name, the `this` of a call,
    delete, direct eval"""
    counter[0] += 1
    n = counter[0]
    k = r.below(6)
    if k == 0:
        return "try { print('typeof-ref', typeof %s); } catch (e) { print('typeof-ref threw', e); }" % value_wrapper(r, "undeclaredRef%d" % n)
    if k == 1:
        return ("var refo%d = {who: 'object', m() { return this === refo%d ? 'this=object' : this === undefined ? 'this=undefined' : 'this=other'; }};\n"
                "print('call-ref', %s());") % (n, n, value_wrapper(r, "refo%d.m" % n))
    if k == 2:
        return "globalThis.delref%d = 1; print('delete-ref', delete %s, typeof delref%d);" % (n, value_wrapper(r, "delref%d" % n), n)
    if k == 3:
        return ("function evref%d() { var loc%d = 'local'; return %s('typeof loc%d'); }\nprint('eval-ref', evref%d());") % (n, n, value_wrapper(r, "eval"), n, n)
    if k == 4:
        return ("var refw%d = {f() { return this === refw%d ? 'this=with-object' : 'this=not-with-object'; }};\n"
                "try { print('with-ref', Function('o', 'with (o) { return %s(); }')(refw%d)); } catch (e) { print('with-ref threw', e); }") % (
                    n, n, value_wrapper(r, "f").replace("'", "\\'"), n)
    return "var refd%d = {p: 1}; print('delete-member-ref', delete %s, 'p' in refd%d);" % (n, value_wrapper(r, "refd%d.p" % n), n)


def stmt(r, names, counter, depth=2):
    if r.chance(0.12):
        return reference_stmt(r, counter)
    k = r.below(14)
    e = lambda d=3: expr(r, d, names, counter)
    if k == 0:
        return "if (%s) { print('then', %s); var h%d = %s; } else { print('else', %s); function hf%d(){ return %s } }" % (
            lit(r), e(), counter[0], lit(r), e(), counter[0], lit(r))
    if k == 1:
        return "while (%s) { print('w', %s); break; }" % (r.choice(["false", "0", "''", "null", "true", "1", "'a'"]), e())
    if k == 2:
        return "for (var fi%d = 0; %s && fi%d < 2; fi%d++) { print('f', %s); }" % (counter[0], r.choice(["true", "1", "false", "0"]), counter[0], counter[0], e())
    if k == 3:
        return "L%d: { if (%s) break L%d; print('after break', %s); }" % (counter[0], lit(r), counter[0], e())
    if k == 4:
        n = "x%d" % counter[0]
        counter[0] += 1
        names.append(n)
        return "var %s = %s;" % (n, e())
    if k == 5:
        return "print(%s ? %s : %s);" % (lit(r), e(), e())
    if k == 6:
        return "print(typeof %s, typeof undeclared%d);" % (lit(r), counter[0])
    if k == 7:
        return "do { print('do', %s); } while (%s);" % (e(), r.choice(["false", "0", "null"]))
    if k == 8 and names:
        return "print(%s ** 2, %s * 2, %s / 2, %s + 0, %s * 1, %s - 0, %s | 0);" % tuple(r.choice(names) for _ in range(7))
    if k == 9:
        counter[0] += 1
        o = obs(r, "s%d" % counter[0])
        return "try { print(%s ** 2, %s * 1); } catch (e) { print('E', e); }" % (o, o)
    if k == 10:
        return "switch (%s) { case %s: print('c1'); case %s: print('c2'); break; default: print('d'); }" % (lit(r), lit(r), lit(r))
    if k == 11:
        return "try { print(%s); } catch (e) { print('E', e); }" % e(4)
    if k == 12:
        return "(function(){ if (%s) return %s; var u = %s; return u; })();" % (lit(r), e(), e())
    return "print(%s);" % e(4)


def generate(seed, index):
    r = Rng(seed, "opt", index)
    names = []
    counter = [0]
    out = []
    if r.chance(0.2):
        out.append("'use strict';")
    for _ in range(3 + r.below(8)):
        out.append(stmt(r, names, counter))
    out.append("(%s);" % expr(r, 3, names, counter))
    if r.chance(0.5):
        # the completion value of the script (and of an eval) after a statement with a literal condition:
        # an `if` or loop that runs nothing completes with undefined, an empty statement with nothing
        t = completion_tail(r, names, counter)
        if r.chance(0.3):
            out.append("print(eval(%s));" % js_string("%s; %s" % (lit(r), t)))
        else:
            out.append(t)
    return "\n".join(out)


def js_string(s):
    return "'" + s.replace("\\", "\\\\").replace("'", "\\'").replace("\n", "\\n") + "'"


def completion_tail(r, names, counter):
    c = r.choice(["true", "false", "1", "0", "''", "null"])
    e = lambda: expr(r, 1, [], counter)
    k = r.below(12)
    if k == 0:
        return "if (%s) ;" % c
    if k == 1:
        return "if (%s) {} else %s;" % (c, lit(r))
    if k == 2:
        return "if (%s) %s; else {}" % (c, lit(r))
    if k == 3:
        return "while (%s) { %s; break; }" % (c, lit(r))
    if k == 4:
        return "for (;%s;) { %s; break; }" % (c, lit(r))
    if k == 5:
        return "Lc: if (%s) break Lc;" % c
    if k == 6:
        return "if (%s) { %s } else { }" % (c, lit(r))
    if k == 7:
        return "if (%s) if (%s) %s; else ; else %s;" % (c, r.choice(["true", "false"]), lit(r), lit(r))
    if k == 8:
        return "do { %s; if (%s) break; } while (false);" % (lit(r), c)
    if k == 9:
        return "if (%s) var ct%d = %s;" % (c, counter[0], lit(r))
    if k == 10:
        return "if (%s) %s; else %s;" % (c, e(), e())
    return "{ if (%s) ; }" % c
