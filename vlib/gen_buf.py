"""gen_buf — deterministic generator of buffer / typed-array / DataView operation histories (property C15).

A history is a list of JSON steps (see vlib/models/bytes.py for the value encoding) over a universe of
<= 3 buffer slots `b[i]` and <= 6 view slots `v[i]`.  `generate()` drives the byte model while it generates
(so arguments can be chosen relative to the *current* geometry: around the end, misaligned, just out of range)
and `render()` turns the steps into a closed JS program that prints, after every step, the step's result
(value / `throw:Error<Class>`) and one line per buffer and view whose observation changed
(`length`, `byteLength`, `byteOffset`, every element through an index read, reads just past the end).

Hostile shapes generated on purpose: offsets/lengths misaligned, negative, fractional, huge; accesses at
len-1 / len / len+1; NaN bit patterns written through integer views and read through float views; +-Infinity,
-0, huge, fractional, double-rounding values for Float16/Float32; BigInts beyond 64 bits; wrong content type
(Number <-> BigInt); and index / value / length / offset arguments that are objects whose `valueOf` / `toString`
resizes, grows or detaches a buffer (or throws) in the middle of the operation.

`avoid`: set of model hazard names the main stream must not contain (shapes of *open* known findings,
see known/c15_findings.json). A candidate step is dry-run on a clone of the model; if it records an avoided
hazard it is discarded and another step is drawn.
"""
import json
import math

from .models import bytes as bm
from .models.bytes import JU, TYPES, jb, jn

N_BUF = 3
N_VIEW = 6

BUF_LENS = [0, 1, 2, 3, 4, 7, 8, 8, 9, 12, 15, 16, 16, 17, 24, 24, 31, 32, 40]
NUM_POOL = [
    0.0, -0.0, 1.0, -1.0, 2.0, 7.0, 42.0, 100.0, 127.0, 128.0, 129.0, 200.0, 239.0, 255.0, 256.0, 257.0, -127.0, -128.0, -129.0, -200.0, -255.0, -256.0,
    32767.0, 32768.0, 65535.0, 65536.0, 65537.0, -32768.0, -32769.0, 2147483647.0, 2147483648.0, -2147483648.0, -2147483649.0,
    4294967295.0, 4294967296.0, 4294967301.0, -4294967295.0, 2.0 ** 53, -(2.0 ** 53), 2.0 ** 53 + 2, 2.0 ** 62, 2.0 ** 63 - 1024, -(2.0 ** 63), -(2.0 ** 63) - 2048, -(2.0 ** 64), -3.5e38, -1e300,
    0.5, 1.5, 2.5, 3.5, -0.5, -1.5, 0.49999999999999994, 0.5000000000000001, 1.4999999999999998, 254.5, 254.49999999999997, 255.5, 3.7, -3.7, 1e-7, 123.456, -65535.9, 4294967295.9,
    math.nan, math.inf, -math.inf,
    # binary32 boundaries
    3.4028234663852886e38, 3.4028235677973366e38, 3.4028235677973362e38, 1.401298464324817e-45, 7.006492321624085e-46, 7.006492321624087e-46, 16777217.0, 16777219.0, 1.1754943508222875e-38, 0.1, 1e39, -1e39,
    # binary16 boundaries (incl. double rounding through binary32)
    65504.0, 65519.99, 65520.0, 1.0 + 2.0 ** -11 + 2.0 ** -40, 1.0 + 2.0 ** -11, 2049.0, 2051.0, 5.960464477539063e-08, 2.9802322387695312e-08, 2.980232238769532e-08, 6.103515625e-05, 6.097555160522461e-05, 1e5, 0.333251953125,
    # binary64 extremes
    1.7976931348623157e308, 5e-324, 2.2250738585072014e-308, 1e21, 1e300, 123456789.123,
]
# finite values >= 2^63: the class of the open finding `int_store_outside_i64` when stored into 8/16 bit integer elements
NUM_HUGE = [2.0 ** 63, 2.0 ** 63 + 2048, 2.0 ** 64, 2.0 ** 64 + 4096, 3.5e38, 1e21 * 16384, 1e300, 1.7976931348623157e308, 2.0 ** 80 + 2.0 ** 30]
NAN_BITS_32 = [0x7FC00001, 0xFFC00000, 0x7F800001, 0x7FF00000, 0xFF800001, 0x7FFFFFFF, 0x7F800000, 0x80000000]
NAN_BITS_16 = [0x7E01, 0xFE00, 0x7C01, 0x7FFF, 0x7C00, 0x8000, 0x0001]
NAN_BITS_64 = [0x7FF0000000000001, 0xFFF8000000000000, 0x7FF8000000000001, 0x7FFFFFFFFFFFFFFF, 0x7FF4000000000000, 0x8000000000000000, 0x0000000000000001]
BIG_POOL = [0, 1, -1, 2, 255, 256, -256, 2 ** 31, 2 ** 32 + 3, 2 ** 63 - 1, 2 ** 63, -(2 ** 63), -(2 ** 63) - 1, 2 ** 64 - 1, 2 ** 64, 2 ** 64 + 5, -(2 ** 64) - 1, 2 ** 100 + 7, -(2 ** 100) - 7, 1234567890123456789]


class Gen:
    def __init__(self, rng, has_transfer=False, has_detach=True, avoid=(), f16=None, atomics=True, hostile_p=None):
        self.r = rng
        self.has_transfer = has_transfer
        self.has_detach = has_detach
        self.avoid = set(avoid)
        self.f16 = rng.chance(0.3) if f16 is None else f16
        self.atomics = atomics
        self.hostile_p = rng.choice([0.0, 0.08, 0.15, 0.15, 0.3]) if hostile_p is None else hostile_p
        self.m = bm.Machine(has_transfer=has_transfer, has_detach=has_detach)
        self.steps = []
        self.rejected = {}
        self.types = [t for t in bm.TYPE_NAMES if self.f16 or t != "Float16"]
        self.dv_types = [t for t in bm.DV_TYPES if self.f16 or t != "Float16"]

    # ------------------------------------------------------------------ universe helpers
    def live_bufs(self, pred=None):
        out = []
        for slot, uid in self.m.b.items():
            buf = self.m.bufs[uid]
            if pred is None or pred(buf):
                out.append(slot)
        return sorted(out)

    def tas(self):
        return sorted(k for k, x in self.m.v.items() if x.t != "DataView")

    def dvs(self):
        return sorted(k for k, x in self.m.v.items() if x.t == "DataView")

    def free_slot(self, table, n):
        free = [i for i in range(n) if i not in table]
        if free and self.r.chance(0.85):
            return free[0]
        return self.r.below(n)

    def slot_of_uid(self, uid):
        for slot, u in self.m.b.items():
            if u == uid:
                return slot
        return None

    # ------------------------------------------------------------------ value pickers
    def effect(self, prefer_uid=None):
        """a side effect for a hostile valueOf, chosen against the current universe"""
        r = self.r
        cands = []
        slots = self.live_bufs()
        if prefer_uid is not None and r.chance(0.75):
            s = self.slot_of_uid(prefer_uid)
            if s is not None:
                slots = [s]
        for slot in slots:
            buf = self.m.buf_of_slot(slot)
            if buf.shared:
                if buf.max_len is not None:
                    cands.append(["grow", slot, r.range(buf.blen(), buf.max_len)])
                continue
            if buf.detached:
                continue
            if buf.max_len is not None:
                bl = buf.blen()
                for _ in range(3):
                    cands.append(["resize", slot, r.choice([0, 1, max(0, bl - 1), max(0, bl // 2), max(0, bl - r.range(1, 8)), r.range(0, buf.max_len), buf.max_len])])
            if self.has_detach:
                cands.append(["detach", slot])
        if r.chance(0.06):
            return ["throw"]
        if not cands:
            return ["none"] if r.chance(0.5) else ["throw"]
        return r.choice(cands)

    def hostile(self, prim, prefer_uid=None):
        return ["o", prim, self.effect(prefer_uid)]

    def maybe_hostile(self, prim, prefer_uid=None, p=None):
        if self.r.chance(self.hostile_p if p is None else p):
            return self.hostile(prim, prefer_uid)
        return prim

    def number(self, t=None):
        """an arbitrary Number, biased to the boundaries of element type t"""
        r = self.r
        k = r.below(100)
        if t is not None and k < 14:
            size, kind = TYPES[t]
            if kind in "iu" or kind == "c":
                bits = size * 8
                base = r.choice([0, 1 << (bits - 1), 1 << bits, (1 << bits) * r.range(1, 5), -(1 << (bits - 1)), -(1 << bits)])
                return jn(float(base + r.range(-2, 2)) + r.choice([0.0, 0.0, 0.5, 0.25, -0.75]))
            if size == 4 and r.chance(0.5):
                return jn(float(r.choice(NAN_BITS_32)))
        if k < 22:
            if t is not None:
                size, kind = TYPES[t]
                if kind == "u" and size == 4:
                    return jn(float(r.choice(NAN_BITS_32)))
                if kind == "u" and size == 2:
                    return jn(float(r.choice(NAN_BITS_16)))
            return jn(float(r.range(-300, 300)))
        if k < 30:
            return jn(r.choice(NUM_HUGE))
        if k < 40:
            return jn(float(r.range(0, 255)))
        if k < 46:
            # random double from random bits (any exponent), exactly representable by construction
            import struct
            x = struct.unpack("<d", struct.pack("<Q", r.next()))[0]
            return jn(x)
        return jn(r.choice(NUM_POOL))

    def bigint(self):
        r = self.r
        k = r.below(10)
        if k < 2:
            return jb(r.choice(NAN_BITS_64))
        if k < 4:
            return jb(r.next() - (1 << 63))
        if k < 6:
            return jb(r.range(-5, 300))
        return jb(r.choice(BIG_POOL))

    def value_for(self, t, prefer_uid=None, hostile=True):
        """a value to be stored into an element of type t"""
        r = self.r
        big = bm.is_bigint_type(t)
        k = r.below(100)
        if k < 6:
            prim = self.number(t) if big else self.bigint()      # wrong content type -> TypeError
        elif k < 10:
            prim = r.choice([JU, ["null"], ["t", True], ["t", False], ["s", "12"], ["s", ""], ["s", "x"], ["s", " 7 "]])
        else:
            prim = self.bigint() if big else self.number(t)
        if hostile:
            return self.maybe_hostile(prim, prefer_uid)
        return prim

    def rel_index(self, length, prefer_uid=None, allow_undef=True):
        """an argument that goes through ToIntegerOrInfinity and is clamped relative to `length`"""
        r = self.r
        k = r.below(100)
        if k < 45:
            prim = jn(float(r.range(0, max(length, 1))))
        elif k < 60:
            prim = jn(float(r.choice([length - 1, length, length + 1, -1, -length, -length - 1, 0, 1])))
        elif k < 70:
            prim = jn(float(-r.range(0, max(length, 1))))
        elif k < 78:
            prim = jn(r.choice([math.inf, -math.inf, math.nan, 2.0 ** 31, 2.0 ** 32, 2.0 ** 53, -(2.0 ** 31), 1e300, -1e300]))
        elif k < 86:
            prim = jn(float(r.range(0, max(length, 1))) + r.choice([0.5, 0.9, -0.5]))
        elif k < 90 and allow_undef:
            prim = JU
        elif k < 93:
            prim = r.choice([["null"], ["t", True], ["s", "1"], jb(1)])
        else:
            prim = jn(float(r.range(0, max(length, 1))))
        return self.maybe_hostile(prim, prefer_uid)

    def abs_index(self, limit, align=1, prefer_uid=None):
        """an argument that goes through ToIndex (byte offsets, lengths, DataView request indices)"""
        r = self.r
        k = r.below(100)
        if k < 50:
            prim = jn(float(r.range(0, max(limit // align, 0)) * align))
        elif k < 64:
            prim = jn(float(r.choice([limit, limit - 1, limit + 1, limit - align, limit + align, max(0, limit - 2 * align)])))
        elif k < 72:
            prim = jn(float(r.range(0, limit + 2)))                      # possibly misaligned
        elif k < 78:
            prim = jn(r.choice([-1.0, -0.0, -0.9, 0.5, 1.5, math.nan, math.inf, -math.inf, 2.0 ** 32, 2.0 ** 53, 2.0 ** 53 - 1, 1e300]))
        elif k < 84:
            prim = JU
        elif k < 87:
            prim = r.choice([["null"], ["t", True], ["s", "2"], jb(2)])
        else:
            prim = jn(float(r.range(0, max(limit // align, 0)) * align))
        return self.maybe_hostile(prim, prefer_uid)

    # ------------------------------------------------------------------ step builders (return a step dict or None)
    def s_mkbuf(self):
        r = self.r
        shared = r.chance(0.25)
        n = r.choice(BUF_LENS)
        st = {"op": "mkbuf", "slot": self.free_slot(self.m.b, N_BUF), "shared": shared}
        k = r.below(100)
        if k < 8:
            st["len"] = r.choice([jn(-1.0), jn(2.0 ** 53), jn(math.inf), jn(-0.5), jn(math.nan), jn(n + 0.7), JU])
        else:
            st["len"] = jn(float(n))
        if r.chance(0.62):
            mk = r.below(100)
            if mk < 80:
                st["max"] = jn(float(n + r.choice([0, 1, 4, 8, 8, 16, 24])))
            elif mk < 88:
                st["max"] = jn(float(max(0, n - 1)))        # max < len -> RangeError (unless n == 0)
            elif mk < 94:
                st["max"] = JU                               # {maxByteLength: undefined} -> fixed length
            else:
                st["max"] = r.choice([jn(-1.0), jn(2.0 ** 53), jn(math.nan), jn(n + 8.5)])
        return st

    def s_resize(self):
        slots = self.live_bufs()
        if not slots:
            return None
        r = self.r
        pref = self.live_bufs(lambda b: b.max_len is not None and not b.shared and not b.detached)
        slot = r.choice(pref) if pref and r.chance(0.9) else r.choice(slots)
        buf = self.m.buf_of_slot(slot)
        mx = buf.max_len if buf.max_len is not None else buf.blen()
        k = r.below(100)
        if k < 70:
            n = jn(float(r.range(0, mx)))
        elif k < 85:
            n = jn(float(r.choice([0, mx, mx + 1, buf.blen(), max(0, buf.blen() - 1)])))
        else:
            n = r.choice([jn(-1.0), jn(mx + 0.5), jn(math.nan), JU, jn(2.0 ** 53), jn(1.5)])
        return {"op": "resize", "b": slot, "n": self.maybe_hostile(n, self.m.b[slot])}

    def s_grow(self):
        slots = self.live_bufs()
        if not slots:
            return None
        r = self.r
        pref = self.live_bufs(lambda b: b.shared and b.max_len is not None)
        slot = r.choice(pref) if pref and r.chance(0.9) else r.choice(slots)
        buf = self.m.buf_of_slot(slot)
        mx = buf.max_len if buf.max_len is not None else buf.blen()
        k = r.below(100)
        if k < 70:
            n = jn(float(r.range(buf.blen(), max(mx, buf.blen()))))
        elif k < 88:
            n = jn(float(r.choice([mx, mx + 1, buf.blen(), max(0, buf.blen() - 1), 0])))
        else:
            n = r.choice([jn(-1.0), jn(math.nan), JU, jn(2.0 ** 53)])
        return {"op": "grow", "b": slot, "n": self.maybe_hostile(n, self.m.b[slot])}

    def s_detach(self):
        if not self.has_detach:
            return None
        # the host function is only specified for live, non-shared ArrayBuffers
        slots = self.live_bufs(lambda b: not b.shared and not b.detached)
        if not slots:
            return None
        return {"op": "detach", "b": self.r.choice(slots)}

    def s_bslice(self):
        slots = self.live_bufs()
        if not slots:
            return None
        slot = self.r.choice(slots)
        buf = self.m.buf_of_slot(slot)
        st = {"op": "bslice", "b": slot, "slot": self.free_slot(self.m.b, N_BUF)}
        if self.r.chance(0.9):
            st["start"] = self.rel_index(buf.blen(), self.m.b[slot])
        if self.r.chance(0.7):
            st["end"] = self.rel_index(buf.blen(), self.m.b[slot])
        return st

    def s_transfer(self):
        if not self.has_transfer:
            return None
        slots = self.live_bufs(lambda b: not b.shared)
        if not slots:
            return None
        slot = self.r.choice(slots)
        buf = self.m.buf_of_slot(slot)
        st = {"op": "transfer", "b": slot, "slot": self.free_slot(self.m.b, N_BUF), "fixed": self.r.chance(0.4)}
        if self.r.chance(0.6):
            st["n"] = self.abs_index(buf.blen() + 8, 1, self.m.b[slot])
        return st

    def s_mkta(self):
        slots = self.live_bufs()
        if not slots:
            return None
        r = self.r
        slot = r.choice(slots)
        uid = self.m.b[slot]
        buf = self.m.bufs[uid]
        t = r.choice(self.types)
        size = TYPES[t][0]
        bl = buf.blen()
        st = {"op": "mkta", "slot": self.free_slot(self.m.v, N_VIEW), "t": t, "b": slot}
        if r.chance(0.75):
            st["off"] = self.abs_index(bl, size, uid)
            if r.chance(0.6):
                off = 0
                try:
                    off = int(bm._num_of(st["off"])) if st["off"][0] == "n" else 0
                except (ValueError, OverflowError):
                    off = 0
                st["len"] = self.abs_index(max(0, (bl - off) // size), 1, uid)
        return st

    def s_mkdv(self):
        slots = self.live_bufs()
        if not slots:
            return None
        r = self.r
        slot = r.choice(slots)
        uid = self.m.b[slot]
        bl = self.m.bufs[uid].blen()
        st = {"op": "mkdv", "slot": self.free_slot(self.m.v, N_VIEW), "b": slot}
        if r.chance(0.7):
            st["off"] = self.abs_index(bl, 1, uid)
            if r.chance(0.6):
                off = 0
                try:
                    off = int(bm._num_of(st["off"])) if st["off"][0] == "n" else 0
                except (ValueError, OverflowError):
                    off = 0
                st["len"] = self.abs_index(max(0, bl - off), 1, uid)
        return st

    def s_mkta_len(self):
        r = self.r
        n = jn(float(r.range(0, 6))) if r.chance(0.85) else r.choice([jn(-1.0), jn(1.5), jn(math.nan), JU, ["null"], jn(2.0 ** 53)])
        return {"op": "mkta_len", "slot": self.free_slot(self.m.v, N_VIEW), "t": r.choice(self.types), "n": n}

    def s_mkta_ta(self):
        tas = self.tas()
        if not tas:
            return None
        r = self.r
        src = r.choice(tas)
        st = self.m.v[src].t
        same_content = [t for t in self.types if bm.is_bigint_type(t) == bm.is_bigint_type(st)]
        t = r.choice(same_content) if r.chance(0.9) else r.choice(self.types)
        return {"op": "mkta_ta", "slot": self.free_slot(self.m.v, N_VIEW), "t": t, "src": src}

    def s_mkta_list(self):
        r = self.r
        t = r.choice(self.types)
        vals = [self.value_for(t, None) for _ in range(r.range(0, 6))]
        return {"op": "mkta_list", "slot": self.free_slot(self.m.v, N_VIEW), "t": t, "values": vals}

    def pick_ta(self, want=None):
        tas = self.tas()
        if not tas:
            return None, None
        if want:
            pref = [k for k in tas if want(self.m.v[k])]
            if pref and self.r.chance(0.85):
                tas = pref
        k = self.r.choice(tas)
        return k, self.m.v[k]

    def elem_index(self, view):
        r = self.r
        n = self.m.ta_length_or_zero(view)
        k = r.below(100)
        if k < 60 and n > 0:
            return r.range(0, n - 1)
        if k < 85:
            return r.choice([n - 1, n, n + 1, -1, 0, n + 7, 2 ** 31, 2 ** 32, 2 ** 32 + 1])
        if k < 93:
            return r.choice(["-0", 1.5, 0.5])
        return r.range(0, n + 2)

    def s_get(self):
        k, view = self.pick_ta()
        if view is None:
            return None
        return {"op": "get", "v": k, "i": self.elem_index(view)}

    def s_set(self):
        k, view = self.pick_ta()
        if view is None:
            return None
        return {"op": "set", "v": k, "i": self.elem_index(view), "val": self.value_for(view.t, view.buf)}

    def pick_dv(self):
        dvs = self.dvs()
        if not dvs:
            return None, None
        k = self.r.choice(dvs)
        return k, self.m.v[k]

    def dv_len(self, view):
        try:
            return self.m.dv_byte_length(view)
        except bm.JSThrow:
            return 0

    def s_dvget(self):
        k, view = self.pick_dv()
        if view is None:
            return None
        r = self.r
        t = r.choice(self.dv_types)
        st = {"op": "dvget", "v": k, "t": t}
        n = self.dv_len(view)
        size = TYPES[t][0]
        if r.chance(0.95):
            st["i"] = self.dv_index(n, size, view.buf)
        if r.chance(0.6):
            st["le"] = r.choice([["t", True], ["t", False], ["t", True], JU, jn(0.0), jn(1.0), ["s", ""], ["s", "a"], ["o", JU, ["none"]]])
        return st

    def dv_index(self, n, size, uid):
        r = self.r
        k = r.below(100)
        if k < 55:
            prim = jn(float(r.range(0, max(0, n - size))))
        elif k < 80:
            prim = jn(float(r.choice([n - size, n - size + 1, n - 1, n, n + 1, 0, max(0, n - size - 1)])))
        else:
            return self.abs_index(n, 1, uid)
        return self.maybe_hostile(prim, uid)

    def s_dvset(self):
        k, view = self.pick_dv()
        if view is None:
            return None
        r = self.r
        t = r.choice(self.dv_types)
        st = {"op": "dvset", "v": k, "t": t}
        n = self.dv_len(view)
        size = TYPES[t][0]
        if r.chance(0.97):
            st["i"] = self.dv_index(n, size, view.buf)
        if r.chance(0.97):
            st["val"] = self.value_for(t, view.buf)
        if r.chance(0.6):
            st["le"] = r.choice([["t", True], ["t", False], ["t", True], JU, jn(0.0), jn(1.0), ["s", ""], ["s", "a"]])
        return st

    def s_fill(self):
        k, view = self.pick_ta()
        if view is None:
            return None
        n = self.m.ta_length_or_zero(view)
        st = {"op": "fill", "v": k, "val": self.value_for(view.t, view.buf)}
        if self.r.chance(0.6):
            st["start"] = self.rel_index(n, view.buf)
            if self.r.chance(0.7):
                st["end"] = self.rel_index(n, view.buf)
        return st

    def s_set_ta(self):
        k, view = self.pick_ta()
        if view is None:
            return None
        r = self.r
        tas = self.tas()
        same_buf = [s for s in tas if self.m.v[s].buf == view.buf]
        src = r.choice(same_buf) if same_buf and r.chance(0.5) else r.choice(tas)
        n = self.m.ta_length_or_zero(view)
        sn = self.m.ta_length_or_zero(self.m.v[src])
        st = {"op": "set_ta", "v": k, "src": src}
        if r.chance(0.75):
            if r.chance(0.7):
                st["off"] = self.maybe_hostile(jn(float(r.range(0, max(0, n - sn)))), view.buf)
            else:
                st["off"] = self.rel_index(n, view.buf)
        return st

    def s_set_arr(self):
        k, view = self.pick_ta()
        if view is None:
            return None
        r = self.r
        n = self.m.ta_length_or_zero(view)
        cnt = r.range(0, min(6, n + 1))
        st = {"op": "set_arr", "v": k, "values": [self.value_for(view.t, view.buf) for _ in range(cnt)]}
        if r.chance(0.2):
            # array-like with a `length` property that is coerced (ToLength)
            ln = r.choice([cnt, cnt, cnt + 1, max(0, cnt - 1)])
            st["srclen"] = self.maybe_hostile(r.choice([jn(float(ln)), jn(ln + 0.5), jn(-1.0), jn(math.nan), ["s", str(ln)]]), view.buf, p=0.5)
        if r.chance(0.7):
            if r.chance(0.7):
                st["off"] = self.maybe_hostile(jn(float(r.range(0, max(0, n - cnt)))), view.buf)
            else:
                st["off"] = self.rel_index(n, view.buf)
        return st

    def s_subarray(self):
        k, view = self.pick_ta()
        if view is None:
            return None
        n = self.m.ta_length_or_zero(view)
        st = {"op": "subarray", "v": k, "slot": self.free_slot(self.m.v, N_VIEW)}
        if self.r.chance(0.85):
            st["begin"] = self.rel_index(n, view.buf)
        if self.r.chance(0.65):
            st["end"] = self.rel_index(n, view.buf)
        return st

    def s_slice(self):
        k, view = self.pick_ta()
        if view is None:
            return None
        n = self.m.ta_length_or_zero(view)
        st = {"op": "slice", "v": k, "slot": self.free_slot(self.m.v, N_VIEW)}
        if self.r.chance(0.85):
            st["start"] = self.rel_index(n, view.buf)
        if self.r.chance(0.65):
            st["end"] = self.rel_index(n, view.buf)
        return st

    def s_copy_within(self):
        k, view = self.pick_ta(lambda x: self.m.ta_length_or_zero(x) >= 2)
        if view is None:
            return None
        n = self.m.ta_length_or_zero(view)
        st = {"op": "copyWithin", "v": k, "target": self.rel_index(n, view.buf), "start": self.rel_index(n, view.buf)}
        if self.r.chance(0.6):
            st["end"] = self.rel_index(n, view.buf)
        return st

    def s_reverse(self):
        k, view = self.pick_ta(lambda x: self.m.ta_length_or_zero(x) >= 2)
        if view is None:
            return None
        return {"op": "reverse", "v": k}

    def s_sort(self):
        k, view = self.pick_ta(lambda x: self.m.ta_length_or_zero(x) >= 2)
        if view is None:
            return None
        st = {"op": "sort", "v": k}
        if self.r.chance(0.35):
            st["effect"] = self.effect(view.buf) if self.r.chance(0.8) else ["none"]
        return st

    def search_value(self, view):
        r = self.r
        n = self.m.ta_length_or_zero(view)
        if n > 0 and r.chance(0.6):
            e = self.m.ta_get(view, r.range(0, n - 1))
            if isinstance(e, bm.Big):
                return jb(e.i)
            if isinstance(e, float):
                return jn(e)
        return r.choice([JU, jn(0.0), jn(-0.0), jn(math.nan), jb(0), jn(1.0), ["s", "1"], ["null"]])

    def s_search(self, op):
        k, view = self.pick_ta()
        if view is None:
            return None
        n = self.m.ta_length_or_zero(view)
        st = {"op": op, "v": k, "val": self.search_value(view)}
        if self.r.chance(0.55):
            st["from"] = self.rel_index(n, view.buf, allow_undef=True)
        return st

    def s_join(self):
        k, view = self.pick_ta()
        if view is None:
            return None
        st = {"op": "join", "v": k}
        if self.r.chance(0.6):
            st["sep"] = self.maybe_hostile(self.r.choice([["s", ","], ["s", ""], ["s", "-"], ["s", "ab"], JU, jn(1.0), ["null"]]), view.buf, p=max(self.hostile_p, 0.3))
        return st

    def s_at(self):
        k, view = self.pick_ta()
        if view is None:
            return None
        return {"op": "at", "v": k, "i": self.rel_index(self.m.ta_length_or_zero(view), view.buf)}

    def s_iter(self, op):
        k, view = self.pick_ta(lambda x: self.m.ta_length_or_zero(x) >= 2)
        if view is None:
            return None
        n = self.m.ta_length_or_zero(view)
        eff = self.effect(view.buf) if self.r.chance(0.8) else ["none"]
        return {"op": op, "v": k, "at": self.r.range(0, max(0, min(n - 1, 4))), "effect": eff}

    def s_with(self):
        k, view = self.pick_ta()
        if view is None:
            return None
        n = self.m.ta_length_or_zero(view)
        return {"op": "with", "v": k, "slot": self.free_slot(self.m.v, N_VIEW), "i": self.rel_index(n, view.buf), "val": self.value_for(view.t, view.buf)}

    def s_atomics(self):
        if not self.atomics:
            return None
        k, view = self.pick_ta(lambda x: TYPES[x.t][1] in "iuIU")
        if view is None:
            return None
        r = self.r
        n = self.m.ta_length_or_zero(view)
        f = r.choice(["load", "store", "store", "add", "sub", "and", "or", "xor", "exchange", "compareExchange"])
        st = {"op": "atomics", "f": f, "v": k, "i": self.abs_index(max(0, n - 1), 1, view.buf)}
        if f != "load":
            st["val"] = self.value_for(view.t if TYPES[view.t][1] != "c" else "Uint8", view.buf)
        if f == "compareExchange":
            cur = self.m.ta_get(view, 0) if n > 0 else None
            if cur is not None and cur is not bm.UNKNOWN and r.chance(0.5):
                st["val"] = jb(cur.i) if isinstance(cur, bm.Big) else jn(cur)
            st["val2"] = self.value_for(view.t, view.buf)
        return st

    # ------------------------------------------------------------------ driver
    def table(self):
        t = [
            (self.s_mkbuf, 3), (self.s_resize, 6), (self.s_grow, 1.5), (self.s_detach, 0.8), (self.s_bslice, 1.5), (self.s_transfer, 1.2),
            (self.s_mkta, 7), (self.s_mkdv, 2.5), (self.s_mkta_len, 0.5), (self.s_mkta_ta, 2.5), (self.s_mkta_list, 1.5), (self.s_subarray, 2.5), (self.s_slice, 2.2),
            (self.s_get, 3), (self.s_set, 10), (self.s_dvget, 4), (self.s_dvset, 7),
            (self.s_fill, 5), (self.s_set_ta, 5.5), (self.s_set_arr, 4), (self.s_copy_within, 4), (self.s_reverse, 1.5), (self.s_sort, 2.5),
            (lambda: self.s_search("indexOf"), 1.5), (lambda: self.s_search("lastIndexOf"), 1), (lambda: self.s_search("includes"), 1.5),
            (self.s_join, 1.5), (self.s_at, 1), (self.s_atomics, 2),
            (lambda: self.s_iter("forEach"), 1.2), (lambda: self.s_iter("forOf"), 1.2), (self.s_with, 1.2),
        ]
        return t

    def commit(self, step):
        """dry-run on a clone; reject steps that record an avoided hazard"""
        m2 = self.m.clone()
        before = dict(m2.hazards)
        m2.exec_step(len(self.steps), step)
        for name, cnt in m2.hazards.items():
            if (name in self.avoid or name.startswith("undef:")) and cnt > before.get(name, 0):
                self.rejected[name] = self.rejected.get(name, 0) + 1
                return False
        self.m = m2
        self.steps.append(step)
        return True

    def generate(self, n_steps=None):
        r = self.r
        if n_steps is None:
            n_steps = r.choice([r.range(5, 12), r.range(10, 30), r.range(10, 30), r.range(25, 60)])
        n_steps = max(5, min(60, n_steps))
        table = self.table()
        # a useful start: one buffer (usually resizable) and a view on it
        for _ in range(20):
            st = self.s_mkbuf()
            if r.chance(0.7):
                st["shared"] = False
                n = r.choice(BUF_LENS[6:])
                st["len"] = jn(float(n))
                st["max"] = jn(float(n + r.choice([0, 8, 16])))
            if self.commit(st) and self.m.b:
                break
        tries = 0
        while len(self.steps) < n_steps and tries < n_steps * 20:
            tries += 1
            if len(self.steps) < 3 and not self.m.v:
                fn = r.choice([self.s_mkta, self.s_mkta, self.s_mkdv])
            else:
                fn = r.weighted(table)
            st = fn()
            if st is None:
                continue
            self.commit(st)
        return self.steps


def generate(rng, has_transfer=False, has_detach=True, avoid=(), f16=None, n_steps=None, hostile_p=None):
    """main stream -> (steps, machine, rejected)  machine = the model after the history (expected trace in .lines)"""
    g = Gen(rng, has_transfer=has_transfer, has_detach=has_detach, avoid=avoid, f16=f16, hostile_p=hostile_p)
    steps = g.generate(n_steps)
    return steps, g.m, g.rejected


def generate_matrix(rng, t, avoid=(), n_steps=40):
    """conversion-matrix stream: one element type, a byte view and a DataView over the same 16 bytes; every step stores
    an arbitrary Number/BigInt through the element type (index store, fill, DataView set in both byte orders, set from
    an array) so that the bytes written are observed through the Uint8 view"""
    g = Gen(rng, avoid=avoid, f16=(t == "Float16"), hostile_p=0.0)
    r = rng
    size = TYPES[t][0]
    for st in ({"op": "mkbuf", "slot": 0, "shared": r.chance(0.2), "len": jn(16.0)},
               {"op": "mkta", "slot": 0, "t": "Uint8", "b": 0},
               {"op": "mkta", "slot": 1, "t": t, "b": 0, "off": jn(float(size * r.range(0, 1)))},
               {"op": "mkdv", "slot": 2, "b": 0}):
        g.commit(st)
    n = g.m.ta_length_or_zero(g.m.v[1])
    tries = 0
    dvt = t if t != "Uint8Clamped" else "Uint8"
    while len(g.steps) < n_steps and tries < n_steps * 10:
        tries += 1
        val = g.value_for(t, None, hostile=False)
        k = r.below(10)
        if k < 4:
            st = {"op": "set", "v": 1, "i": r.range(0, n - 1), "val": val}
        elif k < 7:
            st = {"op": "dvset", "v": 2, "t": dvt, "i": jn(float(r.range(0, 16 - size))), "val": val, "le": ["t", r.chance(0.5)]}
        elif k < 8:
            st = {"op": "fill", "v": 1, "val": val, "start": jn(float(r.range(0, n - 1)))}
        elif k < 9:
            st = {"op": "set_arr", "v": 1, "values": [val, g.value_for(t, None, hostile=False)][: max(1, min(2, n))], "off": jn(0.0)}
        else:
            st = {"op": "dvget", "v": 2, "t": r.choice(g.dv_types), "i": jn(float(r.range(0, 8))), "le": ["t", r.chance(0.5)]}
        g.commit(st)
    return g.steps, g.m, g.rejected


def generate_small(rng, avoid=(), has_detach=True):
    """a tiny history (<= 10 steps) through the byte-copy helpers: fill, overlapping set, copyWithin, slice, shrink, set
    from an array — sized for Miri (minutes per program)"""
    g = Gen(rng, has_detach=has_detach, avoid=avoid, f16=False, hostile_p=0.2)
    r = rng
    n = r.choice([16, 24, 32])
    g.commit({"op": "mkbuf", "slot": 0, "shared": r.chance(0.25), "len": jn(float(n)), "max": jn(float(n + 8))})
    g.commit({"op": "mkta", "slot": 0, "t": "Uint8", "b": 0})
    t = r.choice([x for x in g.types if x != "Uint8"])
    g.commit({"op": "mkta", "slot": 1, "t": t, "b": 0, "off": jn(float(TYPES[t][0] * r.range(0, 1)))})
    for fn in (g.s_fill, g.s_set, g.s_set_ta, g.s_copy_within, g.s_slice, g.s_resize, g.s_set_arr, g.s_subarray):
        for _ in range(6):
            st = fn()
            if st is not None and g.commit(st):
                break
    return g.steps, g.m, g.rejected


# ---------------------------------------------------------------------------------------------------- rendering
PROLOGUE = r"""
var b=[],v=[],L={},K={raw:'ok'},TH={raw:'this'},BAD={raw:'not-this'};
function C(x,y){if(x!==x)return y!==y?0:1;if(y!==y)return -1;return x<y?-1:x>y?1:0}
function G(f){try{return __show(f())}catch(e){return 'throw:'+__show(e)}}
function P(k,s){if(L[k]!==s){L[k]=s;print(k+' '+s)}}
function O(){
  var i,j,n,s,x,t;
  for(i=0;i<3;i++){x=b[i];if(!x)continue;
    if(x instanceof ArrayBuffer)P('b'+i,'AB len='+x.byteLength+' max='+x.maxByteLength+' res='+x.resizable);
    else P('b'+i,'SAB len='+x.byteLength+' max='+x.maxByteLength+' gr='+x.growable);}
  for(i=0;i<6;i++){t=v[i];if(!t)continue;
    if(t instanceof DataView){
      s='DV bl='+G(function(){return t.byteLength})+' bo='+G(function(){return t.byteOffset});
      try{n=t.byteLength}catch(e){n=-1}
      if(n>=0){s+=' [';for(j=0;j<n;j++)s+=(j?',':'')+t.getUint8(j);s+='] end='+G(function(){return t.getUint8(n)})}
      P('v'+i,s);
    }else{
      n=t.length;s=t[Symbol.toStringTag]+' len='+n+' bl='+t.byteLength+' bo='+t.byteOffset+' [';
      for(j=0;j<n;j++)s+=(j?',':'')+__show(t[j]);
      s+='] end='+__show(t[n])+','+__show(t[n+1]);
      P('v'+i,s);
    }}
}
function S(n,f){var r;try{r=f();r=(r&&r.raw)?r.raw:__show(r)}catch(e){r='throw:'+__show(e)}print('#'+n+' '+r);O()}
"""


def num_lit(x):
    if x != x:
        return "NaN"
    if x == math.inf:
        return "Infinity"
    if x == -math.inf:
        return "-Infinity"
    if x == 0:
        return "-0" if math.copysign(1, x) < 0 else "0"
    s = repr(float(x))
    if s.endswith(".0"):
        s = s[:-2]
    return s


def effect_js(eff):
    k = eff[0]
    if k == "none":
        return ""
    if k == "throw":
        return "throw new EvalError();"
    if k == "resize":
        return "try{b[%d].resize(%d)}catch(e){}" % (eff[1], eff[2])
    if k == "grow":
        return "try{b[%d].grow(%d)}catch(e){}" % (eff[1], eff[2])
    if k == "detach":
        return "try{__detach(b[%d])}catch(e){}" % eff[1]
    raise ValueError(eff)


def val_js(v):
    k = v[0]
    if k == "n":
        return num_lit(bm._num_of(v))
    if k == "b":
        return v[1] + "n"
    if k == "u":
        return "undefined"
    if k == "null":
        return "null"
    if k == "t":
        return "true" if v[1] else "false"
    if k == "s":
        return json.dumps(v[1])
    if k == "o":
        e = effect_js(v[2])
        p = val_js(v[1])
        return "{valueOf(){%sreturn %s},toString(){%sreturn %s}}" % (e, p, e, p)
    raise ValueError(v)


def args_js(step, keys):
    """positional arguments: trailing absent keys are omitted, inner absent ones become `undefined`"""
    vals = [step.get(k) for k in keys]
    while vals and vals[-1] is None:
        vals.pop()
    return ",".join("undefined" if x is None else val_js(x) for x in vals)


def idx_js(i):
    if isinstance(i, str):
        return json.dumps(i)
    if isinstance(i, float):
        return num_lit(i)
    return str(i)


def step_js(s):
    op = s["op"]
    if op == "mkbuf":
        ctor = "SharedArrayBuffer" if s["shared"] else "ArrayBuffer"
        if "max" in s:
            return "b[%d]=new %s(%s,{maxByteLength:%s});return K" % (s["slot"], ctor, val_js(s["len"]), val_js(s["max"]))
        return "b[%d]=new %s(%s);return K" % (s["slot"], ctor, val_js(s["len"]))
    if op == "resize":
        return "return b[%d].resize(%s)" % (s["b"], val_js(s["n"]))
    if op == "grow":
        return "return b[%d].grow(%s)" % (s["b"], val_js(s["n"]))
    if op == "detach":
        return "__detach(b[%d]);return K" % s["b"]
    if op == "bslice":
        return "b[%d]=b[%d].slice(%s);return K" % (s["slot"], s["b"], args_js(s, ["start", "end"]))
    if op == "transfer":
        return "b[%d]=b[%d].%s(%s);return K" % (s["slot"], s["b"], "transferToFixedLength" if s.get("fixed") else "transfer", args_js(s, ["n"]))
    if op == "mkta":
        a = args_js(s, ["off", "len"])
        return "v[%d]=new %sArray(b[%d]%s);return K" % (s["slot"], s["t"], s["b"], "," + a if a else "")
    if op == "mkta_len":
        return "v[%d]=new %sArray(%s);return K" % (s["slot"], s["t"], val_js(s["n"]))
    if op == "mkta_ta":
        return "v[%d]=new %sArray(v[%d]);return K" % (s["slot"], s["t"], s["src"])
    if op == "mkta_list":
        return "v[%d]=new %sArray([%s]);return K" % (s["slot"], s["t"], ",".join(val_js(x) for x in s["values"]))
    if op == "mkdv":
        a = args_js(s, ["off", "len"])
        return "v[%d]=new DataView(b[%d]%s);return K" % (s["slot"], s["b"], "," + a if a else "")
    if op == "get":
        return "return v[%d][%s]" % (s["v"], idx_js(s["i"]))
    if op == "set":
        return "v[%d][%s]=%s;return K" % (s["v"], idx_js(s["i"]), val_js(s["val"]))
    if op == "dvget":
        return "return v[%d].get%s(%s)" % (s["v"], s["t"], args_js(s, ["i", "le"]))
    if op == "dvset":
        return "return v[%d].set%s(%s)" % (s["v"], s["t"], args_js(s, ["i", "val", "le"]))
    if op == "fill":
        return "return v[%d].fill(%s)===v[%d]?TH:BAD" % (s["v"], args_js(s, ["val", "start", "end"]), s["v"])
    if op == "set_ta":
        a = args_js(s, ["off"])
        return "return v[%d].set(v[%d]%s)" % (s["v"], s["src"], "," + a if a else "")
    if op == "set_arr":
        a = args_js(s, ["off"])
        if "srclen" in s:
            src = "{length:%s%s}" % (val_js(s["srclen"]), "".join(",%d:%s" % (i, val_js(x)) for i, x in enumerate(s["values"])))
        else:
            src = "[%s]" % ",".join(val_js(x) for x in s["values"])
        return "return v[%d].set(%s%s)" % (s["v"], src, "," + a if a else "")
    if op == "subarray":
        return "v[%d]=v[%d].subarray(%s);return K" % (s["slot"], s["v"], args_js(s, ["begin", "end"]))
    if op == "slice":
        return "v[%d]=v[%d].slice(%s);return K" % (s["slot"], s["v"], args_js(s, ["start", "end"]))
    if op == "copyWithin":
        return "return v[%d].copyWithin(%s)===v[%d]?TH:BAD" % (s["v"], args_js(s, ["target", "start", "end"]), s["v"])
    if op == "reverse":
        return "return v[%d].reverse()===v[%d]?TH:BAD" % (s["v"], s["v"])
    if op == "sort":
        if "effect" in s:
            return "var F=0;return v[%d].sort(function(x,y){if(!F){F=1;%s}return C(x,y)})===v[%d]?TH:BAD" % (s["v"], effect_js(s["effect"]), s["v"])
        return "return v[%d].sort()===v[%d]?TH:BAD" % (s["v"], s["v"])
    if op in ("indexOf", "lastIndexOf", "includes"):
        return "return v[%d].%s(%s)" % (s["v"], op, args_js(s, ["val", "from"]))
    if op == "join":
        return "return v[%d].join(%s)" % (s["v"], args_js(s, ["sep"]))
    if op == "at":
        return "return v[%d].at(%s)" % (s["v"], args_js(s, ["i"]))
    if op == "forEach":
        return "var a=[],n=0;v[%d].forEach(function(x){a.push(__show(x));if(n++==%d){%s}});return a.join()" % (s["v"], s["at"], effect_js(s["effect"]))
    if op == "forOf":
        return "var a=[],n=0;for(var x of v[%d]){a.push(__show(x));if(n++==%d){%s}if(n>200)break}return a.join()" % (s["v"], s["at"], effect_js(s["effect"]))
    if op == "with":
        return "v[%d]=v[%d].with(%s);return K" % (s["slot"], s["v"], args_js(s, ["i", "val"]))
    if op == "atomics":
        return "return Atomics.%s(v[%d],%s)" % (s["f"], s["v"], args_js(s, ["i", "val", "val2"]))
    raise ValueError(op)


def render(steps):
    out = [PROLOGUE]
    for n, s in enumerate(steps):
        out.append("S(%d,function(){%s});" % (n, step_js(s)))
    return "\n".join(out)


def uses_float16(steps):
    return any(s.get("t") == "Float16" for s in steps)
