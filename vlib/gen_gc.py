"""`gc` profile (C10): retention probes. For each engine retention route a uniquely tagged object is made
reachable ONLY through that route, garbage is allocated (so that forced collections have something to
do), and the tag is read back through the route and printed. A missing or asymmetric Trace edge shows
up as a different trace, a panic, a liveness-set assertion or a sanitizer report under a forced
collection schedule.

Lines printed with a leading `~` are *weak observations* (WeakRef / FinalizationRegistry reports): they
are excluded from the trace comparison and checked by their own rules (see checks/c10.py)."""
from .rng import Rng

PRELUDE = r"""
function garbage(n) { var junk = []; for (var i = 0; i < (n || 40); i++) { junk.push({i: i, s: 'g' + i, a: [i, {}]}); } return junk.length; }
function mk(tag) { return {tag: tag, nested: {tag: tag + '.n'}, arr: [tag + '.0', {tag: tag + '.1'}]}; }
function rd(o) { return o.tag + '/' + o.nested.tag + '/' + o.arr[0] + '/' + o.arr[1].tag; }
"""

# every route: (name, code using T as the tag literal); code must end by printing the read-back
ROUTES = [
    ("closure_env", "var f = (function(){ var o = mk(T); return function(){ return rd(o); }; })(); garbage(); print(f());"),
    ("closure_env_nested", "var f = (function(){ var o = mk(T); return function(){ return function(){ return rd(o); }; }; })()(); garbage(); print(f());"),
    ("closure_let_loop", "var fs = []; for (let i = 0; i < 3; i++) { let o = mk(T + i); fs.push(() => rd(o)); } garbage(); print(fs.map(f => f()));"),
    ("generator_local", "function* g(){ var o = mk(T); yield 1; garbage(); yield rd(o); } var it = g(); it.next(); garbage(); print(it.next().value);"),
    ("generator_yielded_value", "function* g(){ yield mk(T); } var it = g(); garbage(); var v = it.next().value; garbage(); print(rd(v));"),
    ("generator_argument", "function* g(a){ yield 1; yield rd(a); } var it = g(mk(T)); it.next(); garbage(); print(it.next().value);"),
    ("generator_sent_value", "function* g(){ var x = yield 1; garbage(); yield rd(x); } var it = g(); it.next(); print(it.next(mk(T)).value);"),
    ("async_await_local", "(async function(){ var o = mk(T); await null; garbage(); print(rd(o)); })();"),
    ("async_await_value", "(async function(){ var o = await Promise.resolve(mk(T)); garbage(); print(rd(o)); })();"),
    ("async_generator", "(async function(){ async function* ag(){ var o = mk(T); yield 1; garbage(); yield rd(o); } var out = []; for await (var v of ag()) { out.push(v); garbage(); } print(out); })();"),
    ("promise_reaction", "Promise.resolve(mk(T)).then(function(v){ garbage(); print(rd(v)); });"),
    ("promise_reject_reaction", "Promise.reject(mk(T)).catch(function(v){ garbage(); print(rd(v)); });"),
    ("promise_pending_closure", "var res; var p = new Promise(function(r){ res = r; }); p.then(function(v){ print(rd(v)); }); garbage(); res(mk(T)); garbage();"),
    ("promise_all", "Promise.all([mk(T), Promise.resolve(mk(T + 'b'))]).then(function(vs){ garbage(); print(vs.map(rd)); });"),
    ("promise_finally_chain", "Promise.resolve(mk(T)).finally(function(){ garbage(); }).then(function(v){ print(rd(v)); });"),
    ("bound_target_this_args", "var b = (function(x){ return rd(this) + '+' + rd(x); }).bind(mk(T), mk(T + 'arg')); garbage(); print(b());"),
    ("map_key_value", "var m = new Map(); m.set(mk(T + 'k'), mk(T)); garbage(); m.forEach(function(v, k){ print(rd(k), rd(v)); });"),
    ("set_element", "var s = new Set([mk(T)]); garbage(); s.forEach(function(v){ print(rd(v)); });"),
    ("map_after_delete", "var m = new Map(); for (var i = 0; i < 6; i++) m.set('k' + i, mk(T + i)); m.delete('k2'); m.delete('k0'); garbage(); var out = []; m.forEach(function(v){ out.push(rd(v)); }); print(out);"),
    ("weakmap_value_live_key", "var k = {}; var wm = new WeakMap(); wm.set(k, mk(T)); garbage(); print(rd(wm.get(k)));"),
    ("weakmap_chain", "var k1 = {}; var wm = new WeakMap(); var k2 = {}; wm.set(k1, k2); wm.set(k2, mk(T)); k2 = null; garbage(); print(rd(wm.get(wm.get(k1))));"),
    # ephemeron fix-point: chains of entries whose key is reachable only through the previous entry's value, inserted in
    # forward, reverse and shuffled order, across one or two weak maps, followed by entries whose key is already dead
    ("weakmap_chain_reverse_dead_tail", "var wm = new WeakMap(); var k1 = {}; (function(){ var k2 = {}, k3 = {}, k4 = {}; wm.set(k4, mk(T)); wm.set(k3, k4); wm.set(k2, k3); wm.set(k1, k2); wm.set({}, 0); })(); garbage(); "
                                         "print(rd(wm.get(wm.get(wm.get(wm.get(k1))))));"),
    ("weakmap_chain_forward_dead_tail", "var wm = new WeakMap(); var k1 = {}; (function(){ var k2 = {}, k3 = {}, k4 = {}; wm.set(k1, k2); wm.set(k2, k3); wm.set(k3, k4); wm.set(k4, mk(T)); wm.set({}, 0); wm.set({}, 1); })(); garbage(); "
                                         "print(rd(wm.get(wm.get(wm.get(wm.get(k1))))));"),
    ("weakmap_chain_shuffled_dead_between", "var wm = new WeakMap(); var k1 = {}; (function(){ var ks = [k1]; for (var i = 0; i < 6; i++) ks.push({}); var order = [3, 0, 5, 1, 4, 2]; "
                                             "for (var j = 0; j < order.length; j++) { var i = order[j]; wm.set(ks[i], i == 5 ? mk(T) : ks[i + 1]); wm.set({}, j); } })(); garbage(); "
                                             "var c = k1; for (var n = 0; n < 5; n++) c = wm.get(c); print(rd(wm.get(c)));"),
    ("weakmap_chain_two_maps", "var wa = new WeakMap(), wb = new WeakMap(); var k1 = {}; (function(){ var k2 = {}, k3 = {}, k4 = {}; wb.set(k4, mk(T)); wa.set(k3, k4); wb.set(k2, k3); wa.set(k1, k2); wb.set({}, 0); wa.set({}, 0); })(); garbage(); "
                                "print(rd(wb.get(wa.get(wb.get(wa.get(k1))))));"),
    ("weakmap_chain_key_kept_by_value_closure", "var wm = new WeakMap(); var k1 = {}; (function(){ var k2 = {}, k3 = {}; wm.set(k3, mk(T)); wm.set(k2, function(){ return k3; }); wm.set(k1, {next: k2}); wm.set({}, 0); })(); garbage(); "
                                                 "print(rd(wm.get(wm.get(wm.get(k1).next)())));"),
    ("weakset_live", "var k = mk(T); var ws = new WeakSet([k]); garbage(); print(ws.has(k), rd(k));"),
    ("array_elements", "var a = [mk(T), , mk(T + 'b')]; garbage(); print(rd(a[0]), 1 in a, rd(a[2]));"),
    ("array_sparse", "var a = []; a[5000] = mk(T); garbage(); print(rd(a[5000]), a.length);"),
    ("array_dense_numbers", "var a = [1.5, 2.5, 3.5]; a.push(4.25); garbage(); print(a);"),
    ("typed_array_buffer", "var u = new Uint8Array([1, 2, 3, 250]); var dv = new DataView(u.buffer); garbage(); print(u, dv.getUint8(3), u.buffer.byteLength);"),
    ("arraybuffer_via_view_only", "var f64 = (function(){ var b = new ArrayBuffer(16); new Float64Array(b)[1] = 6.5; return new Float64Array(b, 8, 1); })(); garbage(); print(f64[0], f64.buffer.byteLength);"),
    ("class_private_field", "class P { #o = mk(T); get(){ return rd(this.#o); } static #s = mk(T + 's'); static sget(){ return rd(P.#s); } #m(){ return 'pm'; } callm(){ return this.#m(); } } var p = new P(); garbage(); print(p.get(), P.sget(), p.callm());"),
    ("class_static_block_closure", "class Q { static f; static { var o = mk(T); Q.f = function(){ return rd(o); }; } } garbage(); print(Q.f());"),
    ("accessor_pair", "var o = {}; Object.defineProperty(o, 'p', {get: (function(){ var h = mk(T); return function(){ return rd(h); }; })(), set: function(v){}, configurable: true}); garbage(); print(o.p);"),
    ("proxy_target_handler", "var px = new Proxy(mk(T), {get: (function(){ var extra = mk(T + 'h'); return function(t, k){ return k === 'both' ? rd(t) + '&' + rd(extra) : t[k]; }; })()}); garbage(); print(px.both);"),
    ("revocable_proxy", "var rp = Proxy.revocable(mk(T), {}); garbage(); print(rd(rp.proxy)); rp.revoke(); garbage(); try { rp.proxy.tag; } catch (e) { print(e); }"),
    ("array_iterator_in_flight", "var it = [mk(T), mk(T + 'b')][Symbol.iterator](); it.next(); garbage(); print(rd(it.next().value));"),
    ("map_iterator_in_flight", "var it = new Map([[1, mk(T)], [2, mk(T + 'b')]]).values(); it.next(); garbage(); print(rd(it.next().value));"),
    ("set_iterator_in_flight", "var it = new Set([mk(T)]).entries(); garbage(); print(rd(it.next().value[0]));"),
    ("string_iterator", "var it = ('ab' + T)[Symbol.iterator](); it.next(); garbage(); print(it.next().value);"),
    ("regexp_state", "var re = /a(b)(?<n>c)?/g; re.lastIndex = 0; re.extra = mk(T); var m = re.exec('xabcabc'); garbage(); print(m[0], m[1], m.groups.n, m.index, re.lastIndex, rd(re.extra));"),
    ("regexp_matchall_iterator", "var it = ('a1b2' + T).matchAll(/[a-z](\\d)/g); it.next(); garbage(); print(it.next().value[1]);"),
    ("template_object_cache", "function tg(s){ return s; } function site(){ return tg`x${1}y`; } var a = site(); garbage(); var b = site(); print(a === b, a.raw[1], Object.isFrozen(a));"),
    ("arguments_mapped", "var f = (function(a, b){ var args = arguments; return function(){ return rd(args[0]) + args.length; }; })(mk(T), 2); garbage(); print(f());"),
    ("arguments_unmapped", "var f = (function(a){ 'use strict'; var args = arguments; return function(){ return rd(args[0]); }; })(mk(T)); garbage(); print(f());"),
    ("rest_and_spread", "var f = (function(...r){ return function(){ return r.map(rd); }; })(...[mk(T), mk(T + 'b')]); garbage(); print(f());"),
    ("symbol_keyed_property", "var s = Symbol('d' + T); var o = {}; o[s] = mk(T); garbage(); print(rd(o[s]), s.description, Symbol.for('reg' + T) === Symbol.for('reg' + T));"),
    ("error_cause", "var e = new Error('m', {cause: mk(T)}); garbage(); print(rd(e.cause));"),
    ("aggregate_error", "var e = new AggregateError([mk(T)], 'm'); garbage(); print(rd(e.errors[0]));"),
    ("thrown_value_in_flight", "try { (function(){ throw mk(T); })(); } catch (e) { garbage(); print(rd(e)); }"),
    ("finally_pending_return", "print((function(){ try { return mk(T); } finally { garbage(); } })().tag);"),
    ("prototype_only_via_object", "var o = Object.create(mk(T)); garbage(); print(rd(o), rd(Object.getPrototypeOf(o)));"),
    ("function_property_and_prototype", "function F(){} F.extra = mk(T); F.prototype.p = mk(T + 'p'); garbage(); print(rd(F.extra), rd(new F().p));"),
    ("home_object_super", "var base = {tagOf(){ return rd(this.o); }}; var d = {__proto__: base, o: mk(T), tagOf(){ return 'd:' + super.tagOf(); }}; base = null; garbage(); print(d.tagOf());"),
    ("getter_on_class_instance_closure", "class G { constructor(){ var o = mk(T); this.f = () => rd(o) + (this instanceof G); } } var g = new G(); garbage(); print(g.f());"),
    ("with_object_environment", "var f; with ({o: mk(T)}) { f = function(){ return rd(o); }; } garbage(); print(f());"),
    ("eval_var_environment", "var f = (function(){ eval('var ev = mk(T)'); return function(){ return rd(ev); }; })(); garbage(); print(f());"),
    ("json_parse_result", "var o = JSON.parse('{\"tag\":\"' + T + '\",\"nested\":{\"tag\":\"' + T + '.n\"},\"arr\":[\"' + T + '.0\",{\"tag\":\"' + T + '.1\"}]}'); garbage(); print(rd(o));"),
    ("destructuring_iterator_exception", "try { var [a, b = (function(){ throw mk(T); })()] = [1]; } catch (e) { garbage(); print(rd(e)); }"),
    ("object_spread_copy", "var o = {...mk(T)}; garbage(); print(rd(o));"),
    ("weakref_strongly_held", "var o = mk(T); var wr = new WeakRef(o); garbage(); print(wr.deref() === o, rd(wr.deref()));"),
    ("weakref_kept_during_job", "var wr = new WeakRef(mk(T)); garbage(); print(wr.deref() !== undefined ? rd(wr.deref()) : 'collected-in-same-job');"),
    ("weakref_dropped", "var wr = (function(){ return new WeakRef(mk(T)); })(); garbage(); Promise.resolve().then(function(){ garbage(); print('~weakref ' + (wr.deref() === undefined ? 'dead' : 'live')); });"),
    ("finreg_live_target", "var o = mk(T); var fr = new FinalizationRegistry(function(h){ print('~fin ' + h); }); fr.register(o, 'live:' + T); garbage(); Promise.resolve().then(function(){ garbage(); print(rd(o)); });"),
    ("finreg_dropped_target", "var fr = new FinalizationRegistry(function(h){ print('~fin ' + h); }); (function(){ fr.register(mk(T), 'dead:' + T); })(); garbage(); Promise.resolve().then(function(){ garbage(); print('after'); });"),
    ("finreg_unregister", "var fr = new FinalizationRegistry(function(h){ print('~fin ' + h); }); var tok = {}; (function(){ fr.register(mk(T), 'unregistered:' + T, tok); })(); fr.unregister(tok); garbage(); print('unregistered');"),
    ("object_many_properties", "var o = {}; for (var i = 0; i < 40; i++) o['p' + i] = mk(T + i); for (var i = 0; i < 40; i += 3) delete o['p' + i]; garbage(); print(Object.keys(o).length, rd(o.p1), rd(o.p38));"),
    ("sort_comparator_objects", "var a = [3, 1, 2].map(function(n){ return {n: n, o: mk(T + n)}; }); a.sort(function(x, y){ garbage(5); return x.n - y.n; }); print(a.map(function(x){ return rd(x.o); }));"),
    ("reduce_accumulator", "print([1, 2, 3].reduce(function(acc, n){ garbage(5); acc.push(mk(T + n)); return acc; }, []).map(rd));"),
    ("string_replace_callback", "print(('a-b-' + T).replace(/[ab]/g, function(m){ garbage(5); return mk(m + T).tag; }));"),
    ("tostring_valueof_temporaries", "var o = {valueOf(){ garbage(5); return mk(T).tag.length; }, toString(){ garbage(5); return mk(T).tag; }}; print(o + 1, `${o}`, o * 2);"),
]


def program(seed, index, routes=None):
    """one program exercising a few routes (or exactly the given ones)"""
    r = Rng(seed, "gc", index)
    if routes is None:
        k = 1 + r.below(4)
        routes = [ROUTES[r.below(len(ROUTES))] for _ in range(k)]
    out = [PRELUDE]
    for n, (name, code) in enumerate(routes):
        tag = "'%s_%d'" % (name[:6], n)
        body = code.replace("T", tag) if False else _subst(code, tag)
        out.append("(function route_%s_%d(){ %s })();" % (name, n, body))
    out.append("print('end');")
    return "\n".join(out), [n for n, _ in routes]


def _subst(code, tag):
    # replace the standalone identifier T (not inside words)
    import re
    return re.sub(r"(?<![A-Za-z0-9_$'\"])T(?![A-Za-z0-9_$])", tag, code)
