"""Deterministic generator of array operation *histories* for check C14
("Array behaviour is independent of the internal element storage").

A history creates 1..3 arrays (`ARR[0..2]`) and applies 5..60 steps.  It is rendered to a JS program:

    LIB                         fixed in-program library (dump function D, value renderer V, step runner S, ...)
    ARR=[...];IP=MKIP(k);       creation of the arrays and of the "intermediate prototype" object
    S(k,p,f,fl,lk,pol,rb,np);   one line per step: step number, target array, step function for the real array / Proxy twin,
                                step function for the array-like twin (method calls as Array.prototype.m.call), L-lane
                                eligibility, elements to put on Array.prototype (0) / Object.prototype (1) for the duration of
                                the step: [[where,key,kind 0=data 1=accessor 2=read-only]..] (removed in a finally after the
                                step's dump), rebind flag (ARR[p] = the array the step returned), no-Proxy-lane flag

`S` runs step k on target array p in up to THREE LANES and prints one line per lane:

    k R ret | log | D(target) [| D(new)]    the real array (state accumulates over the history)
    k O A0=<dump> A1==...                    structural dump of EVERY array after the step ('=' = unchanged text)
    k L ret | log | D(clone)  [| D(new)]    `fl` applied to a plain array-like object {length:n, 0:.., ...} that
                                             is a property-for-property clone of the target's state BEFORE the step
                                             (same prototype, same descriptors, same extensibility); every method
                                             call is rendered `Array.prototype.m.call(obj, ...)`
    k P ret | log | D(clone)  [| D(new)]    `f` applied to `new Proxy(realArrayClone, {})` (transparent proxy)

The L and P lanes are *per step twins*: they start from a clone of the real array's pre-state, so one divergence
cannot accumulate.  `lk` says whether the spec gives the array-like the same answer (0 = no L lane; 1 = always;
function(t) -> bool evaluated on the pre-state: e.g. "index < length", "length writable", "extensible").

ret   = the step's own return value through V (exact: -0, NaN, holes through getOwnPropertyDescriptor, nested
        arrays, `<T>` = the target itself, `<Aj>` = another tracked array) or `!<ErrorClass>` / `!big`
log   = getter/setter/valueOf/callback activity in order (a string; never an array, because steps may put
        elements on Array.prototype / Object.prototype)
D(a)  = extensible/sealed/frozen flags, prototype marker, then for every own key in Reflect.ownKeys order the
        descriptor: data `value[/wec flags unless all true]`, accessor `<gs>ec`.  `length` is one of the keys.

Everything is bounded: every O(length) step starts with G(t) which throws the sentinel BIG when length > LIM
(rendered `!big` on both engines); callbacks mutate at most 3 times; iteration loops have hard caps.

Storage forms cannot be probed from JS; the generator *approximates them by construction* (documented in the
evidence of the check): an array that only ever received int32 values -> 'int'; a non-int32 number was stored
-> 'double'; a string/object/undefined/... was stored -> 'value'; a hole, huge index, delete, accessor or
non-default attribute, length growth -> 'sparse'.  The lattice is monotone (boa never narrows a storage form).

`avoid` = named shapes the main stream must not generate because an OPEN known finding covers them
(see known/c14_findings.json; the check replays their exact reproducers instead): AVOID_* below.

Shapes that are never generated because V8 (the oracle) deviates from ECMA-262 there (boa follows the spec):
  - `fill` whose start/end coercion shrinks the array (V8's fast path fills only up to the new length)
  - `sort` on fewer than 2 elements (V8 returns early, the spec still does Get/Set of the single element: visible with an accessor)
  - `toSorted` while an accessor / read-only element sits on Array.prototype / Object.prototype (V8 stores the result with [[Set]])
  - Object.isFrozen is only printed through the dump, where V8's answer is normalised (V8 ignores a writable `length`)
  - inconsistent or side-effecting sort comparators (implementation-defined by the spec itself)
"""
from .rng import Rng

LIM = 200

# avoid flags (shapes covered by OPEN known findings; see known/c14_findings.json)
AVOID_SPLICE_GROW = "splice-grow-in-coercion"   # C14-F1: splice whose start/deleteCount coercion GROWS the array (push/unshift/store
                                                # beyond length): boa's final length write skips the truncation
AVOID_SPREAD_SET = "spread-uses-set"            # C14-F3: spread elements are appended with [[Set]] (Array.prototype.push), so an accessor /
                                                # read-only element on Array.prototype / Object.prototype is observed: steps with `...` get only
                                                # plain data elements on the prototypes
AVOID_SHAPE_ROLLBACK = "shape-rollback"         # C14-F4: deleting a named property, or turning an existing named data property into an accessor
                                                # (or back), rolls the shape back and re-applies the later transitions as inserts; attribute
                                                # changes made to EARLIER properties are lost (a read-only `length` becomes writable again):
                                                # `delete` steps only delete index keys / `length`, defineProperty steps do not redefine an
                                                # existing named key
AVOID_FORIN_PROXY = "forin-proxy"               # C14-F2: for-in over a Proxy does not visit inherited keys: for-in steps get no P lane

LIB = r"""
var AP=Array.prototype,OP=Object.prototype,oK=Reflect.ownKeys,gD=Object.getOwnPropertyDescriptor,dP=Object.defineProperty,
    gPO=Object.getPrototypeOf,sPO=Object.setPrototypeOf,isA=Array.isArray,isX=Object.isExtensible,isF=Object.isFrozen,
    isS=Object.isSealed,pE=Object.preventExtensions,OC=Object.create,HOP=Object.prototype.hasOwnProperty,SCS=Symbol.isConcatSpreadable;
var ARR=[],LOG='',IP=null,LAST={},LIM=200,BIG={big:1};
function N(v){return v!==v?'NaN':v===0?(1/v<0?'-0':'0'):''+v;}
function V(v,d){
  var t=typeof v,i,s,n,m,e,ks,k,c;
  if(v===undefined)return 'u';if(v===null)return 'null';
  if(t==='number')return N(v);
  if(t==='string')return '"'+v+'"';
  if(t==='boolean')return v?'true':'false';
  if(t==='bigint')return ''+v+'n';
  if(t==='symbol')return 'sym';
  if(t==='function')return 'fn';
  for(i=0;i<ARR.length;i++)if(v===ARR[i])return '<A'+i+'>';
  if(d>2)return isA(v)?'[..]':'O{..}';
  if(isA(v)){
    n=v.length;s='[#'+n+':';m=n<48?n:48;
    for(i=0;i<m;i++){e=gD(v,i);s+=(i?',':'')+(e===undefined?'<hole>':('value' in e)?V(e.value,d+1):'<acc>');}
    return s+(n>m?',...':'')+']';
  }
  ks=oK(v);s='O{';c=0;
  for(i=0;i<ks.length&&c<12;i++){k=ks[i];if(typeof k!=='string')continue;e=gD(v,k);if(e===undefined||!e.enumerable)continue;
    s+=(c++?',':'')+k+':'+(('value' in e)?V(e.value,d+1):'<acc>');}
  return s+'}';
}
function D(a){
  var ks=oK(a),pr=gPO(a),s='<'+(isX(a)?'X':'-')+(isS(a)?'S':'-')+(isF(a)?(gD(a,'length').writable?'f':'F'):'-')+(pr===AP?'':pr===IP?'i':pr===OP?'o':'?')+'>{',i,k,e,f,n=ks.length;
  if(n>420)n=420;
  for(i=0;i<n;i++){
    k=ks[i];e=gD(a,k);
    s+=(i?',':'')+(typeof k==='symbol'?'@'+k.description:k)+':';
    if(e===undefined){s+='<gone>';continue;}
    if('value' in e){f=(e.writable?'w':'-')+(e.enumerable?'e':'-')+(e.configurable?'c':'-');s+=V(e.value,1)+(f==='wec'?'':'/'+f);}
    else s+='<'+(e.get?'g':'')+(e.set?'s':'')+'>'+(e.enumerable?'e':'-')+(e.configurable?'c':'-');
  }
  return s+(ks.length>n?',...#'+ks.length:'')+'}';
}
function EC(e){
  if(e===BIG)return 'big';
  if(typeof e!=='object'||e===null)return 'thrown:'+V(e,1);
  return e instanceof TypeError?'TypeError':e instanceof RangeError?'RangeError':e instanceof ReferenceError?'ReferenceError':
    e instanceof SyntaxError?'SyntaxError':e instanceof Error?'Error':'thrown:'+V(e,1);
}
function G(a){if(a.length>LIM)throw BIG;}
function MKIP(k){var p=OC(AP);
  if(k&1){p[1]='i1';p[4]='i4';}
  if(k&2)dP(p,2,{get:function(){LOG+='ig2;';return 'IG2';},set:function(v){LOG+='is2;';},enumerable:true,configurable:true});
  if(k&4)p.ipx='x';
  if(k&8)dP(p,0,{value:'i0',writable:false,enumerable:true,configurable:true});
  return p;}
function PO(e){var o=e[0]?OP:AP,k=e[1];
  if(e[2]===0)dP(o,k,{value:'P'+k,writable:true,enumerable:true,configurable:true});
  else if(e[2]===1)dP(o,k,{get:function(){LOG+='pg'+k+';';return 'PG'+k;},set:function(v){LOG+='ps'+k+';';},enumerable:true,configurable:true});
  else dP(o,k,{value:'R'+k,writable:false,enumerable:true,configurable:true});}
function AC(id,e,c,s){var d={get:function(){LOG+='g'+id+';';return this['_'+id];},enumerable:e,configurable:c};
  if(s)d.set=function(v){LOG+='s'+id+';';this['_'+id]=v;};return d;}
function EV(m,r){var done=0,f=function(){LOG+='vo;';if(m&&!done){done=1;m();}return r;};return {valueOf:f,toString:f};}
function RK(x){var t=typeof x;return t==='number'?(x!==x?1:0):t==='string'?2:t==='bigint'?3:4;}
function C1(x,y){var a=RK(x),b=RK(y);if(a!==b)return a<b?-1:1;if(a===0||a===2)return x<y?-1:x>y?1:0;return 0;}
function C2(x,y){return -C1(x,y);}
function C0(x,y){return 0;}
function CT(x,y){throw 'CMP';}
function CN(x,y){var c=C1(x,y);return c<0?-0.5:c>0?'1':undefined;}
function AI(k){var s=String(k),u=s>>>0;return String(u)===s&&u!==4294967295;}
function IR(t,k){var s=String(k),u=s>>>0;if(String(u)!==s||u===4294967295)return true;return u<t.length;}
function LW(t){return gD(t,'length').writable;}
function CL(t,real){
  var pr=gPO(t),o,ks=oK(t),ld=gD(t,'length'),i,k;
  if(real){o=[];if(pr!==AP)sPO(o,pr);}
  else{o=OC(pr);dP(o,'length',{value:ld.value,writable:true,enumerable:false,configurable:false});}
  for(i=0;i<ks.length;i++){k=ks[i];if(k==='length')continue;dP(o,k,gD(t,k));}
  if(real)o.length=ld.value;
  if(!ld.writable)dP(o,'length',{writable:false});
  if(!isX(t))pE(o);
  return o;
}
function RUN(k,lane,t,f,pol,rb,tgt){
  var r,s,i,v,nw=null;
  LOG='';
  try{
    if(pol)for(i=0;i<pol.length;i++)PO(pol[i]);
    try{v=f(t);r=(v===t?'<T>':V(v,0));if(rb&&v!==t&&isA(v))nw=v;}
    catch(e){r='!'+EC(e);}
    s=k+' '+lane+' '+r+' | '+LOG+' | '+D(tgt);
    if(rb)s+=' | '+(nw?D(nw):'-');
  }finally{
    if(pol)for(i=0;i<pol.length;i++)delete (pol[i][0]?OP:AP)[pol[i][1]];
  }
  print(s);
  return nw;
}
function S(k,p,f,fl,lk,pol,rb,np){
  var t=ARR[p],o=null,c,x,nw,s,j,d;
  if(fl&&lk&&t.length<4294000000&&(lk===1||lk(t)))o=CL(t,0);
  if(!np){c=CL(t,1);x=new Proxy(c,{});}
  nw=RUN(k,'R',t,f,pol,rb,t);
  if(nw)ARR[p]=nw;
  s=k+' O';
  for(j=0;j<ARR.length;j++){d=D(ARR[j]);s+=' A'+j+'='+(LAST['d'+j]===d?'=':d);LAST['d'+j]=d;}
  print(s);
  if(o)RUN(k,'L',o,fl,pol,rb,o);
  if(!np)RUN(k,'P',x,f,pol,rb,c);
}
"""

# --------------------------------------------------------------------------------------------
# value pools: (js, class)   class: i = int32, d = other number, v = anything else

INTS = ["0", "1", "2", "3", "7", "-1", "42", "255", "2147483647", "-2147483648", "5", "9"]
DOUBLES = ["1.5", "-2.25", "0.1", "2147483648", "4294967295", "1e21", "-0", "NaN", "Infinity", "-Infinity", "1e-7", "0.5",
           "-2147483649"]
OTHERS = ["'a'", "'b'", "''", "'10'", "'9'", "undefined", "null", "true", "false", "10n"]

FORM_ORDER = ["int", "double", "value", "sparse"]


def form_of(cls):
    if "s" in cls:
        return "sparse"
    if "v" in cls:
        return "value"
    if "d" in cls:
        return "double"
    return "int"


class ArrInfo:
    """approximate, by-construction knowledge about one tracked array"""

    def __init__(self, cls, est):
        self.cls = set(cls)
        self.est = est          # rough length estimate (only steers choices; correctness never depends on it)
        self.huge = False
        self.locked = False     # frozen / sealed / non-extensible / length read-only (likely)

    def form(self):
        return form_of(self.cls)


class Step:
    def __init__(self, op, body, lk="1", adds=(), sparse=False, rb=False, rb_dense=False, guard=True, tags=(), dlen=0,
                 newest=None, locks=False):
        self.op = op
        self.body = body        # function(M) -> JS statements of the step function; M(name, args) renders a call on t
        self.lk = lk            # '0' | '1' | JS expression over t
        self.adds = set(adds)
        self.sparse = sparse
        self.rb = rb
        self.rb_dense = rb_dense
        self.guard = guard
        self.tags = list(tags)
        self.dlen = dlen
        self.newest = newest
        self.locks = locks


def M_real(name, args=""):
    return "t.%s(%s)" % (name, args)


def M_like(name, args=""):
    return "AP.%s.call(t%s)" % (name, ("," + args) if args else "")


class History:
    def __init__(self):
        self.header = ""
        self.lines = []
        self.meta = []          # per step: {op, p, before, after, tags}
        self.creates = []
        self.strict = False
        self.profile = ""
        self.forms = set()
        self.transitions = []
        self.ops = set()
        self.tags = set()

    def src(self):
        return self.header + "\n" + "\n".join(self.lines) + "\n"

    def describe(self):
        return {"profile": self.profile, "strict": self.strict, "creates": self.creates,
                "ops": [m["op"] for m in self.meta]}


class Gen:
    def __init__(self, r, avoid=()):
        self.r = r
        self.avoid = set(avoid)
        self.arrs = []
        self.h = History()
        self.uid = 0
        self.phase = 3
        self.staged = False
        self.weights = None
        self.no_grow = False
        self.no_shrink = False

    # ------------------------------------------------------------------ values
    def allowed(self):
        if not self.staged:
            return "idv"
        return ["i", "id", "idv", "idv"][self.phase]

    def sparse_ok(self):
        return (not self.staged) or self.phase >= 3

    def value(self, classes=None):
        """returns (js, class)"""
        r = self.r
        classes = classes or self.allowed()
        w = []
        if "i" in classes:
            w.append(("i", 5))
        if "d" in classes:
            w.append(("d", 3 if "v" in classes else 5))
        if "v" in classes:
            w.append(("v", 3))
        c = r.weighted(w)
        if c == "i":
            return r.choice(INTS), "i"
        if c == "d":
            return r.choice(DOUBLES), "d"
        k = r.below(14)
        if k < 10:
            return OTHERS[k], "v"
        self.uid += 1
        if k == 10 or k == 11:
            return "{id:%d}" % self.uid, "v"
        if k == 12:
            return "[%d,[%d]]" % (self.uid, self.uid + 100), "v"
        return r.choice(["[]", "[1,,2]", "[[1.5]]", "function(){}"]), "v"

    def values(self, n):
        js, cls = [], set()
        for _ in range(n):
            v, c = self.value()
            js.append(v)
            cls.add(c)
        return js, cls

    def probe_value(self):
        """a value to search for (indexOf/includes/fill...)"""
        return self.r.choice(["0", "-0", "NaN", "1", "2", "1.5", "undefined", "null", "'a'", "'10'", "10", "3", "7", "42",
                              "2147483648", "true", "10n", "'i1'", "'P2'"])

    def ref(self, j, p):
        return "t" if j == p else "ARR[%d]" % j

    # ------------------------------------------------------------------ mutations used in callbacks / valueOf
    def mutation(self, M, st):
        """returns JS statement mutating t; updates step st (lk, adds, sparse)"""
        r = self.r
        kinds = ["push", "pop", "shift", "unshift", "setin", "reverse", "splice", "fill", "conv_d", "conv_v"]
        if self.sparse_ok():
            kinds += ["len0", "len1", "delete", "delete", "grow", "nonwritable", "accessor", "len0"]
        if self.no_grow:
            kinds = [x for x in kinds if x not in ("push", "unshift", "grow")]
        if self.no_shrink:
            kinds = [x for x in kinds if x not in ("pop", "shift", "splice", "len0", "len1")]
        k = r.choice(kinds)
        st.tags.append("mut:" + k)
        if k == "push":
            v, c = self.value()
            st.adds.add(c)
            return M("push", v) + ";"
        if k == "pop":
            return M("pop") + ";"
        if k == "shift":
            return "if(t.length<=LIM){" + M("shift") + ";" + "}"
        if k == "unshift":
            v, c = self.value()
            st.adds.add(c)
            return "if(t.length<=LIM){" + M("unshift", v) + ";" + "}"
        if k == "setin":
            v, c = self.value()
            st.adds.add(c)
            j = r.choice(["0", "1", "2", "t.length-1", "t.length>>1"])
            return "if(%s>=0&&%s<t.length)t[%s]=%s;" % (j, j, j, v)
        if k == "reverse":
            return "if(t.length<=LIM){" + M("reverse") + ";" + "}"
        if k == "splice":
            return "if(t.length<=LIM){" + M("splice", "%d,%d" % (r.below(3), r.range(1, 2))) + ";}"
        if k == "fill":
            v, c = self.value()
            st.adds.add(c)
            return "if(t.length<=LIM){" + M("fill", v) + ";" + "}"
        if k == "conv_d":
            if "d" not in self.allowed():
                return "if(t.length>0)t[0]=1;"
            st.adds.add("d")
            return "if(t.length>0)t[0]=%s;" % r.choice(DOUBLES)
        if k == "conv_v":
            if "v" not in self.allowed():
                return "if(t.length>0)t[0]=2;"
            st.adds.add("v")
            return "if(t.length>0)t[0]=%s;" % r.choice(["'s'", "{id:0}", "undefined"])
        if k == "len0":
            st.lk = "0"
            return "t.length=0;"
        if k == "len1":
            st.lk = "0"
            return "t.length=1;"
        if k == "delete":
            st.sparse = True
            return "if(t.length>0)delete t[%s];" % r.choice(["0", "1", "2", "3", "t.length-1", "t.length>>1"])
        if k == "grow":
            st.lk = "0"
            st.sparse = True
            v, c = self.value()
            st.adds.add(c)
            return "t[t.length+%d]=%s;" % (r.range(1, 4), v)
        if k == "nonwritable":
            st.sparse = True
            st.adds.add("v")
            return "if(t.length>1)dP(t,1,{value:'nw',writable:false,enumerable:true,configurable:true});"
        # accessor
        st.sparse = True
        self.uid += 1
        return "if(t.length>0){t._%d=%d;dP(t,0,AC(%d,true,true,true));}" % (self.uid, self.uid, self.uid)

    def twice(self, fn):
        """runs fn(M, sub_step) for the real and for the like rendering from the SAME random state, so that both
        lanes get the same choices; returns (real_text, like_text, sub_step)"""
        r = self.r
        state, uid = r.s, self.uid
        sub = Step("x", None)
        real = fn(M_real, sub)
        after, uid2 = r.s, self.uid
        r.s, self.uid = state, uid
        like = fn(M_like, Step("x", None))
        assert r.s == after and self.uid == uid2
        return real, like, sub

    @staticmethod
    def merge(st, sub, mutates=True):
        st.adds |= sub.adds
        st.sparse = st.sparse or sub.sparse
        st.tags += sub.tags
        if sub.lk == "0" or st.lk == "0":
            st.lk = "0"
        elif mutates and "LW(t)" not in st.lk:
            st.lk = "LW(t)" if st.lk == "1" else st.lk + "&&LW(t)"

    def mut_pair(self, st, p, tag):
        """with probability p a guarded mutation statement `if(<when>){...}`, rendered for both lanes"""
        r = self.r
        if not r.chance(p):
            return {M_real: "", M_like: ""}
        real, like, sub = self.twice(self.mutation)
        when = r.choice(["c===0", "c===1", "c===2", "c<3", "c===1"])
        self.merge(st, sub)
        st.tags.append(tag)
        return {M_real: "if(%s){%s}" % (when, real), M_like: "if(%s){%s}" % (when, like)}

    # ------------------------------------------------------------------ creation
    def create(self, idx):
        r = self.r
        if self.staged:
            k = r.below(4)
            n = r.range(0, 6)
            ints = [r.choice(INTS) for _ in range(n)]
            if k == 0 or n == 0:
                return "[%s]" % ",".join(ints), ArrInfo("i", n), "literal-int"
            if k == 1 and n != 1:
                return "Array.of(%s)" % ",".join(ints), ArrInfo("i", n), "Array.of"
            if k == 2:
                return "Array.from({length:%d},function(_,i){return i*2;})" % n, ArrInfo("i", n), "Array.from-fn"
            if n >= 2:
                return "new Array(%s)" % ",".join(ints), ArrInfo("i", n), "new Array(a,b)"
            return "[%s]" % ",".join(ints), ArrInfo("i", n), "literal-int"
        k = r.below(20)
        n = r.range(0, 7)
        if k < 4:
            ints = [r.choice(INTS) for _ in range(n)]
            return "[%s]" % ",".join(ints), ArrInfo("i", n), "literal-int"
        if k < 6:
            xs = [r.choice(INTS + DOUBLES) for _ in range(max(1, n))]
            cls = "id" if any(x in DOUBLES for x in xs) else "i"
            return "[%s]" % ",".join(xs), ArrInfo(cls, len(xs)), "literal-num"
        if k < 9:
            js, cls = [], set()
            for _ in range(max(1, n)):
                v, c = self.value("idv")
                js.append(v)
                cls.add(c)
            return "[%s]" % ",".join(js), ArrInfo(cls, len(js)), "literal-mixed"
        if k < 11:
            js, cls = [], {"s"}
            for _ in range(max(2, n)):
                if r.chance(0.35):
                    js.append("")
                else:
                    v, c = self.value("idv")
                    js.append(v)
                    cls.add(c)
            txt = ",".join(js)
            if js[-1] == "":
                txt += ","
            return "[%s]" % txt, ArrInfo(cls, len(js)), "literal-holes"
        if k == 11:
            m = r.choice([0, 1, 3, 5, 12])
            return r.choice(["Array(%d)", "new Array(%d)"]) % m, ArrInfo("s" if m else "i", m), "Array(n)"
        if k == 12:
            js, cls = self.values(r.range(1, 4))
            if len(js) == 1 and cls == {"i"}:
                js.append("1.5")
                cls.add("d")
            return "new Array(%s)" % ",".join(js), ArrInfo(cls, len(js)), "new Array(a,b)"
        if k == 13:
            js, cls = self.values(r.range(1, 4))
            return "Array.of(%s)" % ",".join(js), ArrInfo(cls, len(js)), "Array.of"
        if k == 14:
            c = r.below(5)
            if c == 0:
                return "Array.from('abc')", ArrInfo("v", 3), "Array.from-string"
            if c == 1:
                return "Array.from({length:3})", ArrInfo("v", 3), "Array.from-arraylike"
            if c == 2:
                return "Array.from({length:%d},function(_,i){return i/2;})" % n, ArrInfo("id", n), "Array.from-fn"
            if c == 3:
                return "Array.from([1,,3])", ArrInfo("iv", 3), "Array.from-holes"
            return "Array.from(new Set([1,2,1.5]))", ArrInfo("id", 3), "Array.from-iterable"
        if k == 15:
            return r.choice([("Array(%d).fill(0)" % max(1, n), ArrInfo("si", max(1, n)), "Array(n).fill"),
                             ("[1,2,3].map(function(x){return x/2;})", ArrInfo("id", 3), "map-result"),
                             ("[...'ab']", ArrInfo("v", 2), "spread-string"),
                             ("Array.apply(null,Array(3))", ArrInfo("v", 3), "Array.apply")])
        if k == 16:
            return r.choice([("JSON.parse('[1,2.5,\"x\",[4]]')", ArrInfo("idv", 4), "JSON.parse"),
                             ("JSON.parse('[1,2,3]')", ArrInfo("i", 3), "JSON.parse"),
                             ("'a,b,c'.split(',')", ArrInfo("v", 3), "split"),
                             ("Object.keys({a:1,b:2})", ArrInfo("v", 2), "Object.keys")])
        if k == 17:
            return "[]", ArrInfo("i", 0), "literal-empty"
        xs = [r.choice(DOUBLES) for _ in range(max(1, n))]
        return "[%s]" % ",".join(xs), ArrInfo("d", len(xs)), "literal-double"

    # ------------------------------------------------------------------ callbacks
    def callback(self, M, st, kind):
        """JS function expression for iteration methods. kind: map|pred|each|flatmap"""
        r = self.r
        mut = ""
        if r.chance(0.3):
            m = self.mutation(M, st)
            when = r.choice(["c===0", "c===1", "c===2", "c<3", "c===1"])
            mut = "if(%s){%s}" % (when, m)
            st.tags.append("cb-mutates")
        thr = ""
        if r.chance(0.04):
            thr = "if(c===%d)throw 'CB';" % r.below(3)
            st.tags.append("cb-throws")
        if kind == "map":
            ret = r.choice(["x", "x", "i", "typeof x==='number'?x+0.5:x", "typeof x==='number'?x*2:x", "[x]", "undefined"])
        elif kind == "flatmap":
            ret = r.choice(["[x,i]", "x", "[[x]]", "[]", "i%2?[x]:x", "[,x]"])
        elif kind == "pred":
            ret = r.choice(["i%2===0", "x!==undefined", "typeof x==='number'", "true", "false", "x===%s" % self.probe_value(),
                            "i===2", "x!==x", "i>=1"])
        else:
            ret = "undefined"
        return "function(x,i){LOG+=i+':'+V(x,1)+';';%s%sc++;return %s;}" % (thr, mut, ret)

    # ------------------------------------------------------------------ step catalogue
    def key_choice(self, st, a, for_store=True):
        """property key expression for element access; marks sparse when it may create a hole"""
        r = self.r
        safe = ["t.length", "t.length-1", "t.length>>1", "0"]
        if not self.sparse_ok():
            return r.choice(safe)
        k = r.below(30)
        if k < 8:
            return r.choice(safe)
        if k < 15:
            st.sparse = True
            return str(r.range(0, 8))
        if k < 18:
            st.sparse = True
            return "t.length+%d" % r.range(1, 30)
        if k < 21:
            st.sparse = True
            if for_store:
                a.huge = True
            st.tags.append("huge-index")
            return r.choice(["4294967294", "4294967295", "9007199254740992", "2147483648", "4294967293"])
        st.tags.append("odd-key")
        return r.choice(["'2'", "'02'", "'-1'", "-1", "1.5", "-0", "'x'", "'1e3'", "'0'", "'4294967294'"]) if k < 27 else r.choice(safe)

    def op_set(self, p, a):
        st = Step("set", None, guard=False)
        k = self.key_choice(st, a)
        if "4294967294" in k or "4294967293" in k or "2147483648" in k:
            a.huge = True
        v, c = self.value()
        st.adds.add(c)
        st.lk = "IR(t,%s)" % k
        st.dlen = 1
        strictness = self.r.chance(0.3)
        st.body = lambda M: "var k=%s;t[k]=%s;return [t[k],t.length];" % (k, v) if strictness else "t[%s]=%s;return t.length;" % (k, v)
        return st

    def op_get(self, p, a):
        st = Step("get", None, guard=False)
        k = self.key_choice(st, a, for_store=False)
        st.sparse = False
        st.body = lambda M: "var k=%s;return [t[k],k in t,HOP.call(t,k)];" % k
        return st

    def op_delete(self, p, a):
        if not self.sparse_ok():
            return None
        st = Step("delete", None, guard=False, sparse=True)
        k = self.r.choice(["0", "1", "2", "3", "t.length-1", "t.length>>1", "t.length", "'length'", "4294967294", "'x'", "5"])
        if AVOID_SHAPE_ROLLBACK in self.avoid:
            # (t.length itself is a NAMED key when length is 4294967295)
            st.body = lambda M: "var k=%s;if(!AI(k)&&k!=='length')return 'named-key';return delete t[k];" % k
        else:
            st.body = lambda M: "return delete t[%s];" % k
        return st

    def op_setlen(self, p, a):
        r = self.r
        st = Step("length=", None, guard=False, lk="0")
        if not self.sparse_ok():
            e = r.choice(["0", "1", "2", "t.length-1>0?t.length-1:0", "t.length>>1", "t.length"])
        elif a.huge or a.est > 60:
            e = r.choice(["0", "3", "5", "t.length>>4"])
        else:
            e = r.choice(["0", "0", "1", "3", "t.length-1>0?t.length-1:0", "t.length>>1", "t.length", "t.length+1", "t.length+5", "40",
                          "4294967295", "-1", "1.5", "4294967296", "NaN", "'abc'", "'3'", "null", "true", "undefined",
                          "EV(null,2)", "EV(function(){%s},1)" % self.mutation(M_real, Step("x", None)), "-0", "2147483648", "1e21",
                          "{}", "[2]", "10n"])
        if "+" in e or e in ("40", "4294967295", "2147483648"):
            st.sparse = True
        if e in ("4294967295", "2147483648"):
            a.huge = True
        if e in ("0", "3", "5", "t.length>>4"):
            a.huge = False
            a.est = min(a.est, 5)
        st.tags.append("len:" + ("invalid" if e in ("-1", "1.5", "4294967296", "NaN", "'abc'", "undefined", "1e21", "{}") else "valid"))
        how = r.below(4)
        if how == 0:
            st.body = lambda M: "return Reflect.set(t,'length',%s);" % e
        elif how == 1:
            st.body = lambda M: "return t.length=%s;" % e
        else:
            st.body = lambda M: "t.length=%s;return t.length;" % e
        return st

    def op_defelem(self, p, a):
        if not self.sparse_ok():
            return None
        r = self.r
        st = Step("defineProperty-element", None, guard=False, sparse=True)
        k = self.key_choice(st, a)
        st.sparse = True
        v, c = self.value()
        st.adds.add(c)
        kind = r.below(9)
        pre = ""
        if kind <= 1:
            self.uid += 1
            pre = "t._%d=%s;" % (self.uid, v)
            d = "AC(%d,%s,%s,%s)" % (self.uid, r.choice(["true", "true", "false"]), r.choice(["true", "true", "false"]),
                                       r.choice(["true", "true", "false"]))
            st.tags.append("accessor-element")
        elif kind == 2:
            d = "{value:%s,writable:false,enumerable:true,configurable:true}" % v
            st.tags.append("non-writable-element")
        elif kind == 3:
            d = "{value:%s,writable:true,enumerable:true,configurable:false}" % v
            st.tags.append("non-configurable-element")
        elif kind == 4:
            d = "{value:%s,writable:true,enumerable:false,configurable:true}" % v
            st.tags.append("non-enumerable-element")
        elif kind == 5:
            d = "{value:%s}" % v
            st.tags.append("all-false-element")
        elif kind == 6:
            d = r.choice(["{enumerable:false}", "{writable:false}", "{configurable:false}", "{}", "{get:undefined}"])
            st.tags.append("generic-descriptor")
        elif kind == 7:
            d = "{value:%s,writable:true,enumerable:true,configurable:true}" % v
            st.tags.append("default-descriptor")
        else:
            d = "{value:%s,writable:%s,enumerable:%s,configurable:%s}" % (v, r.choice(["true", "false"]), r.choice(["true", "false"]),
                                                                           r.choice(["true", "false"]))
        st.lk = "IR(t,%s)" % k
        fn = "Reflect.defineProperty" if r.chance(0.5) else "dP"
        if AVOID_SHAPE_ROLLBACK in self.avoid:
            st.body = lambda M: "var k=%s;if(!AI(k)&&HOP.call(t,k))return 'named-key';%sreturn %s(t,k,%s);" % (k, pre, fn, d)
        else:
            st.body = lambda M: "%sreturn %s(t,%s,%s);" % (pre, fn, k, d)
        return st

    def op_deflen(self, p, a):
        if not self.sparse_ok():
            return None
        r = self.r
        st = Step("defineProperty-length", None, guard=False, lk="0")
        d = r.choice(["{writable:false}", "{value:t.length}", "{value:0}", "{value:1,writable:false}", "{value:t.length+2}",
                      "{value:-1}", "{value:1.5}", "{configurable:true}", "{enumerable:true}", "{get:function(){return 1;}}",
                      "{writable:true}", "{value:EV(null,1)}", "{value:2,writable:true}", "{value:'2'}", "{value:4294967296}"])
        if "writable:false" in d:
            st.locks = True
            st.tags.append("length-non-writable")
        st.body = lambda M: "return Reflect.defineProperty(t,'length',%s);" % d
        return st

    def op_integrity(self, p, a):
        if not self.sparse_ok():
            return None
        r = self.r
        w = r.choice(["freeze", "seal", "preventExtensions"])
        st = Step("Object." + w, None, guard=False, sparse=(w != "preventExtensions"), locks=True)
        st.body = lambda M: "Object.%s(t);return [isX(t),isS(t)];" % w   # isFrozen only through the dump (V8 deviation, see D)
        return st

    def op_setproto(self, p, a):
        r = self.r
        st = Step("setPrototypeOf", None, guard=False)
        to = r.choice(["IP", "IP", "AP"])
        st.tags.append("intermediate-prototype")
        st.body = lambda M: "return Reflect.setPrototypeOf(t,%s);" % to
        return st

    def op_ipmod(self, p, a):
        r = self.r
        st = Step("modify-intermediate-prototype", None, guard=False)
        k = r.range(0, 5)
        v, _ = self.value("idv")
        if r.chance(0.7):
            st.body = lambda M: "dP(IP,%d,{value:%s,writable:true,enumerable:true,configurable:true});return %d in t;" % (k, v, k)
        else:
            st.body = lambda M: "return [delete IP[%d],%d in t];" % (k, k)
        return st

    def op_push(self, p, a):
        r = self.r
        st = Step("push", None, lk="LW(t)", guard=False)
        if len(self.arrs) > 1 and r.chance(0.15):
            j = r.below(len(self.arrs))
            st.guard = True
            st.adds |= self.arrs[j].cls - {"s"}
            if "s" in self.arrs[j].cls:
                st.adds.add("v")
            st.dlen = self.arrs[j].est
            ref = self.ref(j, p)
            st.tags.append("spread-arg")
            st.body = lambda M: "G(%s);return %s;" % (ref, M("push", "..." + ref))
            return st
        js, cls = self.values(r.range(0, 3))
        st.adds |= cls
        st.dlen = len(js)
        st.body = lambda M: "return %s;" % M("push", ",".join(js))
        return st

    def op_pop(self, p, a):
        w = self.r.choice(["pop", "pop", "shift"])
        st = Step(w, None, lk="LW(t)", guard=(w == "shift"), dlen=-1)
        st.body = lambda M: "return %s;" % M(w)
        return st

    def op_unshift(self, p, a):
        js, cls = self.values(self.r.range(0, 3))
        st = Step("unshift", None, lk="LW(t)", adds=cls, dlen=len(js))
        st.body = lambda M: "return %s;" % M("unshift", ",".join(js))
        return st

    def op_splice(self, p, a):
        r = self.r
        st = Step("splice", None, lk="LW(t)")
        n = r.below(5)
        js, cls = self.values(r.range(0, 3)) if n >= 3 else ([], set())
        st.adds |= cls
        st.dlen = len(js)

        # integer args must be identical in both lanes: fix them now, rendered per lane for the evil case
        return self._fix_iargs(st, min(n, 2), lambda M, ia: "return %s;" % M("splice", ",".join(ia + js)),
                               no_grow=AVOID_SPLICE_GROW in self.avoid)

    def _fix_iargs(self, st, n, mk, no_grow=False, no_shrink=False):
        """chooses n integer-ish arguments once; evil arguments contain method calls and are rendered per lane"""
        r = self.r
        specs = []
        self.no_grow = no_grow
        self.no_shrink = no_shrink
        for _ in range(n):
            if r.chance(0.07):
                mr, ml, sub = self.twice(self.mutation)
                ret = r.choice(["0", "1", "2", "-1"])
                specs.append(("evil", mr, ml, ret))
                self.merge(st, sub)
                if st.op in ("fill", "copyWithin") and any(t in ("mut:pop", "mut:shift", "mut:splice", "mut:len0", "mut:len1") for t in sub.tags):
                    st.lk = "0"     # the array shrinks during the coercion, the method then stores beyond the new length: an exotic
                                    # array grows `length` again, an array-like does not
                st.tags.append("evil-arg")
            else:
                k = r.below(20)
                if k < 9:
                    specs.append(("plain", str(r.range(-3, 8))))
                else:
                    specs.append(("plain", ["t.length", "t.length-1", "-1", "undefined", "NaN", "Infinity", "-Infinity", "1.5", "'2'",
                                            "null", "true"][k - 9]))

        self.no_grow = False
        self.no_shrink = False

        def body(M):
            ia = []
            for s in specs:
                if s[0] == "plain":
                    ia.append(s[1])
                else:
                    ia.append("EV(function(){%s},%s)" % (s[1] if M is M_real else s[2], s[3]))
            return mk(M, ia)
        st.body = body
        return st

    def op_fill(self, p, a):
        v, c = self.value()
        st = Step("fill", None, lk="LW(t)", adds={c})
        n = self.r.below(3)
        # V8 deviation: when the start/end coercion SHRINKS the array, V8's fast path fills only up to the new length (the spec fills up
        # to the length read before the coercion and thereby re-grows the array; boa follows the spec) -> no shrinking coercions here
        return self._fix_iargs(st, n, lambda M, ia: "return %s;" % M("fill", ",".join([v] + ia)), no_shrink=True)

    def op_copywithin(self, p, a):
        st = Step("copyWithin", None, lk="LW(t)")
        n = self.r.range(1, 3)
        return self._fix_iargs(st, n, lambda M, ia: "return %s;" % M("copyWithin", ",".join(ia)))

    def op_reverse(self, p, a):
        st = Step("reverse", None, lk="LW(t)")
        st.body = lambda M: "return %s;" % M("reverse")
        return st

    def cmp_choice(self):
        return self.r.choice(["", "", "C1", "C1", "C2", "C0", "CT", "CN", "undefined"])

    def op_sort(self, p, a):
        c = self.cmp_choice()
        st = Step("sort", None, lk="LW(t)", tags=["cmp:" + (c or "default")])
        # V8 returns early for length < 2 without the spec's Get/Set of the single element (observable with an accessor element)
        st.body = lambda M: "if(t.length<2)return 'short';return %s;" % M("sort", c)
        return st

    def maybe_rb(self, st, dense=False):
        if self.r.chance(0.25):
            st.rb = True
            st.rb_dense = dense
        return st

    def op_concat(self, p, a):
        r = self.r
        args, newcls, est = [], set(a.cls), a.est
        for _ in range(r.range(0, 3)):
            k = r.below(4)
            if k == 0:
                j = r.below(len(self.arrs))
                args.append(self.ref(j, p))
                newcls |= self.arrs[j].cls
                est += self.arrs[j].est
            elif k == 1:
                lit, lc = r.choice([("[1,2]", "i"), ("[1.5]", "d"), ("['x',,'y']", "vs"), ("[]", ""), ("[[1]]", "v"), ("Array(2)", "s")])
                if not self.sparse_ok() and ("s" in lc or not set(lc) <= set(self.allowed())):
                    lit, lc = "[1,2]", "i"
                args.append(lit)
                newcls |= set(lc)
                est += 2
            else:
                v, c = self.value()
                args.append(v)
                newcls.add(c)
                est += 1
        st = Step("concat", None, lk="isX(t)")
        st.newest = (newcls, est)
        guards = "".join("G(%s);" % x for x in args if x.startswith("ARR["))
        al = ",".join(args)

        def body(M):
            if M is M_like:
                return guards + "t[SCS]=true;try{return %s;}finally{delete t[SCS];}" % M("concat", al)
            return guards + "return %s;" % M("concat", al)
        st.body = body
        return self.maybe_rb(st)

    def op_flat(self, p, a):
        r = self.r
        if r.chance(0.5):
            d = r.choice(["", "0", "1", "2", "3", "undefined", "-1", "1.5", "'1'", "NaN"])
            st = Step("flat", None)
            st.body = lambda M: "return %s;" % M("flat", d)
        else:
            st = Step("flatMap", None)
            cbs = self._cb_pair(st, "flatmap")
            st.body = lambda M: "var c=0;return %s;" % M("flatMap", cbs[M])
        st.newest = ((a.cls - {"s"}) | {"v"}, a.est + 2)
        return self.maybe_rb(st, dense=True)

    def _cb_pair(self, st, kind):
        """renders one callback for both lanes from the same random choices"""
        real, like, sub = self.twice(lambda M, sub: self.callback(M, sub, kind))
        self.merge(st, sub, mutates=any(t.startswith("mut:") for t in sub.tags))
        return {M_real: real, M_like: like}

    def op_slice(self, p, a):
        st = Step("slice", None)
        st.newest = (set(a.cls), a.est)
        n = self.r.below(3)
        self._fix_iargs(st, n, lambda M, ia: "return %s;" % M("slice", ",".join(ia)))
        return self.maybe_rb(st)

    def op_search(self, p, a):
        r = self.r
        w = r.choice(["indexOf", "lastIndexOf", "includes"])
        v = self.probe_value()
        st = Step(w, None)
        n = r.below(2) if w != "lastIndexOf" else r.below(2)
        return self._fix_iargs(st, n, lambda M, ia: "return %s;" % M(w, ",".join([v] + ia)))

    def op_join(self, p, a):
        r = self.r
        st = Step("join", None)
        k = r.below(6)
        if k == 0:
            st.op = "toString"
            st.body = lambda M: "return %s;" % M("toString")
        elif k == 1:
            st.body = lambda M: "return String(t);" if M is M_real else "return %s;" % M("toString")
            st.op = "toString"
        else:
            sep = r.choice(["", "'-'", "undefined", "''", "null", "1", "'::'"])
            st.body = lambda M: "return %s;" % M("join", sep)
        return st

    def op_at(self, p, a):
        st = Step("at", None, guard=False)
        return self._fix_iargs(st, 1, lambda M, ia: "return %s;" % M("at", ia[0]))

    def op_with(self, p, a):
        v, c = self.value()
        st = Step("with", None)
        st.newest = ((a.cls - {"s"}) | {c} | ({"v"} if "s" in a.cls else set()), a.est)
        self._fix_iargs(st, 1, lambda M, ia: "return %s;" % M("with", ia[0] + "," + v))
        return self.maybe_rb(st, dense=True)

    def op_tocopy(self, p, a):
        r = self.r
        w = r.choice(["toSorted", "toSpliced", "toReversed"])
        st = Step(w, None)
        st.newest = ((a.cls - {"s"}) | ({"v"} if "s" in a.cls else set()), a.est)
        if w == "toSorted":
            c = self.cmp_choice()
            st.tags.append("cmp:" + (c or "default"))
            st.body = lambda M: "return %s;" % M("toSorted", c)
        elif w == "toReversed":
            st.body = lambda M: "return %s;" % M("toReversed")
        else:
            n = r.below(4)
            js, cls = self.values(r.range(0, 2)) if n >= 3 else ([], set())
            st.newest[0].update(cls)
            self._fix_iargs(st, min(n, 2), lambda M, ia: "return %s;" % M("toSpliced", ",".join(ia + js)))
        return self.maybe_rb(st, dense=True)

    def op_iter_cb(self, p, a):
        r = self.r
        w = r.choice(["find", "findLast", "findIndex", "findLastIndex", "every", "some", "filter", "map", "forEach", "map", "filter"])
        st = Step(w, None)
        kind = "map" if w == "map" else "each" if w == "forEach" else "pred"
        cbs = self._cb_pair(st, kind)
        thisarg = r.choice(["", "", ",null", ",t"])
        st.body = lambda M: "var c=0;return %s;" % M(w, cbs[M] + thisarg)
        if w in ("filter", "map"):
            st.newest = (set(a.cls) | {"d", "v"} if w == "map" else set(a.cls) - {"s"}, a.est)
            return self.maybe_rb(st, dense=(w == "filter"))
        return st

    def op_reduce(self, p, a):
        r = self.r
        w = r.choice(["reduce", "reduceRight"])
        st = Step(w, None)
        init = r.choice(["", ",''", ",0", ",'z'"])
        mp = self.mut_pair(st, 0.3, "cb-mutates")
        st.body = lambda M: "var c=0;return %s;" % M(
            w, "function(acc,x,i){%sc++;return V(acc,1)+'|'+i+':'+V(x,1);}%s" % (mp[M], init))
        return st

    def op_iterators(self, p, a):
        r = self.r
        w = r.choice(["entries", "keys", "values"])
        st = Step(w, None)
        mp = self.mut_pair(st, 0.35, "iter-mutates")
        st.body = lambda M: (
            "var it=%s,s='',c=0,n;while(c<%d){n=it.next();if(n.done){s+='done';n=it.next();s+=n.done?'!':'?';break;}"
            "s+=V(n.value,1)+';';%sc++;}return s;") % (M(w), LIM + 50, mp[M])
        return st

    def op_forof(self, p, a):
        r = self.r
        st = Step("for-of", None)
        mp = self.mut_pair(st, 0.4, "iter-mutates")
        brk = r.choice(["", "", "if(c===2)break;"])
        st.body = lambda M: "var s='',c=0;for(var x of t){s+=V(x,1)+';';%s%sc++;if(c>%d)break;}return s;" % (mp[M], brk, LIM + 50)
        return st

    def op_forin(self, p, a):
        st = Step("for-in", None, guard=False, tags=["key-order"])
        st.body = lambda M: "var s='',c=0;for(var k in t){s+=k+',';if(++c>%d)break;}return s;" % (LIM * 3)
        return st

    def op_spread(self, p, a):
        r = self.r
        k = r.below(6)
        st = Step("spread", None)
        if k == 0:
            st.body = lambda M: "return [...t];"
            st.newest = ((a.cls - {"s"}) | ({"v"} if "s" in a.cls else set()), a.est)
            return self.maybe_rb(st, dense=True)
        if k == 1:
            st.body = lambda M: "return [0,...t,'e'];"
        elif k == 2:
            st.body = lambda M: "return (function(){return [arguments.length,arguments[0],arguments[1]];})(...t);"
        elif k == 3:
            st.op = "destructuring"
            st.body = lambda M: "var [x,,y='d',...r]=t;return [x,y,r];"
        elif k == 4:
            st.op = "destructuring"
            st.body = lambda M: "var [x,y]=t;return [x,y];"
        else:
            st.op = "destructuring"
            st.body = lambda M: "var {0:x,length:l,1:y='dflt'}=t;return [x,l,y];"
            st.guard = False
        return st

    def op_reflect(self, p, a):
        r = self.r
        k = r.below(9)
        st = Step("reflect", None)
        if k == 0:
            st.op = "Object.keys"
            st.guard = False
            st.body = lambda M: "return Object.keys(t);"
        elif k == 1:
            st.op = "Object.entries"
            st.guard = False
            st.body = lambda M: "return Object.entries(t);"
        elif k == 2:
            st.op = "Object.values"
            st.guard = False
            st.body = lambda M: "return Object.values(t);"
        elif k == 3:
            st.op = "JSON.stringify"
            st.lk = "0"
            st.body = lambda M: "return JSON.stringify(t);"
        elif k == 4:
            st.op = "Array.from"
            fn = r.choice(["", ",function(x,i){return [i,x];}", ",function(x){return typeof x==='number'?x+0.5:x;}"])
            st.body = lambda M: "return Array.from(t%s);" % fn
            st.newest = ((a.cls - {"s"}) | {"v", "d"}, a.est)
            return self.maybe_rb(st, dense=True)
        elif k == 5:
            st.op = "Object.assign"
            st.guard = False
            st.body = lambda M: "return Object.assign([],t);"
        elif k == 6:
            st.op = "Array.isArray"
            st.guard = False
            st.lk = "0"
            st.body = lambda M: "return [isA(t),t instanceof Array,OP.toString.call(t)];"
        elif k == 7:
            st.op = "getOwnPropertyNames"
            st.guard = False
            st.body = lambda M: "return [Object.getOwnPropertyNames(t),Object.getOwnPropertySymbols(t).length];"
        else:
            st.op = "in/hasOwn"
            st.guard = False
            j = r.choice(["0", "1", "2", "t.length-1", "t.length", "'length'", "4294967294", "'1'"])
            st.body = lambda M: "return [%s in t,HOP.call(t,%s),AP.propertyIsEnumerable.call(t,%s)];" % (j, j, j)
        return st

    def op_ctor_invalid(self, p, a):
        r = self.r
        e = r.choice(["Array(-1)", "new Array(1.5)", "Array(4294967296)", "new Array(NaN)", "Array('3')", "new Array(4294967295).length",
                      "Array(2.0)", "Array.of.call(null,1,2)", "Array.from.call(Object,[1,2])", "new Array(-0).length",
                      "Array.from({length:-1})", "Array.from({length:'2',0:1.5,1:7})"])
        st = Step("Array-constructor-edge", None, guard=False, lk="0")
        st.body = lambda M: "return %s;" % e
        return st

    OPS = [
        ("set", 14), ("get", 4), ("delete", 5), ("setlen", 7), ("defelem", 6), ("deflen", 2), ("integrity", 1.2), ("setproto", 1.5),
        ("ipmod", 1), ("push", 8), ("pop", 5), ("unshift", 4), ("splice", 6), ("fill", 4), ("copywithin", 3), ("reverse", 3),
        ("sort", 4), ("concat", 4), ("flat", 3), ("slice", 4), ("search", 5), ("join", 3), ("at", 2), ("with", 2), ("tocopy", 3),
        ("iter_cb", 8), ("reduce", 3), ("iterators", 3), ("forof", 3), ("forin", 2), ("spread", 3), ("reflect", 4), ("ctor_invalid", 0.5),
    ]

    # ------------------------------------------------------------------ history
    def pollution(self, a):
        r = self.r
        pol = []
        for _ in range(r.range(1, 2)):
            key = r.choice([0, 1, 2, 3, 4, 5, max(0, a.est - 1), a.est, a.est + 1])
            if any(e[1] == key for e in pol):
                continue
            pol.append([1 if r.chance(0.25) else 0, key, r.weighted([(0, 5), (1, 3), (2, 2)])])
        return pol

    def generate(self):
        r = self.r
        h = self.h
        self.staged = r.chance(0.4)
        h.profile = "staged" if self.staged else "free"
        h.strict = r.chance(0.25)
        self.phase = 0
        na = r.weighted([(1, 5), (2, 3), (3, 2)])
        exprs = []
        for i in range(na):
            js, info, how = self.create(i)
            self.arrs.append(info)
            exprs.append(js)
            h.creates.append(how)
            h.forms.add(info.form())
        ipk = r.below(16)
        h.header = "ARR=[%s];IP=MKIP(%d);" % (",".join(exprs), ipk)
        nsteps = r.range(5, 60)
        # per-history focus: a few operations get a boosted weight
        weights = dict(self.OPS)
        for name in r.sample([n for n, _ in self.OPS], 5):
            weights[name] *= 4
        wl = list(weights.items())
        k = 0
        tries = 0
        while k < nsteps and tries < nsteps * 10:
            tries += 1
            if self.staged:
                self.phase = min(3, (k * 4) // nsteps)
            p = r.weighted([(i, 6 if i == 0 else 3) for i in range(na)])
            a = self.arrs[p]
            name = r.weighted(wl)
            if a.locked and r.chance(0.5):
                name = "slice_rb"
            elif (a.huge or a.est > 80) and r.chance(0.4):
                name = "setlen"
            if name == "slice_rb":
                st = self.op_slice(p, a)
                st.rb = True
            else:
                st = getattr(self, "op_" + name)(p, a)
            if st is None:
                continue
            before = a.form()
            pol = None
            if r.chance(0.07):
                pol = self.pollution(a)
                st.tags.append("prototype-element")
            body_r = st.body(M_real)
            if pol and AVOID_SPREAD_SET in self.avoid and "..." in body_r:
                pol = [e for e in pol if e[2] == 0] or None
            if pol and st.op == "toSorted":
                # V8 deviation: V8's toSorted stores the result with [[Set]] (an accessor on Array.prototype / Object.prototype at a
                # result index is called and the element is lost); the spec uses CreateDataPropertyOrThrow (boa follows the spec)
                pol = [e for e in pol if e[2] == 0] or None
            body_l = st.body(M_like) if st.lk != "0" else None
            pre = ("'use strict';" if h.strict else "") + ("G(t);" if st.guard else "")
            fr = "function(t){%s%s}" % (pre, body_r)
            if body_l is None:
                fl, lk = "0", "0"
            else:
                fl = "function(t){%s%s}" % (pre, body_l)
                lk = "1" if st.lk == "1" else "function(t){return %s;}" % st.lk
            np = 1 if (st.op == "for-in" and AVOID_FORIN_PROXY in self.avoid) else 0
            line = "S(%d,%d,%s,%s,%s,%s,%d,%d);" % (k, p, fr, fl, lk, "0" if not pol else str(pol).replace(" ", ""), 1 if st.rb else 0, np)
            h.lines.append(line)
            # by-construction bookkeeping
            a.cls |= st.adds
            if st.sparse:
                a.cls.add("s")
            a.est = max(0, a.est + st.dlen)
            if st.locks:
                a.locked = True
            after = a.form()
            if before != after:
                h.transitions.append((before, after))
            h.forms.add(after)
            if st.rb:
                cls, est = st.newest if st.newest else (set(a.cls), a.est)
                cls = set(cls)
                if st.rb_dense and "s" in cls:
                    cls.discard("s")
                    cls.add("v")
                na_info = ArrInfo(cls or {"i"}, min(est, 2 * LIM))
                self.arrs[p] = na_info
                h.forms.add(na_info.form())
                st.tags.append("rebind")
            h.meta.append({"op": st.op, "p": p, "before": before, "after": after, "tags": st.tags, "lk": st.lk != "0",
                           "pol": bool(pol), "rb": st.rb})
            h.ops.add(st.op)
            h.tags.update(t for t in st.tags)
            k += 1
        return h


def generate(rng, avoid=()):
    """one history from the given Rng"""
    return Gen(rng, avoid).generate()


def program(h):
    """the full closed program (library + history)"""
    return LIB + h.src()
