"""Exact model of the ECMAScript Number <-> text conversions (ECMA-262, 2024 edition numbering).

Everything that decides a result is done with Python's arbitrary-precision integers: a double is the
triple (sign, m, e) with value m * 2**e; a decimal text is the pair (digits, exponent) with value
digits * 10**exponent.  No float arithmetic is used in any deciding path (floats appear only in
`selftest()`, where the model is cross-checked against CPython's correctly rounded `float(str)` and
shortest `repr(float)`, and against the `decimal` module).

Doubles are passed around as 64-bit patterns (Python ints).  NaN is canonicalised to `NAN`.

Where the specification leaves latitude the model says so instead of picking a winner:

* Number::toString (radix 10): the spec *requires* only that the digit string be of minimal length k
  and round back to x ("the least significant digit of s is not necessarily uniquely determined");
  choosing the s closest to x is a recommendation (Note 2).  `number_to_string` returns the
  recommended (closest, ties-to-even) form; `number_to_string_allowed` returns every form the
  normative text admits.
* parseInt: for radix 10 every significant digit after the 20th may be replaced by 0; for radices other
  than 2, 4, 8, 10, 16, 32 mathInt may be "implementation-approximated".  `parse_int` returns the SET
  of admissible doubles, or None when the result is not pinned down by the spec (radix not in the
  list above and mathInt > 2**53, where a digit-by-digit accumulation is no longer exact).
* Number.prototype.toString(radix != 10): modelled for INTEGER values only, and only where the result is
  unique: |x| < 2**53, or a power-of-two radix.  Everything else is excluded (`None`), see `to_string_radix`.
"""
import sys

try:
    sys.set_int_max_str_digits(0)
except AttributeError:  # pragma: no cover
    pass

NAN = 0x7FF8000000000000
POS_INF = 0x7FF0000000000000
NEG_INF = 0xFFF0000000000000
SIGN = 1 << 63
MAX_FINITE = 0x7FEFFFFFFFFFFFFF
HIDDEN = 1 << 52
FRAC_MASK = HIDDEN - 1

RANGE_ERROR = "throw:RangeError"

_P10 = [1]


def p10(n):
    while len(_P10) <= n:
        _P10.append(_P10[-1] * 10)
    return _P10[n]


_PR = {}


def prad(r, n):
    if r == 10:
        return p10(n)
    t = _PR.setdefault(r, [1])
    while len(t) <= n:
        t.append(t[-1] * r)
    return t[n]


# ------------------------------------------------------------------------------------------------
# bit patterns

def is_nan(bits):
    return (bits >> 52) & 0x7FF == 0x7FF and bits & FRAC_MASK != 0


def is_inf(bits):
    return bits & ~SIGN == POS_INF


def is_finite(bits):
    return (bits >> 52) & 0x7FF != 0x7FF


def canon(bits):
    return NAN if is_nan(bits) else bits


def decode(bits):
    """finite double -> (negative, m, e) with |x| = m * 2**e (m may be 0)"""
    be = (bits >> 52) & 0x7FF
    fr = bits & FRAC_MASK
    assert be != 0x7FF
    if be == 0:
        return bool(bits >> 63), fr, -1074
    return bool(bits >> 63), fr | HIDDEN, be - 1075


def int_value(bits):
    """the integer value of a finite integral double, else None"""
    neg, m, e = decode(bits)
    if m == 0:
        return 0
    if e >= 0:
        v = m << e
    else:
        if m & ((1 << -e) - 1):
            return None
        v = m >> -e
    return -v if neg else v


def round_ratio(n, d):
    """nearest double (ties to even) to the non-negative rational n/d, as a bit pattern; overflow -> +Infinity"""
    assert n >= 0 and d > 0
    if n == 0:
        return 0
    e = n.bit_length() - d.bit_length()
    if e >= 0:
        ge = n >= (d << e)
    else:
        ge = (n << -e) >= d
    fl = e if ge else e - 1  # floor(log2(n/d))
    ue = fl - 52  # exponent of the unit in the last place
    if ue < -1074:
        ue = -1074
    if ue >= 0:
        dd = d << ue
        q, r = divmod(n, dd)
    else:
        dd = d
        q, r = divmod(n << -ue, d)
    r2 = r << 1
    if r2 > dd or (r2 == dd and (q & 1)):
        q += 1
    if q >> 53:
        q >>= 1
        ue += 1
    if q < HIDDEN:
        return q  # subnormal (or zero)
    be = ue + 1075
    if be >= 2047:
        return POS_INF
    return (be << 52) | (q - HIDDEN)


def dec_to_double(digits, exp10):
    """nearest double to digits * 10**exp10 (digits: non-negative int)"""
    if digits == 0:
        return 0
    nd = len(str(digits)) if digits < p10(40) else _ndigits(digits)
    mag = nd + exp10  # value < 10**mag, >= 10**(mag-1)
    if mag > 310:
        return POS_INF
    if mag < -326:
        return 0
    if exp10 >= 0:
        return round_ratio(digits * p10(exp10), 1)
    return round_ratio(digits, p10(-exp10))


def _ndigits(n):
    # number of decimal digits of n > 0, exact
    est = (n.bit_length() * 30103) // 100000  # <= true digit count
    if est < 1:
        est = 1
    while p10(est) <= n:
        est += 1
    while est > 1 and p10(est - 1) > n:
        est -= 1
    return est


def int_to_double(n):
    """nearest double to the integer n (any sign); -0 never produced"""
    if n < 0:
        return round_ratio(-n, 1) | SIGN
    return round_ratio(n, 1)


# ------------------------------------------------------------------------------------------------
# shortest round-trip digits

def _interval(bits):
    """rounding interval of a positive finite non-zero double, in units of 2**E2:
    returns (L, V, H, E2, inclusive)"""
    be = (bits >> 52) & 0x7FF
    fr = bits & FRAC_MASK
    if be == 0:
        m, e = fr, -1074
    else:
        m, e = fr | HIDDEN, be - 1075
    V = m << 2
    H = V + 2
    L = V - 1 if (fr == 0 and be > 1) else V - 2
    return L, V, H, e - 2, (m & 1) == 0


def _shortest(bits, radix=10):
    """positive finite non-zero double -> (s_closest, p, s_lo, s_hi): all integers s in [s_lo, s_hi]
    have the minimal digit count k and s * radix**p rounds to the double; s_closest is the one closest to
    the value (ties to even s)."""
    L, V, H, E2, incl = _interval(bits)
    if E2 >= 0:
        L <<= E2
        V <<= E2
        H <<= E2
        D = 1
        mag2 = H.bit_length()
    else:
        D = 1 << -E2
        mag2 = H.bit_length() + E2  # hi < 2**mag2
    # an upper bound for p: radix**p <= hi < 2**mag2
    if radix == 10:
        # 0.30102 < log10(2) < 0.30103
        p = mag2 * 30103 // 100000 + 1 if mag2 >= 0 else -((-mag2) * 30102 // 100000) + 1
    else:
        rb = radix.bit_length() - 1  # 2**rb <= radix < 2**(rb+1)
        p = mag2 // rb + 1 if mag2 >= 0 else -((-mag2) // (rb + 1)) + 1
    first = True
    for _ in range(1200):
        if p >= 0:
            B = D * prad(radix, p)
            hq, hr = divmod(H, B)
            lq, lr = divmod(L, B)
            vn = V
        else:
            A = prad(radix, -p)
            B = D
            hq, hr = divmod(H * A, B)
            lq, lr = divmod(L * A, B)
            vn = V * A
        s_hi = hq
        s_lo = lq if lr == 0 else lq + 1
        if not incl:
            if hr == 0:
                s_hi -= 1
            if lr == 0:
                s_lo += 1
        if s_lo < 1:
            s_lo = 1
        if s_hi >= s_lo:
            assert not first, "start exponent was not an upper bound"
            q, r = divmod(vn, B)
            r2 = r << 1
            if r2 > B or (r2 == B and (q & 1)):
                q += 1
            if q < s_lo:
                q = s_lo
            elif q > s_hi:
                q = s_hi
            return q, p, s_lo, s_hi
        first = False
        p -= 1
    raise AssertionError("no shortest representation found")


def shortest_digits(bits):
    """positive finite non-zero double -> (digit string, n) with value ~ 0.d1d2..dk * 10**n (spec's n, k)"""
    s, p, _, _ = _shortest(bits & ~SIGN)
    ds = str(s)
    return ds, p + len(ds)


def _notation(ds, n):
    k = len(ds)
    if k <= n <= 21:
        return ds + "0" * (n - k)
    if 0 < n <= 21:
        return ds[:n] + "." + ds[n:]
    if -6 < n <= 0:
        return "0." + "0" * (-n) + ds
    e = n - 1
    es = ("+" if e >= 0 else "-") + str(abs(e))
    if k == 1:
        return ds + "e" + es
    return ds[0] + "." + ds[1:] + "e" + es


def number_to_string(bits):
    """Number::toString(x, 10) with the recommended (closest) digit choice"""
    if is_nan(bits):
        return "NaN"
    if bits & ~SIGN == 0:
        return "0"
    neg = bits >> 63
    a = bits & ~SIGN
    if a == POS_INF:
        return "-Infinity" if neg else "Infinity"
    ds, n = shortest_digits(a)
    return ("-" if neg else "") + _notation(ds, n)


def number_to_string_allowed(bits):
    """every string the normative text of Number::toString admits (differs from the closest form only in
    the last digit, and only for a small minority of doubles)"""
    if is_nan(bits) or bits & ~SIGN == 0 or is_inf(bits):
        return {number_to_string(bits)}
    neg = bits >> 63
    _, p, lo, hi = _shortest(bits & ~SIGN)
    out = set()
    for s in range(lo, hi + 1):
        ds = str(s)
        out.add(("-" if neg else "") + _notation(ds, p + len(ds)))
    return out


# ------------------------------------------------------------------------------------------------
# text -> number

# WhiteSpace + LineTerminator code points (StrWhiteSpaceChar)
WHITESPACE = frozenset(
    [0x9, 0xA, 0xB, 0xC, 0xD, 0x20, 0xA0, 0x1680, 0x2028, 0x2029, 0x202F, 0x205F, 0x3000, 0xFEFF]
    + list(range(0x2000, 0x200B)))


def _is_ws(ch):
    return ord(ch) in WHITESPACE


def trim_start(s):
    i = 0
    while i < len(s) and _is_ws(s[i]):
        i += 1
    return s[i:]


def trim(s):
    s = trim_start(s)
    j = len(s)
    while j > 0 and _is_ws(s[j - 1]):
        j -= 1
    return s[:j]


_DEC = "0123456789"


def _scan_digits(s, i):
    j = i
    while j < len(s) and s[j] in _DEC:
        j += 1
    return j


def _scan_str_decimal(s, i):
    """longest prefix of s[i:] that is a StrUnsignedDecimalLiteral without 'Infinity'.
    returns (end, int_digits, frac_digits, exp) or None"""
    j = _scan_digits(s, i)
    ip = s[i:j]
    fp = ""
    k = j
    if k < len(s) and s[k] == ".":
        k2 = _scan_digits(s, k + 1)
        fp = s[k + 1:k2]
        if ip or fp:
            k = k2
        # a lone "." is not part of a literal
    if not ip and not fp:
        return None
    end = k
    ex = 0
    if end < len(s) and s[end] in "eE":
        t = end + 1
        sg = 1
        if t < len(s) and s[t] in "+-":
            if s[t] == "-":
                sg = -1
            t += 1
        t2 = _scan_digits(s, t)
        if t2 > t:
            ex = sg * int(s[t:t2])
            end = t2
    return end, ip, fp, ex


def _dec_value(ip, fp, ex):
    ds = (ip + fp).lstrip("0")
    if not ds:
        return 0
    e10 = ex - len(fp)
    # strip trailing zeros (keeps integers small)
    t = ds.rstrip("0")
    e10 += len(ds) - len(t)
    nd = len(t)
    mag = nd + e10
    if mag > 310:
        return POS_INF
    if mag < -326:
        return 0
    return dec_to_double(int(t), e10)


def _signed(bits, neg):
    return bits | SIGN if neg else bits


def string_to_number(s):
    """StringToNumber(s) (the conversion behind Number(s), unary plus, ...)"""
    t = trim(s)
    if t == "":
        return 0
    if len(t) > 2 and t[0] == "0" and t[1] in "bBoOxX":
        radix = {"b": 2, "o": 8, "x": 16}[t[1].lower()]
        body = t[2:]
        allowed = "0123456789abcdef"[:radix]
        if all(c.lower() in allowed for c in body) and all(ord(c) < 128 for c in body):
            return int_to_double(int(body, radix))
        return NAN
    i = 0
    neg = False
    if t[0] in "+-":
        neg = t[0] == "-"
        i = 1
    if t[i:] == "Infinity":
        return _signed(POS_INF, neg)
    r = _scan_str_decimal(t, i)
    if r is None or r[0] != len(t):
        return NAN
    return _signed(_dec_value(r[1], r[2], r[3]), neg)


def parse_float(s):
    """parseFloat(s): longest prefix of the left-trimmed text that is a StrDecimalLiteral"""
    t = trim_start(s)
    i = 0
    neg = False
    if t[:1] in ("+", "-"):
        neg = t[0] == "-"
        i = 1
    if t[i:i + 8] == "Infinity":
        return _signed(POS_INF, neg)
    r = _scan_str_decimal(t, i)
    if r is None:
        return NAN
    return _signed(_dec_value(r[1], r[2], r[3]), neg)


def _sep_digits(s, i, alphabet):
    """digits with single numeric separators strictly between digits; returns (end, digits) or None on a
    misplaced separator; end == i when there is no digit"""
    j = i
    out = []
    last_sep = False
    while j < len(s):
        c = s[j]
        if c.lower() in alphabet and ord(c) < 128:
            out.append(c)
            last_sep = False
        elif c == "_":
            if not out or last_sep:
                return None
            last_sep = True
        else:
            break
        j += 1
    if last_sep:
        return None
    return j, "".join(out)


def literal_value(src):
    """value of `src` taken as ONE NumericLiteral token of a strict-mode-compatible script (no legacy octal /
    leading-zero decimals, no BigInt suffix).  Returns the bit pattern, or None when the text is not such a
    literal (a SyntaxError when evaluated as an expression statement on its own)."""
    s = src
    if not s or any(ord(c) > 127 for c in s):
        return None
    if len(s) >= 2 and s[0] == "0" and s[1] in "bBoOxX":
        radix = {"b": 2, "o": 8, "x": 16}[s[1].lower()]
        r = _sep_digits(s, 2, "0123456789abcdef"[:radix])
        if r is None or r[0] != len(s) or not r[1]:
            return None
        return int_to_double(int(r[1], radix))
    i = 0
    ip = ""
    if s[0] in _DEC:
        r = _sep_digits(s, 0, _DEC)
        if r is None:
            return None
        i, ip = r
        if len(ip) > 1 and ip[0] == "0":
            return None  # legacy octal-like / NonOctalDecimalIntegerLiteral: excluded
        if ip == "0" and i != 1:
            return None  # "0_": separator after a leading zero
    fp = ""
    if i < len(s) and s[i] == ".":
        if i + 1 < len(s) and s[i + 1] == "_":
            return None
        r = _sep_digits(s, i + 1, _DEC)
        if r is None:
            return None
        i, fp = r
        if not ip and not fp:
            return None
    elif not ip:
        return None
    ex = 0
    if i < len(s) and s[i] in "eE":
        t = i + 1
        sg = 1
        if t < len(s) and s[t] in "+-":
            if s[t] == "-":
                sg = -1
            t += 1
        r = _sep_digits(s, t, _DEC)
        if r is None or not r[1]:
            return None
        i = r[0]
        ex = sg * int(r[1])
    if i != len(s):
        return None  # trailing garbage (IdentifierStart / digit directly after a literal is an error)
    return _dec_value(ip, fp, ex)


_DIGVAL = {c: i for i, c in enumerate("0123456789abcdefghijklmnopqrstuvwxyz")}
EXACT_RADICES = (2, 4, 8, 10, 16, 32)


def parse_int_parts(s, radix=0):
    """steps 1-12 of parseInt: -> ("nan", why) or (negative, R, Z) with Z the non-empty digit string"""
    t = trim_start(s)
    neg = False
    if t[:1] == "-":
        neg = True
    if t[:1] in ("+", "-"):
        t = t[1:]
    R = radix
    strip = True
    if R != 0:
        if R < 2 or R > 36:
            return "nan", "bad-radix"
        if R != 16:
            strip = False
    else:
        R = 10
    if strip and len(t) >= 2 and t[:2] in ("0x", "0X"):
        t = t[2:]
        R = 16
    j = 0
    while j < len(t) and ord(t[j]) < 128 and _DIGVAL.get(t[j].lower(), 99) < R:
        j += 1
    z = t[:j]
    if not z:
        return "nan", "empty"
    return neg, R, z


def parse_int(s, radix=0):
    """parseInt(s, radix) with `radix` already converted by ToInt32 (0 for undefined).
    Returns (allowed, note): `allowed` is the set of admissible bit patterns, or None when the spec does
    not pin the result down (implementation-approximated radix with mathInt > 2**53)."""
    parts = parse_int_parts(s, radix)
    if parts[0] == "nan":
        return {NAN}, parts[1]
    neg, R, z = parts
    v = int(z, R)
    if v == 0:
        return {SIGN if neg else 0}, "zero"
    if R == 10:
        sig = z.lstrip("0")
        vals = {v}
        note = "exact"
        if len(sig) > 20:
            vals.add(int(sig[:20]) * p10(len(sig) - 20))
            note = "gt20digits"
        return {_signed(round_ratio(x, 1), neg) for x in vals}, note
    if R in EXACT_RADICES or v <= (1 << 53):
        return {_signed(round_ratio(v, 1), neg)}, "exact"
    return None, "approximated-radix"


def needs_rounding(v):
    """True when the non-negative integer v is not exactly representable as a double"""
    if v == 0:
        return False
    tz = (v & -v).bit_length() - 1
    return v.bit_length() - tz > 53 or v.bit_length() > 1024


# ------------------------------------------------------------------------------------------------
# number -> text with a radix (integers only)

_DIGITS36 = "0123456789abcdefghijklmnopqrstuvwxyz"


def int_to_radix(v, radix):
    if v == 0:
        return "0"
    neg = v < 0
    v = abs(v)
    out = []
    while v:
        v, r = divmod(v, radix)
        out.append(_DIGITS36[r])
    return ("-" if neg else "") + "".join(reversed(out))


def is_pow2(r):
    return r & (r - 1) == 0


def to_string_radix(bits, radix):
    """Number.prototype.toString(radix) for NaN / infinities / integral doubles where the answer is unique:
    |x| < 2**53 in any radix, any integral double in a power-of-two radix (the exact digit string is then the
    only minimal-length string that rounds back).  Returns None for everything else (excluded):
    non-integers, and integers >= 2**53 in radices that are not powers of two - there the 2023+ text of
    Number::toString asks for a minimal-length digit string (`shortest_radix_string`), older editions say
    "implementation-defined", and V8 prints a truncated division sequence that usually does not even round
    back; the property statement restricts itself to what is exact."""
    if radix == 10:
        return number_to_string(bits)
    if is_nan(bits):
        return "NaN"
    if is_inf(bits):
        return "-Infinity" if bits >> 63 else "Infinity"
    v = int_value(bits)
    if v is None:
        return None
    if v == 0:
        return "0"
    if abs(v) < (1 << 53) or is_pow2(radix):
        return int_to_radix(v, radix)
    return None


def shortest_radix_string(bits, radix):
    """reference only: a minimal-length radix string for an integral double >= 2**53 per Number::toString(x, radix)
    of ES2023+ (closest digit choice)"""
    v = int_value(bits)
    s, p, lo, hi = _shortest(bits & ~SIGN, radix)
    return ("-" if v < 0 else "") + int_to_radix(s, radix) + "0" * p


# ------------------------------------------------------------------------------------------------
# toFixed / toExponential / toPrecision

def _round_half_up(n, d):
    """integer closest to n/d, the larger one on a tie (n >= 0, d > 0)"""
    return (2 * n + d) // (2 * d)


def _scaled(m, e, k):
    """(num, den) of m * 2**e * 10**k"""
    num, den = m, 1
    if e >= 0:
        num <<= e
    else:
        den <<= -e
    if k >= 0:
        num *= p10(k)
    else:
        den *= p10(-k)
    return num, den


def _floor_log10(m, e):
    """floor(log10(m * 2**e)) for m > 0, exact"""
    b = m.bit_length() + e  # 2**(b-1) <= x < 2**b
    est = ((b - 1) * 30102) // 100000 if b - 1 >= 0 else -((-(b - 1) * 30103 + 99999) // 100000)
    # est <= true value (uses a lower bound of log10(2) for positives, an upper bound for negatives); fix upward
    while True:
        num, den = _scaled(m, e, -(est + 1))  # x / 10**(est+1)
        if num >= den:
            est += 1
        else:
            break
    while True:
        num, den = _scaled(m, e, -est)
        if num < den:
            est -= 1
        else:
            break
    return est


def to_fixed(bits, f):
    """Number.prototype.toFixed(f); f is the already-integral fractionDigits (undefined -> 0)"""
    if f < 0 or f > 100:
        return RANGE_ERROR
    if not is_finite(bits):
        return number_to_string(bits)
    neg, m, e = decode(bits)
    # |x| >= 10**21 -> ToString(x)
    num, den = _scaled(m, e, -21)
    if num >= den:
        return number_to_string(bits)
    num, den = _scaled(m, e, f)
    n = _round_half_up(num, den)
    ms = str(n) if n else "0"
    if f:
        if len(ms) <= f:
            ms = "0" * (f + 1 - len(ms)) + ms
        ms = ms[:-f] + "." + ms[-f:]
    return ("-" if neg and m else "") + ms


def _exp_digits(m, e, nd):
    """(n, E): nd-digit integer n and exponent E with n * 10**(E - nd + 1) closest to m*2**e, larger on ties"""
    E = _floor_log10(m, e)
    num, den = _scaled(m, e, nd - 1 - E)
    n = _round_half_up(num, den)
    if n >= p10(nd):
        assert n == p10(nd)
        n = p10(nd - 1)
        E += 1
    return n, E


def to_exponential(bits, f=None):
    """Number.prototype.toExponential(f); f None means undefined"""
    if not is_finite(bits):
        return number_to_string(bits)
    if f is not None and (f < 0 or f > 100):
        return RANGE_ERROR
    neg, m, e = decode(bits)
    if m == 0:
        ds = "0" * ((f or 0) + 1)
        E = 0
        neg = False
    elif f is None:
        ds, n = shortest_digits(bits & ~SIGN)
        E = n - 1
    else:
        n, E = _exp_digits(m, e, f + 1)
        ds = str(n)
    if len(ds) > 1:
        ds = ds[0] + "." + ds[1:]
    return ("-" if neg else "") + ds + "e" + ("+" if E >= 0 else "-") + str(abs(E))


def to_exponential_allowed(bits):
    """all admissible results of toExponential(undefined) (last digit latitude as in Number::toString)"""
    if not is_finite(bits) or bits & ~SIGN == 0:
        return {to_exponential(bits)}
    neg = bits >> 63
    _, p, lo, hi = _shortest(bits & ~SIGN)
    out = set()
    for s in range(lo, hi + 1):
        ds = str(s)
        E = p + len(ds) - 1
        if len(ds) > 1:
            ds = ds[0] + "." + ds[1:]
        out.add(("-" if neg else "") + ds + "e" + ("+" if E >= 0 else "-") + str(abs(E)))
    return out


def to_precision(bits, p=None):
    """Number.prototype.toPrecision(p); p None means undefined"""
    if p is None:
        return number_to_string(bits)
    if not is_finite(bits):
        return number_to_string(bits)
    if p < 1 or p > 100:
        return RANGE_ERROR
    neg, m, e = decode(bits)
    sgn = "-" if neg and m else ""
    if m == 0:
        ds = "0" * p
        E = 0
    else:
        n, E = _exp_digits(m, e, p)
        ds = str(n)
        if E < -6 or E >= p:
            if p != 1:
                ds = ds[0] + "." + ds[1:]
            return sgn + ds + "e" + ("+" if E > 0 else "-") + str(abs(E))
    if E == p - 1:
        return sgn + ds
    if E >= 0:
        return sgn + ds[:E + 1] + "." + ds[E + 1:]
    return sgn + "0." + "0" * (-(E + 1)) + ds


# ------------------------------------------------------------------------------------------------
# helpers for generators

def halfway_decimal(bits_lo):
    """exact decimal text of the midpoint between the positive finite double `bits_lo` and its successor,
    as (digits, exp10): value = digits * 10**exp10 (exact)"""
    neg, m, e = decode(bits_lo)
    m2, e2 = 2 * m + 1, e - 1
    if e2 >= 0:
        return m2 << e2, 0
    return m2 * 5 ** (-e2), e2


def exact_decimal(bits):
    """exact decimal expansion of a finite double as (negative, digits, exp10); for non-integers digits is not
    divisible by 10 (it ends in 5)"""
    neg, m, e = decode(bits)
    if m == 0:
        return neg, 0, 0
    if e < 0:
        tz = min((m & -m).bit_length() - 1, -e)
        m >>= tz
        e += tz
    if e >= 0:
        return neg, m << e, 0
    return neg, m * 5 ** (-e), e


# ------------------------------------------------------------------------------------------------

def selftest(n=20000, seed=1):
    """cross-checks against CPython (correctly rounded float(str), shortest repr) and `decimal`"""
    import decimal
    import random
    import struct

    rnd = random.Random(seed)

    def f2b(x):
        return struct.unpack("<Q", struct.pack("<d", x))[0]

    def b2f(b):
        return struct.unpack("<d", struct.pack("<Q", b))[0]

    def py_js(x):
        # repr(float) -> (digits, n) independent of the notation rules
        d = decimal.Decimal(repr(x))
        sign, digits, exp = d.as_tuple()
        ds = "".join(map(str, digits)).lstrip("0")
        t = ds.rstrip("0")
        exp += len(ds) - len(t)
        return t, exp + len(t)

    specials = [1, 2, 0x000FFFFFFFFFFFFF, 0x0010000000000000, 0x0010000000000001, MAX_FINITE, MAX_FINITE - 1,
                f2b(1.0), f2b(1.0) - 1, f2b(1.0) + 1, f2b(2.0 ** 53), f2b(2.0 ** 53) + 1, f2b(2.0 ** 53) - 1,
                f2b(1e21), f2b(1e21) - 1, f2b(1e21) + 1, f2b(1e-7), f2b(1e-7) - 1, f2b(1e-7) + 1, f2b(1e-6), f2b(1e-6) - 1,
                f2b(5e-324), f2b(1e23), f2b(9.5), f2b(0.1), f2b(123456.789), f2b(2.0 ** -1022), f2b(2.0 ** -1022) - 1]
    for k in range(-1074, 1024, 7):
        specials.append(f2b(2.0 ** k))
        specials.append(f2b(2.0 ** k) + 1)
        if f2b(2.0 ** k) > 1:
            specials.append(f2b(2.0 ** k) - 1)
    for k in range(-323, 309, 3):
        b = f2b(float("1e%d" % k))
        specials += [b, b + 1, b - 1]
    cases = specials + [rnd.getrandbits(63) for _ in range(n)]
    checked = 0
    for b in cases:
        if not is_finite(b) or b == 0:
            continue
        x = b2f(b)
        assert shortest_digits(b) == py_js(x), (hex(b), shortest_digits(b), py_js(x))
        s = number_to_string(b)
        assert f2b(float(s)) == b, (hex(b), s)
        assert string_to_number(s) == b and parse_float(s) == b and literal_value(s) == b, (hex(b), s)
        assert number_to_string(b | SIGN) == "-" + s
        assert s in number_to_string_allowed(b)
        # exact decimal expansion re-parses to the same double
        _, dg, ex = exact_decimal(b)
        assert dec_to_double(dg, ex) == b
        # toFixed / toExponential / toPrecision against decimal (exact, ROUND_HALF_UP)
        dx = decimal.Decimal(x)
        with decimal.localcontext() as ctx:
            ctx.prec = 2000
            ctx.rounding = decimal.ROUND_HALF_UP
            for f in (0, 1, 2, rnd.randrange(0, 101), 20, 100):
                if abs(x) < 1e21:
                    q = dx.quantize(decimal.Decimal(1).scaleb(-f))
                    want = format(q, "f")
                    assert to_fixed(b, f) == want, (hex(b), f, to_fixed(b, f), want)
            for pnum in (1, 2, 17, rnd.randrange(1, 101), 100):
                E = dx.adjusted()
                q = dx.quantize(decimal.Decimal(1).scaleb(E - pnum + 1))
                if q.adjusted() > E:
                    E += 1
                    q = q.quantize(decimal.Decimal(1).scaleb(E - pnum + 1))
                ds = str(int(q.scaleb(-(E - pnum + 1))))
                assert len(ds) == pnum
                got = to_exponential(b, pnum - 1)
                body = ds[0] + ("." + ds[1:] if pnum > 1 else "")
                want = body + "e" + ("+" if E >= 0 else "-") + str(abs(E))
                assert got == want, (hex(b), pnum, got, want)
                tp = to_precision(b, pnum)
                if E < -6 or E >= pnum:
                    assert tp == body + "e" + ("+" if E > 0 else "-") + str(abs(E)), (hex(b), pnum, tp)
                else:
                    assert "e" not in tp and decimal.Decimal(tp) == q, (hex(b), pnum, tp, q)
                    assert len(tp.replace(".", "").lstrip("0")) == pnum, (hex(b), pnum, tp)
        checked += 1
    # parsing: random decimal texts against float()
    texts = 0
    for _ in range(n):
        nd = rnd.choice([1, 2, 5, 15, 16, 17, 18, 19, 20, 21, 25, 40, 100, 400, 800])
        ds = "".join(rnd.choice("0123456789") for _ in range(nd))
        form = rnd.randrange(4)
        if form == 0:
            t = ds
        elif form == 1:
            k = rnd.randrange(0, nd + 1)
            t = ds[:k] + "." + ds[k:]
            if t == ".":
                t = "0."
        elif form == 2:
            t = ds + "e" + str(rnd.randrange(-400, 400))
        else:
            k = rnd.randrange(0, nd + 1)
            t = ds[:k] + "." + ds[k:] + "E" + rnd.choice(["", "+", "-"]) + str(rnd.randrange(0, 360))
            if t.startswith(".E") or t.startswith(".e"):
                t = "0" + t
        if t.startswith(".") and (len(t) == 1 or t[1] in "eE"):
            t = "0" + t
        want = f2b(float(t))
        assert string_to_number(t) == want, (t, hex(string_to_number(t)), hex(want))
        assert parse_float(t + "xyz") == want, t
        assert string_to_number(" \t\n" + "-" + t + "\u00a0\ufeff") == (want | SIGN)
        texts += 1
    # exact halfway texts: round to even
    for b in specials + [rnd.getrandbits(62) for _ in range(2000)]:
        if not is_finite(b) or b == 0 or b >= MAX_FINITE:
            continue
        dg, ex = halfway_decimal(b)
        t = "%de%d" % (dg, ex)
        even = b if b & 1 == 0 else b + 1
        assert string_to_number(t) == even == f2b(float(t)), (hex(b), t)
        assert string_to_number("%de%d" % (dg * 10 + 1, ex - 1)) == b + 1
        assert string_to_number("%de%d" % (dg * 10 - 1, ex - 1)) == b
    # overflow / underflow edges
    assert string_to_number("1.7976931348623157e308") == MAX_FINITE
    assert string_to_number("1.7976931348623158e308") == MAX_FINITE
    assert string_to_number("1.7976931348623159e308") == POS_INF
    assert string_to_number("179769313486231580793728971405303415079934132710037826936173778980444968292764750946649017977587207096330286416692887910946555547851940402630657488671505820681908902000708383676273854845817711531764475730270069855571366959622842914819860834936475292719074168444365510704342711559699508093042880177904174497791.999") == MAX_FINITE
    assert string_to_number("179769313486231580793728971405303415079934132710037826936173778980444968292764750946649017977587207096330286416692887910946555547851940402630657488671505820681908902000708383676273854845817711531764475730270069855571366959622842914819860834936475292719074168444365510704342711559699508093042880177904174497792") == POS_INF
    assert string_to_number("2.4703282292062327e-324") == 0
    assert string_to_number("2.4703282292062328e-324") == 1
    assert string_to_number("-1e-400") == SIGN
    assert string_to_number("1e400") == POS_INF and string_to_number("1e99999999999999999999") == POS_INF
    assert string_to_number("0." + "0" * 5000 + "1e5001") == f2b(1.0)
    # grammar
    for t, want in [("", 0), ("   ", 0), ("0x10", f2b(16.0)), ("0b101", f2b(5.0)), ("0o17", f2b(15.0)), ("0X1f", f2b(31.0)),
                    ("-0x10", NAN), ("+0x10", NAN), ("0x", NAN), ("0x1g", NAN), ("1_0", NAN), ("1e", NAN), ("1e+", NAN), (".", NAN),
                    ("+.5", f2b(0.5)), ("5.", f2b(5.0)), ("-.0", SIGN), ("Infinity", POS_INF), ("-Infinity", NEG_INF),
                    ("+Infinity", POS_INF), ("infinity", NAN), ("INFINITY", NAN), ("inf", NAN), ("nan", NAN), ("NaN", NAN), ("1n", NAN),
                    ("\u180e1", NAN), ("\u20281\u2029", f2b(1.0)), ("1 2", NAN), ("0x1.8", NAN), ("1e5.5", NAN), ("--1", NAN), ("010", f2b(10.0)),
                    ("1e1000", POS_INF), ("0e1000", 0), ("-0", SIGN), ("0b2", NAN), ("0o8", NAN), ("\u00851", NAN), ("\u200b1", NAN)]:
        assert string_to_number(t) == want, (t, hex(string_to_number(t)))
    for t, want in [("", NAN), ("1e", f2b(1.0)), ("1e+", f2b(1.0)), ("1e+5x", f2b(1e5)), (".5.5", f2b(0.5)), ("-.5e-1q", f2b(-0.05)), (".", NAN),
                    ("0x10", 0), ("-0x10", SIGN), ("Infinityx", POS_INF), ("-Infinity1", NEG_INF), ("infinity", NAN), ("Inf", NAN),
                    ("  \n12px", f2b(12.0)), ("1_000", f2b(1.0)), ("+", NAN), ("e5", NAN), (".e5", NAN), ("5.e5", f2b(5e5)), ("nan", NAN),
                    ("1 ", f2b(1.0)), ("-0", SIGN), ("+-1", NAN), ("1..2", f2b(1.0))]:
        assert parse_float(t) == want, (t, hex(parse_float(t)))
    for t, want in [("1_000", f2b(1000.0)), ("1__0", None), ("1_", None), ("_1", None), ("0_1", None), ("01", None), ("1_.5", None),
                    ("1._5", None), ("1.5_5", f2b(1.55)), ("1e1_0", f2b(1e10)), ("1e_1", None), ("0x_1", None), ("0xf_f", f2b(255.0)),
                    ("0b1_0", f2b(2.0)), ("0o7_7", f2b(63.0)), (".5", f2b(0.5)), ("5.", f2b(5.0)), (".", None), ("0.5", f2b(0.5)),
                    ("0.", 0), ("0e5", 0), ("1e", None), ("3in", None), ("0x", None), ("1.e3", f2b(1000.0)), ("0_0", None), ("00", None),
                    ("1_0.0_1e0_1", f2b(100.1))]:
        assert literal_value(t) == want, (t, literal_value(t))
    for (t, r), want in [(("123", 0), {f2b(123.0)}), (("  -0x1F", 0), {f2b(-31.0)}), (("0x1F", 16), {f2b(31.0)}), (("0x1F", 10), {0}),
                         (("z", 36), {f2b(35.0)}), (("12", 2), {f2b(1.0)}), (("2", 2), {NAN}), (("", 0), {NAN}), (("-0", 0), {SIGN}),
                         (("1234567890123456789", 0), {f2b(1234567890123456768.0)}), (("9007199254740993", 10), {f2b(9007199254740992.0)}),
                         (("100000000000000000000000000000000000000000000000000011", 2), {f2b(2.0 ** 53 + 4)}),
                         (("1e3", 0), {f2b(1.0)}), (("1_0", 0), {f2b(1.0)}), (("11", 37), {NAN}), (("11", 1), {NAN})]:
        assert parse_int(t, r)[0] == want, (t, r, parse_int(t, r))
    a, note = parse_int("123456789012345678901" + "5" * 3, 10)
    assert note == "gt20digits" and len(a) in (1, 2)
    assert parse_int("2" * 40, 3)[0] is None
    # radix strings
    for v in [0, 1, 35, 36, 255, 2 ** 31, 2 ** 53 - 1, 2 ** 53, 2 ** 60, 2 ** 70, 2 ** 100 + 2 ** 60, 3 ** 33, 10 ** 22, 7 * 36 ** 10]:
        b = int_to_double(v)
        for r in range(2, 37):
            if r == 10:
                continue
            t = to_string_radix(b, r)
            if int_value(b) < 2 ** 53 or is_pow2(r):
                assert int(t, r) == int_value(b) and to_string_radix(b | SIGN, r) == ("-" + t if v else "0")
                assert parse_int(t, r)[0] == {b}
            else:
                assert t is None
                assert round_ratio(int(shortest_radix_string(b, r), r), 1) == b
    # documented examples
    assert to_fixed(f2b(1e21), 2) == "1e+21" and to_fixed(f2b(0.5), 0) == "1" and to_fixed(f2b(2.5), 0) == "3"
    assert to_fixed(f2b(1.005), 2) == "1.00" and to_fixed(f2b(-1e-10), 2) == "-0.00" and to_fixed(SIGN, 2) == "0.00"
    assert to_fixed(f2b(1e-22), 20) == "0.00000000000000000000" and to_fixed(f2b(1e-22), 22) == "0.0000000000000000000001"
    assert to_exponential(f2b(2.5), 0) == "3e+0" and to_exponential(f2b(0.0), 2) == "0.00e+0" and to_exponential(f2b(123456.0)) == "1.23456e+5"
    assert to_exponential(f2b(9.5), 0) == "1e+1" and to_exponential(f2b(-1.5e-7), 1) == "-1.5e-7"
    assert to_precision(f2b(5e-324), 3) == "4.94e-324" and to_precision(f2b(123.456), 4) == "123.5" and to_precision(f2b(0.000001), 2) == "0.0000010"
    assert to_precision(f2b(1e21), 3) == "1.00e+21" and to_precision(f2b(99.99), 2) == "1.0e+2" and to_precision(f2b(1e-7), 1) == "1e-7"
    assert to_precision(f2b(25.0), 1) == "3e+1" and to_precision(f2b(123.0), 3) == "123" and to_precision(0, 4) == "0.000"
    assert number_to_string(f2b(1e21)) == "1e+21" and number_to_string(f2b(1e21) - 1) == "999999999999999900000"
    assert number_to_string(f2b(1e-7)) == "1e-7" and number_to_string(f2b(1e-6)) == "0.000001" and number_to_string(f2b(123e-20)) == "1.23e-18"
    assert number_to_string(SIGN) == "0" and number_to_string(NAN) == "NaN" and number_to_string(NEG_INF) == "-Infinity"
    return {"doubles": checked, "texts": texts}


if __name__ == "__main__":
    print(selftest(int(sys.argv[1]) if len(sys.argv) > 1 else 20000))
