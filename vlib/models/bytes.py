"""Executable byte model of ArrayBuffer / SharedArrayBuffer / TypedArray / DataView (ECMA-262 2024 text; copyWithin
after a shrink as clarified in ES2025).

The model executes *steps* (JSON-serialisable dicts, produced by vlib/gen_buf.py) on a small universe of
buffer slots `b[i]` and view slots `v[i]` and produces, for every step, exactly the lines the rendered JS
program prints:  `#<n> <result>` followed by one line per buffer/view whose observation changed.

JS values are tagged lists/tuples (JSON friendly):
  ["n", float|"NaN"|"Infinity"|"-Infinity"|"-0"]  Number       ["b", "<decimal>"]  BigInt
  ["u"] undefined   ["null"]   ["t", bool]   ["s", str]
  ["o", prim, effect]   an object whose valueOf/toString first performs `effect` on the universe and then
                        returns the primitive `prim` (the re-entrancy hole);  effect is one of
                        ["resize", bi, n] ["grow", bi, n] ["detach", bi] ["throw"] ["none"]

Implementation-defined behaviour is not compared: the bit pattern of a NaN *Number* stored into a float
element is unknown ("tainted" bytes); whatever is computed from tainted bytes is the wildcard `?`
(see `match_line`), except that a float element fully covered by one NaN store reads back as NaN.
"""
import math
import re
import struct
from decimal import Decimal

# ------------------------------------------------------------------------------------------------
# element types
TYPES = {
    # name: (size, kind)   kind: i=signed int, u=unsigned int, c=clamped, f=float, I=bigint64, U=biguint64
    "Int8": (1, "i"), "Uint8": (1, "u"), "Uint8Clamped": (1, "c"),
    "Int16": (2, "i"), "Uint16": (2, "u"), "Int32": (4, "i"), "Uint32": (4, "u"),
    "Float16": (2, "f"), "Float32": (4, "f"), "Float64": (8, "f"),
    "BigInt64": (8, "I"), "BigUint64": (8, "U"),
}
TYPE_NAMES = list(TYPES)
DV_TYPES = ["Int8", "Uint8", "Int16", "Uint16", "Int32", "Uint32", "Float16", "Float32", "Float64", "BigInt64", "BigUint64"]
_FLOAT_FMT = {2: "<e", 4: "<f", 8: "<d"}
_CANON_NAN = {2: bytes.fromhex("007e"), 4: bytes.fromhex("0000c07f"), 8: bytes.fromhex("000000000000f87f")}

MAX_SAFE = 2 ** 53 - 1


def is_bigint_type(t):
    return TYPES[t][1] in "IU"


class JSThrow(Exception):
    def __init__(self, cls):
        Exception.__init__(self, cls)
        self.cls = cls


class _Unknown:
    def __repr__(self):
        return "?"


UNKNOWN = _Unknown()


# ------------------------------------------------------------------------------------------------
# JS values
def jn(x):
    """python number -> tagged JS Number (JSON friendly)"""
    x = float(x)
    if x != x:
        return ["n", "NaN"]
    if x in (math.inf, -math.inf):
        return ["n", "Infinity" if x > 0 else "-Infinity"]
    if x == 0 and math.copysign(1, x) < 0:
        return ["n", "-0"]
    return ["n", x]


def jb(i):
    return ["b", str(int(i))]


JU = ["u"]


def _num_of(tag):
    x = tag[1]
    if isinstance(x, str):
        return {"NaN": math.nan, "Infinity": math.inf, "-Infinity": -math.inf, "-0": -0.0}[x]
    return float(x)


def js_number_to_string(x):
    """Number::toString(x, 10)"""
    if x != x:
        return "NaN"
    if x == 0:
        return "0"
    if x == math.inf:
        return "Infinity"
    if x == -math.inf:
        return "-Infinity"
    if x < 0:
        return "-" + js_number_to_string(-x)
    sign, digits, exp = Decimal(repr(x)).as_tuple()
    digits = list(digits)
    while len(digits) > 1 and digits[-1] == 0:
        digits.pop()
        exp += 1
    s = "".join(str(d) for d in digits)
    k = len(s)
    n = k + exp
    if k <= n <= 21:
        return s + "0" * (n - k)
    if 0 < n <= 21:
        return s[:n] + "." + s[n:]
    if -6 < n <= 0:
        return "0." + "0" * (-n) + s
    e = n - 1
    es = ("+" if e >= 0 else "-") + str(abs(e))
    if k == 1:
        return s + "e" + es
    return s[0] + "." + s[1:] + "e" + es


def show(v):
    """the prelude's __show for the primitive results that occur here (python: float, int-as-BigInt via
    Big wrapper, None=undefined, bool, str)"""
    if v is UNKNOWN:
        return "?"
    if v is None:
        return "undefined"
    if v is True:
        return "true"
    if v is False:
        return "false"
    if isinstance(v, Big):
        return str(v.i) + "n"
    if isinstance(v, float):
        if v == 0 and math.copysign(1, v) < 0:
            return "-0"
        return js_number_to_string(v)
    if isinstance(v, str):
        import json
        return json.dumps(v, ensure_ascii=False)
    if isinstance(v, int):
        return js_number_to_string(float(v))
    raise TypeError("show: %r" % (v,))


class Raw:
    """a result printed verbatim by the JS side (a string built by the program itself)"""
    __slots__ = ("text",)

    def __init__(self, text):
        self.text = text


OK = Raw("ok")
THIS = Raw("this")


class Big:
    """a BigInt result value"""
    __slots__ = ("i",)

    def __init__(self, i):
        self.i = int(i)

    def __eq__(self, o):
        return isinstance(o, Big) and o.i == self.i

    def __hash__(self):
        return hash(("Big", self.i))


# ------------------------------------------------------------------------------------------------
# numeric conversions (exact)
def to_int_n(x, bits, signed):
    """ToInt8..ToUint32 of a Number given as python float"""
    if x != x or x in (math.inf, -math.inf):
        return 0
    i = int(x)  # truncation toward zero, exact
    i %= 1 << bits
    if signed and i >= 1 << (bits - 1):
        i -= 1 << bits
    return i


def to_uint8_clamp(x):
    if x != x:
        return 0
    if x <= 0:
        return 0
    if x >= 255:
        return 255
    f = math.floor(x)
    if f + 0.5 < x:
        return f + 1
    if x < f + 0.5:
        return f
    return f if f % 2 == 0 else f + 1


def float_to_bytes(x, size):
    """little-endian bytes of x rounded (ties to even) to binary16/32/64; NaN gives the canonical quiet NaN"""
    if x != x:
        return _CANON_NAN[size]
    try:
        return struct.pack(_FLOAT_FMT[size], x)
    except OverflowError:
        return struct.pack(_FLOAT_FMT[size], math.inf if x > 0 else -math.inf)


def bytes_to_float(bs, size):
    return struct.unpack(_FLOAT_FMT[size], bytes(bs))[0]


def encode(t, value):
    """NumericToRawBytes, little endian. value: float (Number types) or int (BigInt types). -> (bytes, is_nan)"""
    size, kind = TYPES[t]
    if kind == "f":
        return float_to_bytes(value, size), value != value
    if kind == "c":
        return bytes([to_uint8_clamp(value)]), False
    if kind in "iu":
        i = to_int_n(value, size * 8, False)
        return i.to_bytes(size, "little"), False
    # BigInt64 / BigUint64
    return (int(value) % (1 << 64)).to_bytes(8, "little"), False


def decode(t, bs):
    """RawBytesToNumeric, little endian -> float (Number types) or Big"""
    size, kind = TYPES[t]
    if kind == "f":
        return bytes_to_float(bs, size)
    i = int.from_bytes(bytes(bs), "little")
    if kind in "iI" and i >= 1 << (size * 8 - 1):
        i -= 1 << (size * 8)
    if kind in "IU":
        return Big(i)
    return float(i)


# ------------------------------------------------------------------------------------------------
class Buf:
    __slots__ = ("data", "taint", "max_len", "shared", "uid")

    def __init__(self, n, max_len, shared, uid):
        self.data = bytearray(n)
        self.taint = [0] * n
        self.max_len = max_len
        self.shared = shared
        self.uid = uid

    def clone(self):
        b = Buf.__new__(Buf)
        b.data = None if self.data is None else bytearray(self.data)
        b.taint = None if self.taint is None else list(self.taint)
        b.max_len = self.max_len
        b.shared = self.shared
        b.uid = self.uid
        return b

    @property
    def detached(self):
        return self.data is None

    def blen(self):
        return 0 if self.data is None else len(self.data)

    def fixed(self):
        return self.max_len is None


class View:
    """typed array (t = element type) or DataView (t = 'DataView'); length None = length-tracking"""
    __slots__ = ("t", "buf", "off", "length")

    def __init__(self, t, buf, off, length):
        self.t = t
        self.buf = buf  # uid of the buffer (buffers live in Machine.bufs_by_uid)
        self.off = off
        self.length = length


class Machine:
    """the universe: buffer slots, view slots; executes steps; accumulates the expected trace"""

    def __init__(self, has_transfer=False, has_detach=True):
        self.b = {}        # slot -> uid
        self.v = {}        # slot -> View
        self.bufs = {}     # uid -> Buf   (buffers stay alive while a view refers to them)
        self.next_uid = 1
        self.next_nan = 1
        self.nan_size = {}
        self.last = {}     # observation key -> last printed line
        self.lines = []    # expected trace
        self.hazards = {}  # name -> count  (shapes the generator may have to avoid / V8 deviations)
        self.stats = {}
        self.has_transfer = has_transfer
        self.has_detach = has_detach
        self.step_start = 0
        self.effects_fired = 0
        self.bytes_changed = 0
        self.v8_cut = None  # first step on which V8 11.3 is known to deviate from the specification
        self.cur_step = 0

    # ---- bookkeeping
    def clone(self):
        m = Machine.__new__(Machine)
        m.b = dict(self.b)
        m.v = {k: View(x.t, x.buf, x.off, x.length) for k, x in self.v.items()}
        m.bufs = {k: x.clone() for k, x in self.bufs.items()}
        m.next_uid = self.next_uid
        m.next_nan = self.next_nan
        m.nan_size = dict(self.nan_size)
        m.last = dict(self.last)
        m.lines = list(self.lines)
        m.hazards = dict(self.hazards)
        m.stats = dict(self.stats)
        m.has_transfer = self.has_transfer
        m.has_detach = self.has_detach
        m.step_start = self.step_start
        m.effects_fired = self.effects_fired
        m.bytes_changed = self.bytes_changed
        m.v8_cut = self.v8_cut
        m.cur_step = self.cur_step
        return m

    def hazard(self, name):
        self.hazards[name] = self.hazards.get(name, 0) + 1
        if name.startswith("v8:") and self.v8_cut is None:
            self.v8_cut = self.cur_step

    def stat(self, name, n=1):
        self.stats[name] = self.stats.get(name, 0) + n

    def new_buf(self, n, max_len, shared):
        uid = self.next_uid
        self.next_uid += 1
        self.bufs[uid] = Buf(n, max_len, shared, uid)
        return uid

    def buf_of_slot(self, slot):
        return self.bufs[self.b[slot]]

    # ---- coercions (may run effects)
    def run_effect(self, eff):
        kind = eff[0]
        if kind == "none":
            return
        self.effects_fired += 1
        self.stat("effect:" + kind)
        if kind == "throw":
            raise JSThrow("EvalError")
        # the JS side wraps the side effect in try/catch: failures are swallowed
        try:
            if kind == "resize":
                self.buffer_resize(self.b.get(eff[1]), jn(eff[2]))
            elif kind == "grow":
                self.buffer_grow(self.b.get(eff[1]), jn(eff[2]))
            elif kind == "detach":
                self.buffer_detach(self.b.get(eff[1]))
        except JSThrow:
            pass

    def to_primitive(self, v):
        if v[0] == "o":
            self.run_effect(v[2])
            return v[1]
        return v

    def to_number(self, v):
        v = self.to_primitive(v)
        k = v[0]
        if k == "n":
            return _num_of(v)
        if k == "u":
            return math.nan
        if k == "null":
            return 0.0
        if k == "t":
            return 1.0 if v[1] else 0.0
        if k == "b":
            raise JSThrow("TypeError")
        if k == "s":
            s = v[1].strip()
            if s == "":
                return 0.0
            try:
                if re.fullmatch(r"[+-]?(\d+\.?\d*([eE][+-]?\d+)?|\.\d+([eE][+-]?\d+)?|Infinity)", s):
                    return float(s.replace("Infinity", "inf"))
            except ValueError:
                pass
            return math.nan
        raise TypeError(v)

    def to_bigint(self, v):
        v = self.to_primitive(v)
        k = v[0]
        if k == "b":
            return int(v[1])
        if k == "t":
            return 1 if v[1] else 0
        if k == "s":
            try:
                return int(v[1].strip() or "0")
            except ValueError:
                raise JSThrow("SyntaxError")
        raise JSThrow("TypeError")

    def to_numeric_for(self, t, v):
        """the coercion SetValueInBuffer's callers apply: ToBigInt for BigInt element types, else ToNumber"""
        if is_bigint_type(t):
            return self.to_bigint(v)
        return self.to_number(v)

    def to_integer_or_inf(self, v):
        x = self.to_number(v)
        if x != x:
            return 0
        if x in (math.inf, -math.inf):
            return x
        return int(x)

    def to_index(self, v):
        if v[0] == "u":
            return 0
        i = self.to_integer_or_inf(v)
        if i < 0 or i > MAX_SAFE:
            raise JSThrow("RangeError")
        return i

    def to_string(self, v):
        v = self.to_primitive(v)
        k = v[0]
        if k == "s":
            return v[1]
        if k == "n":
            return js_number_to_string(_num_of(v))
        if k == "u":
            return "undefined"
        if k == "null":
            return "null"
        if k == "t":
            return "true" if v[1] else "false"
        if k == "b":
            return str(int(v[1]))
        raise TypeError(v)

    @staticmethod
    def rel_index(rel, length):
        """clamp a relative index (ToIntegerOrInfinity result) into [0, length]"""
        if rel == -math.inf:
            return 0
        if rel < 0:
            return max(length + rel, 0)
        return min(rel, length)

    # ---- raw byte access with taint
    def write_bytes(self, buf, at, bs, nan=False, unknown=False):
        size = len(bs)
        old = bytes(buf.data[at:at + size])
        buf.data[at:at + size] = bs
        if old != bytes(bs):
            self.bytes_changed += 1
        if unknown:
            buf.taint[at:at + size] = [-1] * size
        elif nan:
            nid = self.next_nan
            self.next_nan += 1
            self.nan_size[nid] = size
            buf.taint[at:at + size] = [nid * 8 + k for k in range(size)]
        else:
            buf.taint[at:at + size] = [0] * size

    def set_value(self, buf, at, t, value, little=True):
        """SetValueInBuffer. value: float / int (BigInt types) / UNKNOWN"""
        size = TYPES[t][0]
        if value is UNKNOWN:
            self.write_bytes(buf, at, bytes(size), unknown=True)
            return
        if isinstance(value, Big):
            value = value.i
        if t == "Float16" and isinstance(value, float) and value == value:
            if float_to_bytes(bytes_to_float(float_to_bytes(value, 4), 4), 2) != float_to_bytes(value, 2):
                self.hazard("f16_double_rounding")
        bs, nan = encode(t, value)
        if nan:
            self.stat("nan_store")
        if not little:
            # taint ids carry the index within the little-endian representation: reverse both
            self.write_bytes(buf, at, bs[::-1], nan=nan)
            if nan:
                buf.taint[at:at + size] = buf.taint[at:at + size][::-1]
            return
        self.write_bytes(buf, at, bs, nan=nan)

    def get_value(self, buf, at, t, little=True):
        """GetValueFromBuffer -> float / Big / UNKNOWN"""
        size = TYPES[t][0]
        bs = buf.data[at:at + size]
        ts = buf.taint[at:at + size]
        if not little:
            bs = bs[::-1]
            ts = ts[::-1]
        if not any(ts):
            return decode(t, bs)
        if TYPES[t][1] == "f" and ts[0] > 0 and ts[0] % 8 == 0:
            nid = ts[0] // 8
            if self.nan_size.get(nid) == size and all(ts[k] == nid * 8 + k for k in range(size)):
                return math.nan
        return UNKNOWN

    def copy_bytes(self, dst, dat, src, sat, n):
        """CopyDataBlockBytes (memmove semantics through a snapshot), taint moves along"""
        if n <= 0:
            return
        bs = bytes(src.data[sat:sat + n])
        ts = list(src.taint[sat:sat + n])
        if bytes(dst.data[dat:dat + n]) != bs:
            self.bytes_changed += 1
        dst.data[dat:dat + n] = bs
        dst.taint[dat:dat + n] = ts

    # ---- buffers
    def buffer_new(self, shared, length, options_max):
        """new ArrayBuffer(length, {maxByteLength}) / new SharedArrayBuffer(...); options_max None = no options"""
        n = self.to_index(length)
        mx = None
        if options_max is not None:
            if options_max[0] != "u":
                mx = self.to_index(options_max)
        if mx is not None and n > mx:
            raise JSThrow("RangeError")
        return self.new_buf(n, mx, shared)

    def buffer_resize(self, uid, new_len):
        if uid is None:
            raise JSThrow("TypeError")
        buf = self.bufs[uid]
        if buf.max_len is None or buf.shared:
            # RequireInternalSlot([[ArrayBufferMaxByteLength]]) / shared: TypeError (SAB has no resize at all)
            if not buf.shared:
                # shape of finding resize_fixed_coerces_first: the argument's coercion would be observable
                if new_len[0] == "o":
                    if new_len[2][0] != "none":
                        self.hazard("resize_fixed_coerces_first")
                    probe = new_len[1]
                else:
                    probe = new_len
                try:
                    self.to_index(probe)
                except JSThrow:
                    self.hazard("resize_fixed_coerces_first")
            raise JSThrow("TypeError")
        try:
            n = self.to_index(new_len)
        except JSThrow as e:
            if e.cls == "RangeError" and buf.detached:
                # V8 11.3 checks for a detached buffer before the range check of ToIndex
                self.hazard("v8:resize_detached_rangeerror")
            raise
        if buf.detached:
            raise JSThrow("TypeError")
        if n > buf.max_len:
            raise JSThrow("RangeError")
        old = len(buf.data)
        if n < old:
            del buf.data[n:]
            del buf.taint[n:]
            self.stat("shrink")
        elif n > old:
            buf.data.extend(bytes(n - old))
            buf.taint.extend([0] * (n - old))
            self.stat("growth")
        return None

    def buffer_grow(self, uid, new_len):
        if uid is None:
            raise JSThrow("TypeError")
        buf = self.bufs[uid]
        if not buf.shared or buf.max_len is None:
            raise JSThrow("TypeError")
        n = self.to_index(new_len)
        if n > buf.max_len:
            raise JSThrow("RangeError")
        old = len(buf.data)
        if n < old:
            raise JSThrow("RangeError")
        buf.data.extend(bytes(n - old))
        buf.taint.extend([0] * (n - old))
        if n > old:
            self.stat("growth")
        return None

    def buffer_detach(self, uid):
        """host __detach(b): only ever called on real, non-shared ArrayBuffers"""
        if uid is None:
            raise JSThrow("TypeError")
        buf = self.bufs[uid]
        if buf.shared:
            raise JSThrow("TypeError")
        if buf.detached:
            raise JSThrow("TypeError")
        buf.data = None
        buf.taint = None
        self.stat("detach")

    def buffer_slice(self, uid, start, end):
        buf = self.bufs[uid]
        if not buf.shared and buf.detached:
            raise JSThrow("TypeError")
        length = buf.blen()
        rs = self.to_integer_or_inf(start)
        first = self.rel_index(rs, length)
        if end[0] == "u":
            re_ = length
        else:
            re_ = self.to_integer_or_inf(end)
        final = self.rel_index(re_, length)
        new_len = max(final - first, 0)
        if buf.shared and new_len == 0 and (buf.max_len or 0) == 0 and length == 0:
            # two zero-length shared data blocks: boa and V8 both consider them "the same block" (TypeError)
            self.hazard("undef:sab_zero_length_slice")
        new_uid = self.new_buf(new_len, None, buf.shared)
        if not buf.shared:
            if buf.detached:
                raise JSThrow("TypeError")
            cur = buf.blen()
            if cur < first + new_len:
                self.hazard("abslice_coercion_shrinks")
            if first < cur:
                count = min(new_len, cur - first)
                self.copy_bytes(self.bufs[new_uid], 0, buf, first, count)
                if count < new_len:
                    self.stat("slice_after_shrink")
        else:
            self.copy_bytes(self.bufs[new_uid], 0, buf, first, new_len)
        return new_uid

    def buffer_transfer(self, uid, new_length, fixed):
        buf = self.bufs[uid]
        if buf.shared:
            raise JSThrow("TypeError")
        if new_length[0] == "u":
            n = buf.blen()
        else:
            n = self.to_index(new_length)
        if buf.detached:
            raise JSThrow("TypeError")
        mx = None if (fixed or buf.max_len is None) else buf.max_len
        if mx is not None and n > mx:
            raise JSThrow("RangeError")
        new_uid = self.new_buf(n, mx, False)
        self.copy_bytes(self.bufs[new_uid], 0, buf, 0, min(n, buf.blen()))
        buf.data = None
        buf.taint = None
        self.stat("detach")
        return new_uid

    # ---- view geometry (IsTypedArrayOutOfBounds / IsViewOutOfBounds; same shape for both)
    def oob(self, view):
        buf = self.bufs[view.buf]
        if buf.detached:
            return True
        bl = len(buf.data)
        start = view.off
        if view.length is None:
            end = bl
        else:
            end = start + view.length * self.esize(view)
        return start > bl or end > bl

    @staticmethod
    def esize(view):
        return 1 if view.t == "DataView" else TYPES[view.t][0]

    def ta_length(self, view):
        """TypedArrayLength (precondition: not out of bounds)"""
        if view.length is not None:
            return view.length
        buf = self.bufs[view.buf]
        return (len(buf.data) - view.off) // TYPES[view.t][0]

    def ta_length_or_zero(self, view):
        return 0 if self.oob(view) else self.ta_length(view)

    def ta_byte_length(self, view):
        if self.oob(view):
            return 0
        return self.ta_length(view) * TYPES[view.t][0]

    def validate(self, view):
        """ValidateTypedArray -> length"""
        if view is None or view.t == "DataView":
            raise JSThrow("TypeError")
        if self.oob(view):
            raise JSThrow("TypeError")
        return self.ta_length(view)

    def valid_index(self, view, idx):
        """IsValidIntegerIndex for an integral python int index (non-integers / -0 handled by callers)"""
        if self.oob(view):
            return False
        return 0 <= idx < self.ta_length(view)

    def ta_get(self, view, idx):
        """TypedArrayGetElement: None = undefined"""
        if not self.valid_index(view, idx):
            return None
        buf = self.bufs[view.buf]
        return self.get_value(buf, view.off + idx * TYPES[view.t][0], view.t)

    def ta_set_numeric(self, view, idx, numeric):
        """second half of TypedArraySetElement (value already coerced)"""
        if self.valid_index(view, idx):
            buf = self.bufs[view.buf]
            self.set_value(buf, view.off + idx * TYPES[view.t][0], view.t, numeric)
            return True
        return False

    def note_number_store(self, t, x):
        """records the shapes of known conversion findings (see known/c15_findings.json)"""
        size, kind = TYPES[t]
        if kind in "iu" and size <= 2 and isinstance(x, float) and x == x and x not in (math.inf, -math.inf):
            # outside the i64 range; negative values are multiples of 2^11, hence still right for 8-bit elements
            if x >= 2.0 ** 63 or (x < -(2.0 ** 63) and size == 2):
                self.hazard("int_store_outside_i64")

    def ta_set_element(self, view, idx, value):
        """TypedArraySetElement(O, index, value) for integral index (or None = non-integral / -0: never valid)"""
        valid_before = idx is not None and self.valid_index(view, idx)
        numeric = self.to_numeric_for(view.t, value)
        if idx is not None and self.valid_index(view, idx) != valid_before:
            # V8 11.3 decides about the index before it converts the value
            self.hazard("v8:set_element_validity_changed")
        if not is_bigint_type(view.t):
            self.note_number_store(view.t, numeric)
        if idx is None:
            return False
        ok = self.ta_set_numeric(view, idx, numeric)
        if not ok:
            self.stat("store_dropped")
        return ok

    # ---- typed array construction
    def ta_new_from_buffer(self, t, uid, byte_offset, length):
        """InitializeTypedArrayFromArrayBuffer"""
        size = TYPES[t][0]
        buf = self.bufs[uid]
        offset = self.to_index(byte_offset)
        if offset % size != 0:
            raise JSThrow("RangeError")
        fixed = buf.fixed()
        new_length = None
        if length[0] != "u":
            new_length = self.to_index(length)
        if buf.detached:
            raise JSThrow("TypeError")
        bl = len(buf.data)
        if new_length is None and not fixed:
            if offset > bl:
                raise JSThrow("RangeError")
            if (bl - offset) % size != 0 or bl % size != 0:
                # V8 11.3 rejects a length-tracking view over a resizable buffer whose byteLength is not a
                # multiple of the element size (older draft); the specification accepts it
                self.hazard("v8:tracking_ctor_unaligned")
            return View(t, uid, offset, None)
        if new_length is None:
            if bl % size != 0:
                raise JSThrow("RangeError")
            nb = bl - offset
            if nb < 0:
                raise JSThrow("RangeError")
            return View(t, uid, offset, nb // size)
        nb = new_length * size
        if offset + nb > bl:
            raise JSThrow("RangeError")
        return View(t, uid, offset, new_length)

    def convert_between(self, src_t, dst_t, value, ctor=True):
        """value read from a src_t element, about to be stored in a dst_t element (typed array -> typed array);
        ctor: `new TA(typedArray)` (its own conversion code in boa) rather than `ta.set(typedArray)`"""
        if value is UNKNOWN or src_t == dst_t:
            return value
        size, kind = TYPES[dst_t]
        if isinstance(value, float) and not ctor:
            self.note_number_store(dst_t, value)
        if isinstance(value, float) and ctor:
            if kind in "iu":
                lo, hi = (-(1 << (size * 8 - 1)), (1 << (size * 8 - 1)) - 1) if kind == "i" else (0, (1 << (size * 8)) - 1)
                # in range after truncation toward zero?  (NaN is fine: 0)
                if value == value and (value in (math.inf, -math.inf) or not (lo <= int(value) <= hi)):
                    self.hazard("ta2ta_int_out_of_range")
            elif kind == "c":
                if value == value and 0 < value < 255 and value - math.floor(value) == 0.5:
                    self.hazard("ta2ta_clamped_tie")
        return value

    def ta_new_from_ta(self, t, src):
        """InitializeTypedArrayFromTypedArray"""
        if self.oob(src):
            raise JSThrow("TypeError")
        n = self.ta_length(src)
        size = TYPES[t][0]
        sbuf = self.bufs[src.buf]
        ssize = TYPES[src.t][0]
        if t != src.t and is_bigint_type(t) != is_bigint_type(src.t):
            # AllocateArrayBuffer happens first, then the content type check; nothing observable in between
            raise JSThrow("TypeError")
        uid = self.new_buf(n * size, None, False)
        nbuf = self.bufs[uid]
        if t == src.t:
            self.copy_bytes(nbuf, 0, sbuf, src.off, n * size)
        else:
            for k in range(n):
                val = self.get_value(sbuf, src.off + k * ssize, src.t)
                val = self.convert_between(src.t, t, val)
                self.set_value(nbuf, k * size, t, val)
            self.stat("ta2ta_convert", n)
        return View(t, uid, 0, n)

    def ta_new_from_list(self, t, values):
        """InitializeTypedArrayFromList (array source: values read first, then stored one by one)"""
        n = len(values)
        size = TYPES[t][0]
        uid = self.new_buf(n * size, None, False)
        view = View(t, uid, 0, n)
        # the new view is not in any slot yet, but effects may act on other buffers
        for k, val in enumerate(values):
            numeric = self.to_numeric_for(t, val)
            if not is_bigint_type(t):
                self.note_number_store(t, numeric)
            self.set_value(self.bufs[uid], k * size, t, numeric)
        return view

    def ta_new_len(self, t, length):
        n = self.to_index(length)
        uid = self.new_buf(n * TYPES[t][0], None, False)
        return View(t, uid, 0, n)

    # ---- DataView
    def dv_new(self, uid, byte_offset, byte_length):
        buf = self.bufs[uid]
        offset = self.to_index(byte_offset)
        if buf.detached:
            raise JSThrow("TypeError")
        bl = len(buf.data)
        if offset > bl:
            raise JSThrow("RangeError")
        fixed = buf.fixed()
        if byte_length[0] == "u":
            vlen = (bl - offset) if fixed else None
        else:
            vlen = self.to_index(byte_length)
            if offset + vlen > bl:
                raise JSThrow("RangeError")
        # OrdinaryCreateFromConstructor, then everything is checked again
        if buf.detached:
            raise JSThrow("TypeError")
        bl = len(buf.data)
        if offset > bl:
            raise JSThrow("RangeError")
        if byte_length[0] != "u" and offset + vlen > bl:
            raise JSThrow("RangeError")
        return View("DataView", uid, offset, vlen)

    def dv_byte_length(self, view):
        if self.oob(view):
            raise JSThrow("TypeError")
        if view.length is not None:
            return view.length
        return len(self.bufs[view.buf].data) - view.off

    def dv_byte_offset(self, view):
        if self.oob(view):
            raise JSThrow("TypeError")
        return view.off

    def dv_get(self, view, t, request_index, little):
        idx = self.to_index(request_index)
        le = self.to_boolean(little)
        if self.oob(view):
            raise JSThrow("TypeError")
        vsize = self.dv_byte_length(view)
        size = TYPES[t][0]
        if idx + size > vsize:
            raise JSThrow("RangeError")
        return self.get_value(self.bufs[view.buf], idx + view.off, t, little=le)

    def dv_set(self, view, t, request_index, value, little):
        idx = self.to_index(request_index)
        numeric = self.to_numeric_for(t, value)
        if not is_bigint_type(t):
            self.note_number_store(t, numeric)
        le = self.to_boolean(little)
        if self.oob(view):
            raise JSThrow("TypeError")
        vsize = self.dv_byte_length(view)
        size = TYPES[t][0]
        if idx + size > vsize:
            raise JSThrow("RangeError")
        self.set_value(self.bufs[view.buf], idx + view.off, t, numeric, little=le)
        return None

    @staticmethod
    def to_boolean(v):
        k = v[0]
        if k == "u" or k == "null":
            return False
        if k == "t":
            return bool(v[1])
        if k == "n":
            x = _num_of(v)
            return not (x != x or x == 0)
        if k == "b":
            return int(v[1]) != 0
        if k == "s":
            return v[1] != ""
        return True  # objects

    # ---- %TypedArray%.prototype methods
    def m_fill(self, view, value, start, end):
        length = self.validate(view)
        fired = self.effects_fired
        numeric = self.to_numeric_for(view.t, value)
        if not is_bigint_type(view.t):
            self.note_number_store(view.t, numeric)
        if start[0] == "u" and end[0] != "u":
            # V8 11.3 ignores `end` when `start` is undefined
            self.hazard("v8:fill_end_without_start")
        k = self.rel_index(self.to_integer_or_inf(start), length)
        if end[0] == "u":
            e = length
        else:
            e = self.rel_index(self.to_integer_or_inf(end), length)
        if self.effects_fired != fired:
            # V8 11.3 keeps/validates the range differently when a coercion resized the buffer
            self.hazard("v8:fill_reentrant")
        if self.oob(view):
            raise JSThrow("TypeError")
        length2 = self.ta_length(view)
        if length2 < length:
            self.stat("method_saw_shrink")
        e = min(e, length2)
        while k < e:
            self.ta_set_numeric(view, k, numeric)
            k += 1
        return "this"

    def m_set_from_ta(self, target, offset, src):
        off = self.to_integer_or_inf(offset)
        if off < 0:
            raise JSThrow("RangeError")
        if self.oob(target):
            raise JSThrow("TypeError")
        tlen = self.ta_length(target)
        if self.oob(src):
            raise JSThrow("TypeError")
        slen = self.ta_length(src)
        if off == math.inf:
            raise JSThrow("RangeError")
        if slen + off > tlen:
            raise JSThrow("RangeError")
        if is_bigint_type(target.t) != is_bigint_type(src.t):
            raise JSThrow("TypeError")
        tbuf = self.bufs[target.buf]
        sbuf = self.bufs[src.buf]
        tsize = TYPES[target.t][0]
        ssize = TYPES[src.t][0]
        tat = target.off + off * tsize
        if tbuf is sbuf and tbuf.shared and src.off < tat < src.off + slen * ssize:
            # V8 11.3 copies forward without cloning the source when both views share a SharedArrayBuffer
            self.hazard("v8:set_overlap_shared")
        if target.t == src.t:
            self.copy_bytes(tbuf, tat, sbuf, src.off, slen * ssize)
        else:
            # values are read from a snapshot of the source (CloneArrayBuffer when the buffers are the same)
            vals = [self.get_value(sbuf, src.off + k * ssize, src.t) for k in range(slen)]
            for k, val in enumerate(vals):
                self.set_value(tbuf, tat + k * tsize, target.t, self.convert_between(src.t, target.t, val, ctor=False))
            self.stat("ta2ta_convert", slen)
        if tbuf is sbuf:
            self.stat("set_same_buffer")
        return None

    def m_set_from_arraylike(self, target, offset, src_len, elements):
        """src_len: None for a real array (length = len(elements)), else a JS value for the `length` property"""
        off = self.to_integer_or_inf(offset)
        if off < 0:
            raise JSThrow("RangeError")
        if self.oob(target):
            raise JSThrow("TypeError")
        tlen = self.ta_length(target)
        if src_len is None:
            slen = len(elements)
        else:
            ln = self.to_integer_or_inf(src_len)
            slen = 0 if ln <= 0 else min(ln, MAX_SAFE)
        if off == math.inf:
            raise JSThrow("RangeError")
        if slen + off > tlen:
            raise JSThrow("RangeError")
        for k in range(slen):
            val = elements[k] if k < len(elements) else JU
            self.ta_set_element(target, off + k, val)
        return None

    def m_subarray(self, view, begin, end):
        if view is None or view.t == "DataView":
            raise JSThrow("TypeError")
        src_len = self.ta_length_or_zero(view)
        b = self.rel_index(self.to_integer_or_inf(begin), src_len)
        size = TYPES[view.t][0]
        begin_byte = view.off + b * size
        if view.length is None and end[0] == "u":
            new = self.ta_new_from_buffer(view.t, view.buf, jn(begin_byte), JU)
        else:
            if end[0] == "u":
                e = src_len
            else:
                e = self.rel_index(self.to_integer_or_inf(end), src_len)
            new_len = max(e - b, 0)
            new = self.ta_new_from_buffer(view.t, view.buf, jn(begin_byte), jn(new_len))
        # TypedArrayCreateFromCtor validates the result
        if self.oob(new):
            raise JSThrow("TypeError")
        return new

    def m_slice(self, view, start, end):
        length = self.validate(view)
        k = self.rel_index(self.to_integer_or_inf(start), length)
        if end[0] == "u":
            e = length
        else:
            e = self.rel_index(self.to_integer_or_inf(end), length)
        count = max(e - k, 0)
        size = TYPES[view.t][0]
        uid = self.new_buf(count * size, None, False)
        new = View(view.t, uid, 0, count)
        if count > 0:
            if self.oob(view):
                raise JSThrow("TypeError")
            length2 = self.ta_length(view)
            if length2 < length:
                self.stat("method_saw_shrink")
            e = min(e, length2)
            count = max(e - k, 0)
            self.copy_bytes(self.bufs[uid], 0, self.bufs[view.buf], view.off + k * size, count * size)
        return new

    def m_copy_within(self, view, target, start, end):
        length = self.validate(view)
        to = self.rel_index(self.to_integer_or_inf(target), length)
        frm = self.rel_index(self.to_integer_or_inf(start), length)
        if end[0] == "u":
            fin = length
        else:
            fin = self.rel_index(self.to_integer_or_inf(end), length)
        count = min(fin - frm, length - to)
        if count > 0:
            if self.oob(view):
                raise JSThrow("TypeError")
            length2 = self.ta_length(view)
            if length2 < length:
                self.stat("method_saw_shrink")
            # ES2025: "copying should proceed with the longest still-applicable prefix"
            count = min(count, length2 - frm, length2 - to)
            if count > 0:
                size = TYPES[view.t][0]
                buf = self.bufs[view.buf]
                self.copy_bytes(buf, to * size + view.off, buf, frm * size + view.off, count * size)
        return "this"

    def m_reverse(self, view):
        length = self.validate(view)
        lower = 0
        while lower < length // 2:
            upper = length - 1 - lower
            a = self.ta_get(view, lower)
            b = self.ta_get(view, upper)
            self.ta_set_numeric(view, lower, b)
            self.ta_set_numeric(view, upper, a)
            lower += 1
        return "this"

    @staticmethod
    def _sort_key(x):
        # numeric order, -0 before +0, NaN last
        if isinstance(x, Big):
            return (0, x.i, 0)
        if x != x:
            return (1, 0, 0)
        return (0, x, 0 if (x == 0 and math.copysign(1, x) < 0) else 1)

    def m_sort(self, view, cmp_effect):
        """cmp_effect None: default order. Otherwise the comparator implements the same total preorder as the
        default one except that -0 and +0 compare equal (stable sort keeps their order), and it performs
        `cmp_effect` the first time it is called."""
        length = self.validate(view)
        vals = [self.ta_get(view, k) for k in range(length)]
        if cmp_effect is not None and length >= 2:
            self.run_effect(cmp_effect)
        if any(v is UNKNOWN for v in vals):
            out = [UNKNOWN] * length
        elif cmp_effect is None:
            out = sorted(vals, key=self._sort_key)
        else:
            out = sorted(vals, key=lambda x: self._sort_key(x)[:2])
        for k in range(length):
            self.ta_set_numeric(view, k, out[k])
        return "this"

    @staticmethod
    def _strict_equal(search, elem):
        """search: coerced-free JS value (tagged), elem: float / Big"""
        if elem is None:
            return search[0] == "u"
        if search[0] == "n" and isinstance(elem, float):
            return _num_of(search) == elem
        if search[0] == "b" and isinstance(elem, Big):
            return int(search[1]) == elem.i
        return False

    @staticmethod
    def _same_value_zero(search, elem):
        if elem is None:
            return search[0] == "u"
        if search[0] == "n" and isinstance(elem, float):
            x = _num_of(search)
            return x == elem or (x != x and elem != elem)
        if search[0] == "b" and isinstance(elem, Big):
            return int(search[1]) == elem.i
        return False

    def m_index_of(self, view, search, from_index):
        length = self.validate(view)
        if length == 0:
            return -1.0
        n = self.to_integer_or_inf(from_index) if from_index is not None else 0
        if n == math.inf:
            return -1.0
        if n == -math.inf:
            n = 0
        k = n if n >= 0 else max(length + n, 0)
        while k < length:
            if self.valid_index(view, k):
                e = self.ta_get(view, k)
                if e is UNKNOWN:
                    return UNKNOWN
                if self._strict_equal(search, e):
                    return float(k)
            k += 1
        return -1.0

    def m_last_index_of(self, view, search, from_index):
        length = self.validate(view)
        if length == 0:
            return -1.0
        n = self.to_integer_or_inf(from_index) if from_index is not None else length - 1
        if n == -math.inf:
            return -1.0
        k = min(n, length - 1) if n >= 0 else length + n
        while k >= 0:
            if self.valid_index(view, k):
                e = self.ta_get(view, k)
                if e is UNKNOWN:
                    return UNKNOWN
                if self._strict_equal(search, e):
                    return float(k)
            k -= 1
        return -1.0

    def m_includes(self, view, search, from_index):
        length = self.validate(view)
        if length == 0:
            return False
        n = self.to_integer_or_inf(from_index) if from_index is not None else 0
        if n == math.inf:
            return False
        if n == -math.inf:
            n = 0
        k = n if n >= 0 else max(length + n, 0)
        while k < length:
            e = self.ta_get(view, k)
            if e is UNKNOWN:
                return UNKNOWN
            if self._same_value_zero(search, e):
                return True
            k += 1
        return False

    def m_join(self, view, sep):
        length = self.validate(view)
        s = "," if (sep is None or sep[0] == "u") else self.to_string(sep)
        parts = []
        for k in range(length):
            e = self.ta_get(view, k)
            if e is UNKNOWN:
                return UNKNOWN
            if e is None:
                parts.append("")
            elif isinstance(e, Big):
                parts.append(str(e.i))
            else:
                parts.append(js_number_to_string(e))
        return s.join(parts)

    def m_at(self, view, index):
        length = self.validate(view)
        rel = self.to_integer_or_inf(index)
        if rel in (math.inf, -math.inf):
            return None
        k = rel if rel >= 0 else length + rel
        if k < 0 or k >= length:
            return None
        return self.ta_get(view, k)

    def m_for_each(self, view, at_call, effect):
        """forEach with a callback that records every value and performs `effect` in call number at_call"""
        length = self.validate(view)
        out = []
        for k in range(length):
            out.append(show(self.ta_get(view, k)))
            if k == at_call:
                self.run_effect(effect)
        return ",".join(out)

    def m_for_of(self, view, at_call, effect):
        """for (x of view): %ArrayIteratorPrototype%.next re-validates the view on every step"""
        self.validate(view)
        out = []
        idx = 0
        while True:
            if self.oob(view):
                raise JSThrow("TypeError")
            if idx >= self.ta_length(view) or idx > 200:
                break
            out.append(show(self.ta_get(view, idx)))
            if idx == at_call:
                self.run_effect(effect)
            idx += 1
        return ",".join(out)

    def m_with(self, view, index, value):
        length = self.validate(view)
        fired = self.effects_fired
        try:
            rel = self.to_integer_or_inf(index)
            actual = rel if rel >= 0 else length + rel
            numeric = self.to_numeric_for(view.t, value)
        except JSThrow:
            # V8 11.3 converts the value before the index and validates the index before the value's coercion
            self.hazard("v8:with_order")
            raise
        if self.effects_fired != fired:
            self.hazard("v8:with_order")
        if not is_bigint_type(view.t):
            self.note_number_store(view.t, numeric)
        if actual in (math.inf, -math.inf) or not self.valid_index(view, actual):
            raise JSThrow("RangeError")
        size = TYPES[view.t][0]
        uid = self.new_buf(length * size, None, False)
        nbuf = self.bufs[uid]
        for k in range(length):
            val = numeric if k == actual else self.ta_get(view, k)
            if val is None:
                if is_bigint_type(view.t):
                    # the specification writes `! Set(A, Pk, undefined)` here, which cannot hold for BigInt arrays
                    self.hazard("undef:with_bigint_after_shrink")
                    raise JSThrow("TypeError")
                val = math.nan
            self.set_value(nbuf, k * size, view.t, val)
        return View(view.t, uid, 0, length)

    # ---- Atomics (single agent)
    def atomics(self, op, view, index, value, value2=None):
        if view is None or view.t == "DataView":
            raise JSThrow("TypeError")
        size, kind = TYPES[view.t]
        if kind in "fc":
            raise JSThrow("TypeError")
        if self.oob(view):
            raise JSThrow("TypeError")
        length = self.ta_length(view)
        len_at_entry = len(self.bufs[view.buf].data)
        idx = self.to_index(index)
        if idx >= length:
            raise JSThrow("RangeError")
        at = idx * size + view.off
        big = kind in "IU"

        def coerce(v):
            if big:
                return self.to_bigint(v)
            i = self.to_integer_or_inf(v)
            self.note_number_store(view.t, float(i))
            return float(i)

        def revalidate():
            cur = self.bufs[view.buf]
            if not cur.detached and len(cur.data) < len_at_entry:
                self.hazard("atomics_coercion_shrinks")
            if self.oob(view):
                raise JSThrow("TypeError")
            if at >= len(self.bufs[view.buf].data):
                self.hazard("v8:atomics_revalidate_rangeerror")
                raise JSThrow("RangeError")
            if at + size > len(self.bufs[view.buf].data):
                # the specification only checks the first byte; the rest of the element is outside the buffer
                self.hazard("undef:atomics_partial_element")
                raise JSThrow("RangeError")

        buf_uid = view.buf
        if op == "load":
            revalidate()
            return self.get_value(self.bufs[buf_uid], at, view.t)
        if op == "store":
            v = coerce(value)
            if not big and v not in (math.inf, -math.inf) and abs(v) > 2.0 ** 63:
                self.hazard("atomics_store_huge_return")
            revalidate()
            self.set_value(self.bufs[buf_uid], at, view.t, v)
            if big:
                return Big(v)
            return v + 0.0 if v != 0 else 0.0  # ToIntegerOrInfinity never gives -0
        if op == "compareExchange":
            exp = coerce(value)
            rep = coerce(value2)
            revalidate()
            buf = self.bufs[buf_uid]
            old = self.get_value(buf, at, view.t)
            if old is UNKNOWN:
                self.set_value(buf, at, view.t, UNKNOWN)
                return UNKNOWN
            expb, _ = encode(view.t, exp)
            if bytes(buf.data[at:at + size]) == expb:
                self.set_value(buf, at, view.t, rep)
            return old
        v = coerce(value)
        revalidate()
        buf = self.bufs[buf_uid]
        old = self.get_value(buf, at, view.t)
        if old is UNKNOWN:
            self.set_value(buf, at, view.t, UNKNOWN)
            return UNKNOWN
        oi = int.from_bytes(bytes(buf.data[at:at + size]), "little")
        vi = int.from_bytes(encode(view.t, v)[0], "little")
        mask = (1 << (size * 8)) - 1
        if op == "add":
            ni = (oi + vi) & mask
        elif op == "sub":
            ni = (oi - vi) & mask
        elif op == "and":
            ni = oi & vi
        elif op == "or":
            ni = oi | vi
        elif op == "xor":
            ni = oi ^ vi
        elif op == "exchange":
            ni = vi
        else:
            raise ValueError(op)
        self.write_bytes(buf, at, ni.to_bytes(size, "little"))
        return old

    # ---- observation (must print exactly what the JS function O() prints)
    def obs_buffer(self, uid):
        buf = self.bufs[uid]
        bl = buf.blen()
        if buf.shared:
            mx = buf.max_len if buf.max_len is not None else bl
            return "SAB len=%d max=%d gr=%s" % (bl, mx, "true" if buf.max_len is not None else "false")
        mx = 0 if buf.detached else (buf.max_len if buf.max_len is not None else bl)
        return "AB len=%d max=%d res=%s" % (bl, mx, "true" if buf.max_len is not None else "false")

    def obs_view(self, view):
        if view.t == "DataView":
            if self.oob(view):
                return "DV bl=throw:Error<TypeError> bo=throw:Error<TypeError>"
            n = self.dv_byte_length(view)
            buf = self.bufs[view.buf]
            cells = []
            for j in range(n):
                cells.append("?" if buf.taint[view.off + j] else str(buf.data[view.off + j]))
            return "DV bl=%d bo=%d [%s] end=throw:Error<RangeError>" % (n, view.off, ",".join(cells))
        oob = self.oob(view)
        n = 0 if oob else self.ta_length(view)
        bl = 0 if oob else n * TYPES[view.t][0]
        bo = 0 if oob else view.off
        cells = [show(self.ta_get(view, j)) for j in range(n)]
        return "%sArray len=%d bl=%d bo=%d [%s] end=undefined,undefined" % (view.t, n, bl, bo, ",".join(cells))

    def emit(self, key, line):
        if self.last.get(key) != line:
            self.last[key] = line
            self.lines.append(key + " " + line)

    def observe(self):
        for slot in sorted(self.b):
            self.emit("b%d" % slot, self.obs_buffer(self.b[slot]))
        for slot in sorted(self.v):
            self.emit("v%d" % slot, self.obs_view(self.v[slot]))

    # ---- step execution
    def exec_step(self, n, step):
        """executes one step, appends `#n result` and the changed observation lines"""
        op = step["op"]
        self.stat("op:" + op)
        self.step_start = len(self.lines)
        self.cur_step = n
        try:
            r = self._exec(op, step)
            res = r.text if isinstance(r, Raw) else show(r)
            self.stat("ok")
        except JSThrow as e:
            res = "throw:Error<%s>" % e.cls
            self.stat("throw:" + e.cls)
            self.stat("throw_in:" + op)
        self.lines.append("#%d %s" % (n, res))
        self.observe()
        return res

    def _view(self, step, key="v"):
        return self.v.get(step[key])

    def _exec(self, op, s):
        u = JU
        if op == "mkbuf":
            uid = self.buffer_new(s["shared"], s["len"], s.get("max"))
            self.b[s["slot"]] = uid
            return OK
        if op == "resize":
            return self.buffer_resize(self.b[s["b"]], s["n"])
        if op == "grow":
            return self.buffer_grow(self.b[s["b"]], s["n"])
        if op == "detach":
            self.buffer_detach(self.b[s["b"]])
            return OK
        if op == "bslice":
            uid = self.buffer_slice(self.b[s["b"]], s.get("start", u), s.get("end", u))
            self.b[s["slot"]] = uid
            return OK
        if op == "transfer":
            uid = self.buffer_transfer(self.b[s["b"]], s.get("n", u), s.get("fixed", False))
            self.b[s["slot"]] = uid
            return OK
        if op == "mkta":
            view = self.ta_new_from_buffer(s["t"], self.b[s["b"]], s.get("off", u), s.get("len", u))
            self.v[s["slot"]] = view
            return OK
        if op == "mkta_len":
            self.v[s["slot"]] = self.ta_new_len(s["t"], s["n"])
            return OK
        if op == "mkta_ta":
            self.v[s["slot"]] = self.ta_new_from_ta(s["t"], self.v[s["src"]])
            return OK
        if op == "mkta_list":
            self.v[s["slot"]] = self.ta_new_from_list(s["t"], s["values"])
            return OK
        if op == "mkdv":
            self.v[s["slot"]] = self.dv_new(self.b[s["b"]], s.get("off", u), s.get("len", u))
            return OK
        view = self._view(s)
        if op == "get":
            idx = s["i"]
            if not isinstance(idx, int):
                return None  # "-0", 1.5: canonical numeric strings that are never valid indices
            return self.ta_get(view, idx)
        if op == "set":
            idx = s["i"]
            self.ta_set_element(view, idx if isinstance(idx, int) else None, s["val"])
            return OK
        if op == "dvget":
            return self.dv_get(view, s["t"], s.get("i", u), s.get("le", u))
        if op == "dvset":
            return self.dv_set(view, s["t"], s.get("i", u), s.get("val", u), s.get("le", u))
        if op == "fill":
            self.m_fill(view, s["val"], s.get("start", u), s.get("end", u))
            return THIS
        if op == "set_ta":
            return self.m_set_from_ta(view, s.get("off", u), self.v[s["src"]])
        if op == "set_arr":
            return self.m_set_from_arraylike(view, s.get("off", u), s.get("srclen"), s["values"])
        if op == "subarray":
            new = self.m_subarray(view, s.get("begin", u), s.get("end", u))
            self.v[s["slot"]] = new
            return OK
        if op == "slice":
            new = self.m_slice(view, s.get("start", u), s.get("end", u))
            self.v[s["slot"]] = new
            return OK
        if op == "copyWithin":
            self.m_copy_within(view, s.get("target", u), s.get("start", u), s.get("end", u))
            return THIS
        if op == "reverse":
            self.m_reverse(view)
            return THIS
        if op == "sort":
            self.m_sort(view, s.get("effect"))
            return THIS
        if op == "indexOf":
            return self.m_index_of(view, s["val"], s.get("from"))
        if op == "lastIndexOf":
            return self.m_last_index_of(view, s["val"], s.get("from"))
        if op == "includes":
            return self.m_includes(view, s["val"], s.get("from"))
        if op == "join":
            return self.m_join(view, s.get("sep"))
        if op == "at":
            return self.m_at(view, s.get("i", u))
        if op == "forEach":
            return self.m_for_each(view, s["at"], s["effect"])
        if op == "forOf":
            return self.m_for_of(view, s["at"], s["effect"])
        if op == "with":
            new = self.m_with(view, s.get("i", u), s.get("val", u))
            self.v[s["slot"]] = new
            return OK
        if op == "atomics":
            return self.atomics(s["f"], view, s.get("i", u), s.get("val", u), s.get("val2", u))
        raise ValueError("unknown op %s" % op)


def run_history(steps, has_transfer=False):
    """-> Machine after executing all steps (expected trace in .lines)"""
    m = Machine(has_transfer=has_transfer)
    for n, st in enumerate(steps):
        m.exec_step(n, st)
    return m


_WILD = re.compile(r"\\\?")


def match_line(expected, observed):
    """expected may contain `?` wildcards (implementation-defined values): each matches one token"""
    if expected == observed or (expected == "?" and observed is not None):
        return True
    if observed is None or expected is None or "?" not in expected:
        return False
    pat = _WILD.sub(lambda m: r"[^,\] ]+", re.escape(expected))
    return re.fullmatch(pat, observed) is not None


def split_trace(lines):
    """-> list of [step number, result text, {key: observation}] ; lines before the first `#n` are a block -1"""
    out = []
    cur = None
    for l in lines:
        if l.startswith("#"):
            head, _, rest = l.partition(" ")
            try:
                n = int(head[1:])
            except ValueError:
                n = -2
            cur = [n, rest, {}]
            out.append(cur)
        else:
            if cur is None:
                cur = [-1, "", {}]
                out.append(cur)
            key, _, rest = l.partition(" ")
            cur[2][key] = rest
    return out


def compare_traces(expected, observed, upto_step=None):
    """Both sides print an object's line only when *their own* line changed, and the model's lines may contain
    wildcards, so the comparison is on the reconstructed state: after every step, the step's result and the current
    line of every buffer/view must match.  -> None, or {"step", "what", "expected", "observed"} for the first mismatch;
    only steps < upto_step are compared when given"""
    eb = split_trace(expected)
    ob = split_trace(observed)
    es, os_ = {}, {}
    for i, (n, res, upd) in enumerate(eb):
        if upto_step is not None and n >= upto_step:
            return None
        if i >= len(ob):
            return {"step": n, "what": "result", "expected": res, "observed": None}
        on, ores, oupd = ob[i]
        if on != n:
            return {"step": n, "what": "step-number", "expected": "#%d" % n, "observed": "#%d %s" % (on, ores)}
        if not match_line(res, ores):
            return {"step": n, "what": "result", "expected": res, "observed": ores}
        es.update(upd)
        os_.update(oupd)
        for key in set(upd) | set(oupd):
            if not match_line(es.get(key), os_.get(key)):
                return {"step": n, "what": key, "expected": es.get(key), "observed": os_.get(key)}
    if upto_step is None and len(ob) > len(eb):
        return {"step": eb[-1][0] if eb else -1, "what": "extra-output", "expected": None, "observed": "#%s %s" % (ob[len(eb)][0], ob[len(eb)][1])}
    return None
