"""Reference model of ECMAScript's JSON object (ECMA-262 25.5 + ECMA-404), written for check C18.

Strings are "u16 strings": Python `str` objects in which every character stands for ONE UTF-16 code
unit (0..0xFFFF; surrogates are ordinary characters here and are never combined).  `to_u16` converts
an ordinary Python string (astral characters) into that form.

Part A  strict recogniser + value mapper for JSON.parse   (parse, parse_with_records, ParseInfo)
Part B  reference JSON.stringify over model values         (stringify and the node classes)
Part C  reference InternalizeJSONProperty (reviver walk)   (internalize)
Part D  the structural dump shared with the in-program JS  (dump)

Model values:  None / True / False / float / str(u16) / list (may contain HOLE) / Obj
plus, for stringify only, the decorations Undef, Func, Sym, Big, Boxed, ToJSON, CycleRef, PROTO.
Nothing here uses Python's `json` module (it is lenient); `pyjson_crosscheck` uses it only as a second
opinion on the subset where it is strict.
"""
import struct
import sys

WS = "\t\n\r "
HEX = "0123456789abcdefABCDEF"
MAX_ARRAY_INDEX = 4294967294  # 2**32 - 2
MAX_DOUBLE = 1.7976931348623157e308


# --------------------------------------------------------------------------------------------
# strings

def to_u16(s):
    """ordinary Python string -> u16 string (astral characters become surrogate pairs)"""
    out = []
    for ch in s:
        c = ord(ch)
        if c > 0xFFFF:
            c -= 0x10000
            out.append(chr(0xD800 + (c >> 10)))
            out.append(chr(0xDC00 + (c & 0x3FF)))
        else:
            out.append(ch)
    return "".join(out)


def units(s):
    return [ord(c) for c in s]


def is_high(c):
    return 0xD800 <= c <= 0xDBFF


def is_low(c):
    return 0xDC00 <= c <= 0xDFFF


def has_lone_surrogate(s):
    n = len(s)
    i = 0
    while i < n:
        c = ord(s[i])
        if is_high(c):
            if i + 1 < n and is_low(ord(s[i + 1])):
                i += 2
                continue
            return True
        if is_low(c):
            return True
        i += 1
    return False


# --------------------------------------------------------------------------------------------
# objects with ECMAScript own-property order

def array_index(k):
    """k (u16 string) is an array index: canonical decimal of an integer in 0..2^32-2 -> int, else None"""
    n = len(k)
    if n == 0 or n > 10:
        return None
    for ch in k:
        if not ("0" <= ch <= "9"):
            return None
    if n > 1 and k[0] == "0":
        return None
    v = int(k)
    if v > MAX_ARRAY_INDEX:
        return None
    return v


class Obj:
    """ordinary object with data properties; keys() follows OrdinaryOwnPropertyKeys:
    array indices ascending, then the other string keys in creation order."""

    __slots__ = ("idx", "named", "hidden")

    def __init__(self, pairs=()):
        self.idx = {}
        self.named = {}
        self.hidden = []  # [('nonenum', key, value) | ('sym', description, value)] — stringify must ignore them
        for k, v in pairs:
            self.set(k, v)

    def set(self, k, v):
        """CreateDataProperty: an existing key keeps its position"""
        i = array_index(k)
        if i is not None:
            self.idx[i] = v
        else:
            self.named[k] = v

    def delete(self, k):
        i = array_index(k)
        if i is not None:
            self.idx.pop(i, None)
        else:
            self.named.pop(k, None)

    def has(self, k):
        i = array_index(k)
        return (i in self.idx) if i is not None else (k in self.named)

    def get_own(self, k, default=None):
        i = array_index(k)
        if i is not None:
            return self.idx.get(i, default)
        return self.named.get(k, default)

    def keys(self):
        return [str(i) for i in sorted(self.idx)] + list(self.named)

    def items(self):
        return [(str(i), self.idx[i]) for i in sorted(self.idx)] + list(self.named.items())

    def __len__(self):
        return len(self.idx) + len(self.named)

    def __repr__(self):
        return "Obj(%r)" % (self.items(),)


class _Sentinel:
    def __init__(self, name):
        self.name = name

    def __repr__(self):
        return self.name


HOLE = _Sentinel("HOLE")     # missing array element
UNDEF = _Sentinel("UNDEF")   # the value undefined
FUNC = _Sentinel("FUNC")     # some function without toJSON
SYM = _Sentinel("SYM")       # some symbol value
PROTO = _Sentinel("PROTO")   # %Object.prototype% reached through Get(obj, "__proto__")

OBJECT_PROTO_FUNCS = ("constructor", "toString", "valueOf", "hasOwnProperty", "isPrototypeOf",
                      "propertyIsEnumerable", "toLocaleString", "__defineGetter__", "__defineSetter__",
                      "__lookupGetter__", "__lookupSetter__")


class Big:
    def __init__(self, n):
        self.n = n


class Boxed:
    """new Number(x) / new String(s) / new Boolean(b) / Object(1n)"""

    def __init__(self, kind, prim):
        self.kind = kind  # 'num' | 'str' | 'bool' | 'big'
        self.prim = prim


class ToJSON:
    """an object { toJSON(key) { ... } }; mode 'const': returns a fresh copy of `ret`; mode 'key': returns key"""

    def __init__(self, ret, mode="const"):
        self.ret = ret
        self.mode = mode


class CycleRef:
    """placeholder: a reference to the container `up` levels above the container that holds it (0 = that container)"""

    def __init__(self, up):
        self.up = up


class JSONSyntaxError(Exception):
    def __init__(self, msg, pos):
        Exception.__init__(self, "%s at %d" % (msg, pos))
        self.pos = pos


class JSTypeError(Exception):
    pass


# --------------------------------------------------------------------------------------------
# Part A: recogniser + value mapper

class ParseInfo:
    """what the recogniser saw (feature histogram, and the shapes known findings are keyed on)"""

    def __init__(self):
        self.features = set()
        self.overflow_number = False     # a number token whose value is +-Infinity
        self.edge_numbers = []           # number tokens with |value| >= 1e308 (finite or not), as spelled
        self.lone_surrogate = False      # a string (value or key) containing an unpaired surrogate
        self.max_depth = 0
        self.n_values = 0


class Rec:
    """JSON Parse Record (json-parse-with-source): value snapshot, source text of primitives, children"""
    __slots__ = ("value", "source", "elements", "entries")

    def __init__(self, value, source=None, elements=None, entries=None):
        self.value = value
        self.source = source
        self.elements = elements
        self.entries = entries


class _Parser:
    def __init__(self, text, info, records):
        self.t = text
        self.n = len(text)
        self.i = 0
        self.info = info
        self.records = records
        self.depth = 0

    def err(self, msg):
        raise JSONSyntaxError(msg, self.i)

    def ws(self):
        t, n, i = self.t, self.n, self.i
        while i < n and t[i] in WS:
            i += 1
        if i != self.i:
            self.info.features.add("ws")
        self.i = i

    def value(self):
        """returns (value, record)"""
        if self.i >= self.n:
            self.err("unexpected end")
        c = self.t[self.i]
        self.info.n_values += 1
        if c == "{":
            return self.object()
        if c == "[":
            return self.array()
        start = self.i
        if c == '"':
            v = self.string()
            self.info.features.add("string")
        elif c == "-" or "0" <= c <= "9":
            v = self.number()
        elif c == "t":
            v = self.word("true", True)
        elif c == "f":
            v = self.word("false", False)
        elif c == "n":
            v = self.word("null", None)
        else:
            self.err("unexpected character")
        rec = Rec(v, self.t[start:self.i]) if self.records else None
        return v, rec

    def word(self, w, v):
        if self.t.startswith(w, self.i):
            self.i += len(w)
            self.info.features.add(w)
            return v
        self.err("bad literal")

    def number(self):
        t, n = self.t, self.n
        start = self.i
        i = self.i
        f = self.info.features
        if t[i] == "-":
            i += 1
            f.add("num-minus")
        if i >= n:
            self.i = i
            self.err("digit expected")
        if t[i] == "0":
            i += 1
        elif "1" <= t[i] <= "9":
            i += 1
            while i < n and "0" <= t[i] <= "9":
                i += 1
        else:
            self.i = i
            self.err("digit expected")
        if i < n and t[i] == ".":
            i += 1
            if not (i < n and "0" <= t[i] <= "9"):
                self.i = i
                self.err("fraction digit expected")
            while i < n and "0" <= t[i] <= "9":
                i += 1
            f.add("num-frac")
        if i < n and t[i] in "eE":
            i += 1
            if i < n and t[i] in "+-":
                i += 1
            if not (i < n and "0" <= t[i] <= "9"):
                self.i = i
                self.err("exponent digit expected")
            while i < n and "0" <= t[i] <= "9":
                i += 1
            f.add("num-exp")
        self.i = i
        # correctly rounded: CPython's float() of a decimal literal is exact-rounded (David Gay's strtod)
        v = float(t[start:i])
        if v in (float("inf"), float("-inf")):
            self.info.overflow_number = True
            f.add("num-overflow")
        elif v == 0.0:
            if struct.pack(">d", v)[0] == 0x80:
                f.add("num-negzero")
        elif abs(v) < 2.2250738585072014e-308:
            f.add("num-subnormal")
        if i - start > 17:
            f.add("num-long")
        if abs(v) >= 1e308:
            self.info.edge_numbers.append(t[start:i])
            f.add("num-ge-1e308")
        f.add("number")
        return v

    def string(self):
        t, n = self.t, self.n
        i = self.i + 1  # opening quote
        out = []
        f = self.info.features
        while True:
            if i >= n:
                self.i = i
                self.err("unterminated string")
            ch = t[i]
            c = ord(ch)
            if ch == '"':
                i += 1
                break
            if c < 0x20:
                self.i = i
                self.err("control character in string")
            if ch == "\\":
                i += 1
                if i >= n:
                    self.i = i
                    self.err("unterminated escape")
                e = t[i]
                if e == "u":
                    h = t[i + 1:i + 5]
                    if len(h) != 4 or any(x not in HEX for x in h):
                        self.i = i
                        self.err("bad unicode escape")
                    out.append(chr(int(h, 16)))
                    i += 5
                    f.add("esc-u")
                    continue
                m = {'"': '"', "\\": "\\", "/": "/", "b": "\b", "f": "\f", "n": "\n", "r": "\r", "t": "\t"}.get(e)
                if m is None:
                    self.i = i
                    self.err("bad escape")
                out.append(m)
                f.add("esc-" + e)
                i += 1
                continue
            if c > 0x7E:
                f.add("str-nonascii")
                if c in (0x2028, 0x2029):
                    f.add("str-2028")
            out.append(ch)
            i += 1
        self.i = i
        s = "".join(out)
        if has_lone_surrogate(s):
            self.info.lone_surrogate = True
            f.add("str-lone-surrogate")
        elif any(0xD800 <= ord(x) <= 0xDFFF for x in s):
            f.add("str-pair")
        return s

    def array(self):
        self.i += 1
        self.depth += 1
        self.info.max_depth = max(self.info.max_depth, self.depth)
        self.info.features.add("array")
        out = []
        recs = [] if self.records else None
        self.ws()
        if self.i < self.n and self.t[self.i] == "]":
            self.i += 1
            self.depth -= 1
            return out, (Rec(out, None, recs, None) if self.records else None)
        while True:
            self.ws()
            v, r = self.value()
            out.append(v)
            if recs is not None:
                recs.append(r)
            self.ws()
            if self.i >= self.n:
                self.err("unterminated array")
            c = self.t[self.i]
            if c == ",":
                self.i += 1
                continue
            if c == "]":
                self.i += 1
                break
            self.err("',' or ']' expected")
        self.depth -= 1
        return out, (Rec(out, None, recs, None) if self.records else None)

    def object(self):
        self.i += 1
        self.depth += 1
        self.info.max_depth = max(self.info.max_depth, self.depth)
        f = self.info.features
        f.add("object")
        o = Obj()
        entries = {} if self.records else None
        self.ws()
        if self.i < self.n and self.t[self.i] == "}":
            self.i += 1
            self.depth -= 1
            return o, (Rec(o, None, None, entries) if self.records else None)
        while True:
            self.ws()
            if self.i >= self.n or self.t[self.i] != '"':
                self.err("string key expected")
            k = self.string()
            self.ws()
            if self.i >= self.n or self.t[self.i] != ":":
                self.err("':' expected")
            self.i += 1
            self.ws()
            v, r = self.value()
            if o.has(k):
                f.add("dup-key")
            if k == "__proto__":
                f.add("key-__proto__")
            elif array_index(k) is not None:
                f.add("key-index")
            elif k == "":
                f.add("key-empty")
            o.set(k, v)  # last value wins, first position kept
            if entries is not None:
                entries[k] = r  # record of the LAST duplicate
            self.ws()
            if self.i >= self.n:
                self.err("unterminated object")
            c = self.t[self.i]
            if c == ",":
                self.i += 1
                continue
            if c == "}":
                self.i += 1
                break
            self.err("',' or '}' expected")
        self.depth -= 1
        return o, (Rec(o, None, None, entries) if self.records else None)

    def text(self):
        self.ws()
        v, r = self.value()
        self.ws()
        if self.i != self.n:
            self.err("trailing characters")
        return v, r


def _with_recursion(fn, need):
    old = sys.getrecursionlimit()
    want = need + 200
    if want > old:
        sys.setrecursionlimit(want)
    try:
        return fn()
    finally:
        if want > old:
            sys.setrecursionlimit(old)


def parse(text, info=None):
    """text: u16 string. Returns the model value, or raises JSONSyntaxError. Never anything else."""
    info = info if info is not None else ParseInfo()
    p = _Parser(text, info, False)
    return _with_recursion(lambda: p.text()[0], 4 * (text.count("[") + text.count("{")))


def parse_with_records(text, info=None):
    info = info if info is not None else ParseInfo()
    p = _Parser(text, info, True)
    return _with_recursion(p.text, 4 * (text.count("[") + text.count("{")))


def accepts(text):
    try:
        parse(text)
        return True
    except JSONSyntaxError:
        return False


def pyjson_crosscheck(text, accepted, value):
    """Second opinion on the model from Python's json module, only where that module is strict.
    Returns None if consistent (or not applicable), else a description."""
    import json
    if "NaN" in text or "Infinity" in text:
        return None  # python accepts these bare words
    if any(0xD800 <= ord(c) <= 0xDFFF for c in text) or "\\u" in text:
        # python pairs up escaped surrogates with raw ones differently; compare acceptance only
        cmp_value = False
    else:
        cmp_value = True
    try:
        pv = json.loads(text, object_pairs_hook=lambda ps: ("obj", ps), parse_int=float)
        pacc = True
    except RecursionError:
        return None
    except ValueError as e:
        if "integer string conversion" in str(e) or "Exceeds the limit" in str(e):
            return None
        pacc = False
    if pacc != accepted:
        return "python json %s, model %s" % ("accepts" if pacc else "rejects", "accepts" if accepted else "rejects")
    if not accepted or not cmp_value:
        return None

    def conv(x):
        if isinstance(x, tuple) and len(x) == 2 and x[0] == "obj":
            return Obj([(to_u16(k), conv(v)) for k, v in x[1]])
        if isinstance(x, list):
            return [conv(v) for v in x]
        if isinstance(x, bool) or x is None:
            return x
        if isinstance(x, int):
            try:
                return float(x)
            except OverflowError:
                return float("inf") if x > 0 else float("-inf")
        if isinstance(x, float):
            return x
        if isinstance(x, str):
            return to_u16(x)
        return x
    try:
        if dump(conv(pv)) != dump(value):
            return "python json maps the text to a different value"
    except RecursionError:
        return None
    return None


# --------------------------------------------------------------------------------------------
# numbers -> strings (Number::toString, radix 10)

def num_to_str(x):
    if x != x:
        return "NaN"
    if x == 0:
        return "0"
    if x < 0:
        return "-" + num_to_str(-x)
    if x == float("inf"):
        return "Infinity"
    r = repr(x)  # shortest round-trip digits, closest to x: the same digit string ECMAScript demands
    mant, _, exp = r.partition("e")
    e = int(exp) if exp else 0
    ip, _, fp = mant.partition(".")
    digits = ip + fp
    n = len(ip) + e
    stripped = digits.lstrip("0")
    n -= len(digits) - len(stripped)
    digits = stripped.rstrip("0")
    k = len(digits)
    if k <= n <= 21:
        return digits + "0" * (n - k)
    if 0 < n <= 21:
        return digits[:n] + "." + digits[n:]
    if -6 < n <= 0:
        return "0." + "0" * (-n) + digits
    ee = n - 1
    sign = "+" if ee >= 0 else "-"
    if k == 1:
        return digits + "e" + sign + str(abs(ee))
    return digits[0] + "." + digits[1:] + "e" + sign + str(abs(ee))


def f64_bits(x):
    b = struct.pack(">d", x)
    return int.from_bytes(b[:4], "big"), int.from_bytes(b[4:], "big")


def same_value(a, b):
    if a is None or isinstance(a, bool) or b is None or isinstance(b, bool):
        return a is b
    if isinstance(a, float) and isinstance(b, float):
        if a != a and b != b:
            return True
        return f64_bits(a) == f64_bits(b)
    if isinstance(a, str) and isinstance(b, str):
        return a == b
    return a is b


# --------------------------------------------------------------------------------------------
# Part B: JSON.stringify

def quote(s):
    """QuoteJSONString with well-formed-stringify escaping"""
    out = ['"']
    n = len(s)
    i = 0
    tab = {8: "\\b", 9: "\\t", 10: "\\n", 12: "\\f", 13: "\\r", 0x22: '\\"', 0x5C: "\\\\"}
    while i < n:
        c = ord(s[i])
        if c in tab:
            out.append(tab[c])
        elif c < 0x20:
            out.append("\\u%04x" % c)
        elif is_high(c) and i + 1 < n and is_low(ord(s[i + 1])):
            out.append(s[i])
            out.append(s[i + 1])
            i += 2
            continue
        elif 0xD800 <= c <= 0xDFFF:
            out.append("\\u%04x" % c)
        else:
            out.append(s[i])
        i += 1
    out.append('"')
    return "".join(out)


def gap_of(space):
    """space: ('none',) | ('num', float) | ('str', u16) | ('boxnum', float) | ('boxstr', u16) | ('other', js)"""
    kind = space[0]
    if kind in ("num", "boxnum"):
        x = space[1]
        if x != x:
            m = 0
        elif x in (float("inf"), float("-inf")):
            m = 10 if x > 0 else 0
        else:
            m = int(x)  # truncation toward zero
        m = min(10, m)
        return " " * m if m >= 1 else ""
    if kind in ("str", "boxstr"):
        return space[1][:10]
    return ""


class Wrapper:
    """the { "": value } holder of the top-level call"""

    def __init__(self, value):
        self.value = value


def property_list_of(items):
    """replacer array items: model values (str, float, Boxed num/str are used; everything else is ignored)"""
    out = []
    for v in items:
        item = None
        if isinstance(v, str):
            item = v
        elif isinstance(v, float):
            item = num_to_str(v)
        elif isinstance(v, Boxed) and v.kind == "num":
            item = num_to_str(v.prim)
        elif isinstance(v, Boxed) and v.kind == "str":
            item = v.prim
        if item is not None and item not in out:
            out.append(item)
    return out


def holder_get(holder, key):
    if isinstance(holder, Wrapper):
        return holder.value if key == "" else UNDEF
    if isinstance(holder, list):
        i = array_index(key)
        if i is None or i >= len(holder):
            return UNDEF  # (length / inherited names are never asked for)
        v = holder[i]
        return UNDEF if v is HOLE else v
    if holder is PROTO:
        if key == "__proto__":
            return None  # Object.prototype.__proto__ is null
        return FUNC if key in OBJECT_PROTO_FUNCS else UNDEF
    if isinstance(holder, Obj):
        if holder.has(key):
            return holder.get_own(key)
        for kind, k, v in holder.hidden:
            if kind == "nonenum" and k == key:
                return v
        if key == "__proto__":
            return PROTO
        return FUNC if key in OBJECT_PROTO_FUNCS else UNDEF
    raise AssertionError("bad holder %r" % (holder,))


def holder_tag(holder):
    """what a logging replacer sees of `this`: 'a<enumerable key count>' or 'o<enumerable key count>'"""
    if isinstance(holder, Wrapper):
        return "o1"
    if isinstance(holder, list):
        return "a%d" % sum(1 for v in holder if v is not HOLE)
    if holder is PROTO:
        return "o0"
    return "o%d" % len(holder)


def js_typeof(v):
    if v is UNDEF:
        return "undefined"
    if v is None:
        return "object"
    if isinstance(v, bool):
        return "boolean"
    if isinstance(v, float):
        return "number"
    if isinstance(v, str):
        return "string"
    if v is FUNC:
        return "function"
    if v is SYM:
        return "symbol"
    if isinstance(v, Big):
        return "bigint"
    return "object"


def clone(v):
    """fresh copy of a plain model value (what evaluating its JS source again would give)"""
    if isinstance(v, list):
        return [clone(x) for x in v]
    if isinstance(v, Obj):
        o = Obj([(k, clone(x)) for k, x in v.items()])
        o.hidden = [(a, b, clone(c)) for a, b, c in v.hidden]
        return o
    return v


class _State:
    def __init__(self, replacer_fn, plist, gap, log):
        self.fn = replacer_fn
        self.plist = plist
        self.gap = gap
        self.indent = ""
        self.stack = []
        self.log = log


def stringify(value, replacer=None, space=("none",), log=None):
    """replacer: None | ('array', [model values]) | ('fn', python callable(holder, key, value, log) -> value)
    | ('other',) (a non-callable, non-array object or a primitive: ignored).
    Returns a u16 string, or UNDEF; raises JSTypeError (cycle, BigInt)."""
    fn = plist = None
    if replacer is not None:
        if replacer[0] == "array":
            plist = property_list_of(replacer[1])
        elif replacer[0] == "fn":
            fn = replacer[1]
    st = _State(fn, plist, gap_of(space), log if log is not None else [])
    return _with_recursion(lambda: _ser_prop(st, "", Wrapper(value)), 20000)


def _ser_prop(st, key, holder):
    value = holder_get(holder, key)
    if isinstance(value, ToJSON):
        st.log.append("toJSON:" + dump(key))
        value = key if value.mode == "key" else clone(value.ret)
    elif isinstance(value, Obj) and value.has("toJSON") and value.get_own("toJSON") is FUNC:
        value = UNDEF  # an own property "toJSON" holding `function(){}` IS a toJSON method: it returns undefined
    if st.fn is not None:
        value = st.fn(holder, key, value, st.log)
    if isinstance(value, Boxed):
        value = Big(value.prim) if value.kind == "big" else value.prim
    if value is None:
        return "null"
    if value is True:
        return "true"
    if value is False:
        return "false"
    if isinstance(value, str):
        return quote(value)
    if isinstance(value, float):
        if value != value or value in (float("inf"), float("-inf")):
            return "null"
        return num_to_str(value)
    if isinstance(value, Big):
        raise JSTypeError("bigint")
    if isinstance(value, list):
        return _ser_array(st, value)
    if isinstance(value, Obj) or value is PROTO:
        return _ser_object(st, value)
    if isinstance(value, ToJSON):
        # returned by a replacer function: an ordinary object whose only own property is a function
        return _ser_object(st, Obj([("toJSON", FUNC)]))
    if value is UNDEF or value is FUNC or value is SYM:
        return UNDEF
    raise AssertionError("unserialisable model value %r" % (value,))


def _ser_object(st, value):
    if any(value is s for s in st.stack):
        raise JSTypeError("cycle")
    st.stack.append(value)
    stepback = st.indent
    st.indent = st.indent + st.gap
    if st.plist is not None:
        keys = st.plist
    else:
        keys = [] if value is PROTO else value.keys()
    partial = []
    for p in keys:
        s = _ser_prop(st, p, value)
        if s is not UNDEF:
            partial.append(quote(p) + (": " if st.gap else ":") + s)
    if not partial:
        final = "{}"
    elif not st.gap:
        final = "{" + ",".join(partial) + "}"
    else:
        sep = ",\n" + st.indent
        final = "{\n" + st.indent + sep.join(partial) + "\n" + stepback + "}"
    st.stack.pop()
    st.indent = stepback
    return final


def _ser_array(st, value):
    if any(value is s for s in st.stack):
        raise JSTypeError("cycle")
    st.stack.append(value)
    stepback = st.indent
    st.indent = st.indent + st.gap
    partial = []
    for i in range(len(value)):
        s = _ser_prop(st, str(i), value)
        partial.append("null" if s is UNDEF else s)
    if not partial:
        final = "[]"
    elif not st.gap:
        final = "[" + ",".join(partial) + "]"
    else:
        sep = ",\n" + st.indent
        final = "[\n" + st.indent + sep.join(partial) + "\n" + stepback + "]"
    st.stack.pop()
    st.indent = stepback
    return final


def resolve_cycles(root):
    """replaces CycleRef placeholders (inside plain lists / Obj only) by real references; returns root"""
    def walk(node, anc):
        if isinstance(node, list):
            anc.append(node)
            for i, v in enumerate(node):
                if isinstance(v, CycleRef):
                    node[i] = anc[max(0, len(anc) - 1 - v.up)]
                else:
                    walk(v, anc)
            anc.pop()
        elif isinstance(node, Obj):
            anc.append(node)
            for k, v in node.items():
                if isinstance(v, CycleRef):
                    node.set(k, anc[max(0, len(anc) - 1 - v.up)])
                else:
                    walk(v, anc)
            anc.pop()
    walk(root, [])
    return root


def json_image(v):
    """the value that parse(stringify(v)) must give for a JSON-representable v (numbers/strings/bools/null,
    arrays, objects): -0 -> 0, NaN/+-Infinity -> null. Independent of `stringify` above."""
    if isinstance(v, float):
        if v != v or v in (float("inf"), float("-inf")):
            return None
        return 0.0 if v == 0 else v
    if isinstance(v, list):
        return [json_image(x) for x in v]
    if isinstance(v, Obj):
        return Obj([(k, json_image(x)) for k, x in v.items()])
    return v


# --------------------------------------------------------------------------------------------
# Part C: InternalizeJSONProperty (with parse records, json-parse-with-source)

def holder_keys_dump(h):
    if isinstance(h, list):
        return "a%d" % len(h)
    return "o" + "".join(dump(k) for k in h.keys())


def internalize(value, record, policy, log, with_source=True):
    """policy(holder, key, val) -> new value or UNDEF; it may mutate holder.
    log receives 'holderkeys key valuedump source' strings exactly as the in-program reviver prints them."""
    root = Obj([("", value)])
    return _with_recursion(lambda: _intern(root, "", record, policy, log, with_source), 20000)


def _get_for_reviver(holder, name):
    if isinstance(holder, list):
        i = array_index(name)
        if i is None or i >= len(holder) or holder[i] is HOLE:
            return UNDEF
        return holder[i]
    return holder.get_own(name, UNDEF) if holder.has(name) else UNDEF


def _intern(holder, name, rec, policy, log, with_source):
    val = _get_for_reviver(holder, name)
    source = None
    elements = entries = None
    if rec is not None and same_value(rec.value, val):
        if not isinstance(val, (list, Obj)):
            source = rec.source
        elements, entries = rec.elements, rec.entries
    if isinstance(val, list):
        n = len(val)
        for i in range(n):
            r = elements[i] if elements is not None and i < len(elements) else None
            new = _intern(val, str(i), r, policy, log, with_source)
            if new is UNDEF:
                if i < len(val):
                    val[i] = HOLE
            else:
                while len(val) <= i:
                    val.append(HOLE)
                val[i] = new
    elif isinstance(val, Obj):
        for k in val.keys():
            r = entries.get(k) if entries is not None else None
            new = _intern(val, k, r, policy, log, with_source)
            if new is UNDEF:
                val.delete(k)
            else:
                val.set(k, new)
    if with_source:
        src = dump(source) if source is not None else "-"
    else:
        src = "N"
    log.append("%s %s %s %s" % (holder_keys_dump(holder), dump(name), dump(val), src))
    return policy(holder, name, val)


# --------------------------------------------------------------------------------------------
# Part D: structural dump (must produce exactly what D() in the in-program JS library produces)

def dump(v):
    out = []
    _with_recursion(lambda: _dump(v, out), 20000)
    return "".join(out)


def _dump(v, out):
    if v is None:
        out.append("n")
    elif v is True:
        out.append("t")
    elif v is False:
        out.append("f")
    elif isinstance(v, float):
        if v != v:
            out.append("dNaN")
        else:
            hi, lo = f64_bits(v)
            out.append("d%d.%d" % (hi, lo))
    elif isinstance(v, str):
        out.append("s%d<%s>" % (len(v), ",".join(str(ord(c)) for c in v)))
    elif v is UNDEF:
        out.append("u")
    elif v is HOLE:
        out.append("h")
    elif isinstance(v, list):
        out.append("a%d[" % len(v))
        for i, x in enumerate(v):
            if i:
                out.append(",")
            _dump(x, out)
        out.append("]")
    elif isinstance(v, Obj):
        out.append("o{")
        first = True
        for k, x in v.items():
            if not first:
                out.append(",")
            first = False
            _dump(k, out)
            out.append(":")
            _dump(x, out)
        out.append("}")
    else:
        raise AssertionError("cannot dump %r" % (v,))
