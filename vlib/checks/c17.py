"""C17 — module graphs evaluate each module once, in dependency order.

Real engine: `bvh modules` (harness/bvh/src/modules.rs) loads/links/evaluates generated module graphs through a
logging in-memory `ModuleLoader`. Oracles:
  (a) node's ESM loader on the same sources written as files (oracle/node_modules_runner.mjs): print trace
      (exact sequence for graphs without dynamic import; multiset + per-module order when dynamic imports make the
      interleaving host-timing dependent), promise outcome of every host evaluation (error classes only);
  (b) oracle-free invariants on boa's own log (once-only loads and bodies, dependencies-first on the condensation
      of the graph, a failing module rejects exactly its dependents, re-evaluation re-runs nothing and repeats the
      outcome, the promise is settled once the job queue is drained, live bindings);
  (c) an executable transcription of the specification's algorithm (gen_modgraph.SpecSim), timing-free: which
      bodies run / fulfilled-or-rejected, exact body order for fully synchronous graphs.
Workload: vlib/gen_modgraph.py (exhaustive small graphs + random graphs up to 8 modules).
Open known findings live in known/c17_findings.json: their input classes (stated with SpecSim, see
gen_modgraph.avoid_flags) are skipped by the main stream and their exact reproducers are replayed on every run."""
import json
import os
import shutil
import subprocess
import time
from concurrent.futures import ThreadPoolExecutor

from .. import build, core, runner
from .. import gen_modgraph as G
from ..rng import Rng

PID = "C17"
KNOWN_PATH = os.environ.get("C17_KNOWN") or os.path.join(runner.VERIF, "known", "c17_findings.json")  # C17_KNOWN: a copy with findings marked fixed, to validate patches on a scratch tree
NODE_RUNNER = os.path.join(runner.VERIF, "oracle", "node_modules_runner.mjs")
NODE_SHARDS = 6


def load_findings():
    try:
        with open(KNOWN_PATH) as f:
            return json.load(f)
    except FileNotFoundError:
        return []


# --------------------------------------------------------------------------------------------
# node side: sharded, supervised (a V8 CHECK failure takes the whole process down: the job that was running
# becomes {"fatal": "node-died"} and the shard is restarted after it)

def run_node_modules(jobs, tag, shards=NODE_SHARDS, timeout_ms=3000, wall=3000):
    if not runner.node_available():
        return [{"fatal": "node-unavailable"} for _ in jobs]
    d = os.path.join(runner.WORK, "c17", "%s-%d" % (tag, os.getpid()))
    shutil.rmtree(d, ignore_errors=True)
    os.makedirs(d, exist_ok=True)
    results = [None] * len(jobs)
    state = []
    for k in range(shards):
        idx = list(range(k, len(jobs), shards))
        if idx:
            state.append({"k": k, "todo": idx, "gen": 0, "p": None})

    def start(s):
        s["gen"] += 1
        s["jp"] = os.path.join(d, "jobs_%d_%d.jsonl" % (s["k"], s["gen"]))
        s["op"] = os.path.join(d, "out_%d_%d.jsonl" % (s["k"], s["gen"]))
        with open(s["jp"], "w") as f:
            for gi in s["todo"]:
                f.write(json.dumps(jobs[gi]) + "\n")
        cmd = [runner.NODE, "--stack-size=4000", NODE_RUNNER, s["jp"], s["op"], runner.PRELUDE,
               os.path.join(d, "scratch_%d_%d" % (s["k"], s["gen"])), str(timeout_ms)]
        s["p"] = subprocess.Popen(cmd, stdout=subprocess.DEVNULL, stderr=subprocess.DEVNULL)

    def collect(s):
        n = 0
        try:
            with open(s["op"]) as f:
                for line in f:
                    try:
                        r = json.loads(line)
                    except Exception:
                        break
                    li = r.get("index")
                    if isinstance(li, int) and li < len(s["todo"]):
                        results[s["todo"][li]] = r
                        n = max(n, li + 1)
        except FileNotFoundError:
            pass
        return n

    for s in state:
        start(s)
    t_end = time.time() + wall
    live = list(state)
    while live:
        nxt = []
        for s in live:
            rc = s["p"].poll()
            if rc is None:
                if time.time() > t_end:
                    s["p"].kill()
                    s["p"].wait()
                    collect(s)
                else:
                    nxt.append(s)
                continue
            done = collect(s)
            if done < len(s["todo"]):
                if rc == 77:
                    # the runner left after a job it could not drain: fresh process for the rest
                    s["todo"] = s["todo"][done:]
                else:
                    # died on job `done`
                    results[s["todo"][done]] = {"fatal": "node-died:rc=%s" % rc}
                    s["todo"] = s["todo"][done + 1:]
                if s["todo"] and s["gen"] < 500:
                    start(s)
                    nxt.append(s)
        live = nxt
        if live:
            time.sleep(0.02)
    shutil.rmtree(d, ignore_errors=True)
    return [r if r is not None else {"fatal": "node-missing"} for r in results]


# --------------------------------------------------------------------------------------------
# checking one case

def _first(trace, line):
    try:
        return trace.index(line)
    except ValueError:
        return None


def _bodies(trace):
    return [l[2:] for l in trace if l.startswith("s ")]


def _project(trace, names):
    """each module's own body lines in order (settle handlers of not-awaited dynamic imports run at a time
    of their own and are left out)"""
    out = {n: [] for n in names}
    for l in trace:
        if l[:2] in ("s ", "e "):
            key = l[2:]
        else:
            parts = l.split(" ", 2)
            if len(parts) > 1 and parts[1] == "dyn":
                continue
            key = parts[0]
        out.setdefault(key, []).append(l)
    return out


def invariants(case, rb):
    """oracle-free invariants on boa's log; returns list of (kind, text)"""
    meta = case["meta"]
    names = meta["names"]
    static = meta["static"]
    trace = rb.get("trace", [])
    evals = rb.get("evals", [])
    bad = []
    broken = meta.get("linkfail") or meta.get("parsefail")
    comp = G.sccs(names, static)
    n_dyn_sites = sum(len(v) for v in meta["dyn"].values())
    has_dyn = n_dyn_sites > 0
    # queue really drained, run_jobs never failed
    for e in evals:
        if e.get("jobs") != "value:undefined":
            bad.append(("run-jobs-error", "run_jobs returned %s during %s of %s" % (e.get("jobs"), e["what"], e["name"])))
        if e.get("requeue") or e.get("second_drain"):
            bad.append(("activity-after-drain", "a second run_jobs after a drained queue did something: %s" % json.dumps(e)))
    # once-only bodies
    for n in names:
        cs = trace.count("s " + n)
        ce = trace.count("e " + n)
        if cs > 1 or ce > 1:
            bad.append(("body-twice", "body of %s ran %d times (end marker %d times)" % (n, cs, ce)))
        if ce and not cs:
            bad.append(("end-without-start", n))
        if n in meta["throws"] and ce:
            bad.append(("thrower-finished", "%s throws before its end marker but the marker was printed" % n))
    # dependencies first (condensation DAG): a body starts only after every static dependency outside its own
    # strongly connected component ran to its end marker
    for n in names:
        p = _first(trace, "s " + n)
        if p is None:
            continue
        for d in static.get(n, []):
            if comp[d] == comp[n]:
                continue
            q = _first(trace, "e " + d)
            if q is None or q > p:
                bad.append(("dependency-order", "%s started at trace[%d] but its non-cyclic dependency %s %s" % (
                    n, p, d, "never finished" if q is None else "finished later, at trace[%d]" % q)))
    # loader discipline
    loads = [tuple(x) for x in rb.get("loads", [])]
    if not meta.get("parsefail"):
        cnt = {}
        for ref, spec in loads:
            cnt[(ref, spec)] = cnt.get((ref, spec), 0) + 1
            if ref.startswith("<"):
                bad.append(("loader-referrer", "load_imported_module(%s, %s): referrer is not a module of the graph" % (ref, spec)))
        for (ref, spec), c in cnt.items():
            rn = ref[:-4] if ref.endswith(".mjs") else ref
            dn = spec[2:-4] if spec.startswith("./") and spec.endswith(".mjs") else spec
            # One graph-loading process asks the host at most once per (referrer, specifier). Every import() starts
            # a loading process of its own, possibly while another one is still waiting for the host, and asks
            # the host for its own specifier: the bound is 1 + the number of import() sites of the graph.
            allowed = (1 if dn in static.get(rn, []) else 0) + meta["dyn"].get(rn, []).count(dn)
            if has_dyn:
                allowed = max(allowed, 1) + n_dyn_sites
            if c > allowed:
                bad.append(("loaded-twice", "load_imported_module(%s, %s) called %d times (static edge + import() sites allow %d)" % (ref, spec, c, allowed)))
        for n in names:
            if _first(trace, "s " + n) is not None:
                for d in static.get(n, []):
                    if (G.fname(n), "./" + G.fname(d)) not in cnt:
                        bad.append(("ran-unloaded", "%s ran but its import of %s never reached the loader" % (n, d)))
        if len(set(rb.get("parsed", []))) != len(rb.get("parsed", [])):
            bad.append(("parsed-twice", str(rb.get("parsed"))))
    # outcomes
    prev = {}
    for e in evals:
        x = e["name"][:-4]
        st = e["state"]
        t0, t1 = e["t"]
        if e["what"] in ("re", "second_re"):
            if t1 != t0:
                bad.append(("re-evaluation-ran-code", "second evaluation of %s printed %s" % (x, trace[t0:t1][:6])))
            if not broken and e["loads"][0] != e["loads"][1]:
                bad.append(("re-evaluation-loaded", "second evaluation of %s called the loader: %s" % (x, loads[e["loads"][0]:e["loads"][1]])))
            if prev.get(x) is not None and prev[x] != st:
                bad.append(("re-evaluation-outcome", "second evaluation of %s: %s, first: %s" % (x, st, prev[x])))
        prev[x] = st
        if st == "pending":
            if not meta.get("deadlock"):
                bad.append(("stuck", "promise of %s(%s) still pending after the job queue was drained" % (e["what"], x)))
            continue
        if meta.get("deadlock"):
            continue
        rs = G.reach(static, [x])
        if broken:
            # a module that does not parse / an import that does not resolve: every evaluation that depends on it
            # is rejected with a SyntaxError before any body runs; evaluations that do not are judged as usual
            hit = sorted(m for m in (meta.get("linkfail"), meta.get("parsefail")) if m and m in rs)
            if hit:
                if st != "rejected:Error<SyntaxError>":
                    bad.append(("broken-graph-outcome", "%s(%s) = %s although %s cannot be parsed/linked" % (e["what"], x, st, hit)))
                if t1 != t0 and not has_dyn:
                    bad.append(("broken-graph-ran-code", "%s(%s) printed %s although %s cannot be parsed/linked" % (
                        e["what"], x, trace[t0:t1][:6], hit)))
                continue
        failed = [m for m in rs if m in meta["throws"] and _first(trace[:t1], "s " + m) is not None]
        if failed:
            ok = {"rejected:Error<%s>" % meta["throws"][m] for m in failed}
            if st not in ok:
                bad.append(("failure-not-propagated", "%s(%s) = %s although %s threw (expected one of %s)" % (e["what"], x, st, failed, sorted(ok))))
        elif st != "fulfilled":
            bad.append(("spurious-rejection", "%s(%s) = %s although no module it depends on threw" % (e["what"], x, st)))
        else:
            # fulfilled: everything it depends on ran to the end
            for m in rs:
                if _first(trace[:t1], "e " + m) is None:
                    bad.append(("fulfilled-early", "%s(%s) fulfilled but dependency %s never finished" % (e["what"], x, m)))
    # live bindings
    for l in trace:
        parts = l.split(" ")
        if len(parts) == 5 and parts[1] == "live":
            try:
                v0, v1 = int(parts[3]), int(parts[4])
            except ValueError:
                bad.append(("live-binding", l))
                continue
            if v1 != v0 + 1:
                bad.append(("live-binding", "importer saw %d then %d across one increment: %r" % (v0, v1, l)))
    return bad


def spec_model(case, rb):
    """timing-free second opinion from the specification's algorithm"""
    meta = case["meta"]
    bad = []
    if meta.get("linkfail") or meta.get("parsefail") or meta.get("deadlock") or any(meta["dyn"].values()):
        return bad, False
    walks = []
    evs = []
    for e in rb.get("evals", []):
        if e["what"] in ("entry", "second"):
            walks.append(e["name"][:-4])
            evs.append(e)
    sim, outs = G.simulate(meta, walks)
    for e, o in zip(evs, outs):
        got = e["state"].split(":")[0]
        exp = o.split(":")[0]
        if exp == "async":
            exp = "pending"
        if got != exp:
            bad.append(("spec-model-outcome", "%s(%s): boa %s, specification algorithm %s" % (e["what"], e["name"], e["state"], o)))
    ran = _bodies(rb.get("trace", []))
    if meta["throws"] and any(meta["tla"].values()):
        # Whether a member of a cycle still runs after another member's asynchronous dependency was rejected depends
        # on which completion comes first (GatherAvailableAncestors skips modules whose cycle root already holds an
        # error): the model has no clock, only the outcomes above are comparable.
        return bad, True
    if set(ran) != set(sim.executed):
        bad.append(("spec-model-bodies", "bodies run: boa %s, specification algorithm %s" % (ran, sim.executed)))
    elif not any(meta["tla"].get(n) for n in sim.executed) and ran != sim.executed:
        bad.append(("spec-model-order", "synchronous graph: boa ran %s, specification order %s" % (ran, sim.executed)))
    return bad, True


def compare_node(case, rb, rn):
    """returns (verdict, text): verdict in 'agree' | 'differ' | 'inconclusive'"""
    meta = case["meta"]
    if rn.get("fatal"):
        return "inconclusive", "node:" + rn["fatal"].split(":")[0]
    eb, en = rb.get("evals", []), rn.get("evals", [])
    if len(eb) != len(en):
        return "inconclusive", "node:eval-count"
    if any(e.get("undrained") for e in en) and not meta.get("deadlock"):
        return "inconclusive", "node:undrained"
    tb, tn = rb.get("trace", []), rn.get("trace", [])
    if meta.get("linkfail") or meta.get("parsefail"):
        # node's own loader answers later imports of a graph that failed to load or link with an error of its own
        # (not the specification's retry): only the first evaluation is comparable
        eb, en = eb[:1], en[:1]
        tb, tn = tb[eb[0]["t"][0]:eb[0]["t"][1]], tn[en[0]["t"][0]:en[0]["t"][1]]
    for b, n in zip(eb, en):
        if n["state"] == "pending" and not meta.get("deadlock"):
            # decided by a wall-clock timeout on the node side
            return "inconclusive", "node:pending-by-timeout"
        if b["state"] != n["state"]:
            if b["state"].startswith("rejected:") and n["state"].startswith("rejected:") and len(meta["throws"]) > 1:
                # Several modules of the evaluated graph threw. Which error a later Evaluate() of a member of a failed
                # cycle reports: the specification returns the promise of the member's [[CycleRoot]] (its error), V8
                # rejects with the member's own recorded exception. Both must be errors of throwers that ran
                # (checked by the invariants); the choice itself is not compared.
                ran = set(_bodies(tb))
                ok = {"rejected:Error<%s>" % c for m, c in meta["throws"].items() if m in ran}
                if b["state"] in ok and n["state"] in ok:
                    return "inconclusive", "node:which-error-of-failed-cycle"
            return "differ", "%s(%s): boa %s, node %s" % (b["what"], b["name"], b["state"], n["state"])
    has_dyn = any(meta["dyn"].values())
    if not has_dyn:
        if tb != tn:
            k = 0
            while k < min(len(tb), len(tn)) and tb[k] == tn[k]:
                k += 1
            return "differ", "trace differs at %d: boa %s, node %s" % (k, tb[k:k + 4], tn[k:k + 4])
        for b, n in zip(eb, en):
            if b["t"] != n["t"]:
                return "differ", "%s(%s) printed trace[%s] on boa, trace[%s] on node" % (b["what"], b["name"], b["t"], n["t"])
        return "agree", ""
    # Graphs with dynamic import(): every import() starts an evaluation of its own whenever the host finished
    # loading, so which evaluation enters a shared cycle first, and what a live binding holds when a body of
    # another evaluation reads it, is host timing. Comparable: outcomes (above), which bodies started / ran to
    # their end, and which import() settled how.
    def shape(t):
        started = sorted(l for l in t if l.startswith("s "))
        ended = sorted(l for l in t if l.startswith("e "))
        dyn = sorted(" ".join(l.split(" ")[:4]) for l in t if len(l.split(" ")) > 3 and l.split(" ")[1] in ("dyn", "adyn"))
        return started, ended, dyn
    sb, sn = shape(tb), shape(tn)
    if sb != sn:
        comp = G.sccs(meta["names"], meta["static"])
        sizes = {}
        for m in meta["names"]:
            sizes[comp[m]] = sizes.get(comp[m], 0) + 1
        if meta["throws"]:
            # a throwing module: which modules still start depends on where a cycle is entered and on whether an
            # import()'s evaluation begins before or after an asynchronous module's rejection
            return "inconclusive", "node:timing-dependent-failure"
        for what, x, y in zip(("bodies started", "bodies finished", "import() settlements"), sb, sn):
            if x != y:
                return "differ", "%s differ: only boa %s, only node %s" % (
                    what, [l for l in x if l not in y][:6], [l for l in y if l not in x][:6])
    if sorted(tb) == sorted(tn):
        pb, pn = _project(tb, meta["names"]), _project(tn, meta["names"])
        if all(pb.get(m) == pn.get(m) for m in meta["names"]):
            return "agree:dyn-strict", ""
    return "agree:dyn-shape", ""


class Ctx:
    def __init__(self, chk, binary):
        self.chk = chk
        self.binary = binary
        self.evaluations = 0
        self.nontrivial = set()
        self.samples = []
        self.hist = {"features": {}, "shapes": {}, "modules": {}, "outcomes": {}, "bodies_run": {}, "scc_max": {},
                     "node": {}, "avoided": {}, "kinds": {}, "spec_model_checked": 0, "invariant_checked": 0}
        self.phase = {}

    def count(self, h, k, n=1):
        d = self.hist[h]
        d[str(k)] = d.get(str(k), 0) + n


def case_replay(case, what):
    spec = case.get("spec") or {}
    return {"kind": "case", "spec": G.spec_to_json(spec) if "edges" in spec else spec, "job": case["job"], "meta": case["meta"], "what": what}


def judge(case, rb, rn):
    """-> (violations [(kind, text)], inconclusive reason or None, node verdict)"""
    f = rb.get("fatal")
    if f:
        external = ("died:SIGTERM", "died:SIGKILL", "died:SIGINT", "died:SIGHUP", "died:SIGSTOP")
        if f.startswith("panic:") or (f.startswith("died:") and not f.startswith(external)):
            return [("panic", f[:300])], None, "n/a"
        # SIGTERM / SIGKILL come from outside (another user's pkill, the OOM killer): not an observation of the engine
        return [], "boa:" + ":".join(f.split(":")[:2]), "n/a"
    bad = invariants(case, rb)
    sb, _ = spec_model(case, rb)
    bad += sb
    verdict, text = compare_node(case, rb, rn) if rn is not None else ("not-run", "")
    if verdict == "differ":
        bad.append(("differs-from-node", text))
    return bad, (text if verdict == "inconclusive" else None), verdict


def process(cx, cases, tag, node_subset=None):
    """runs cases on boa (all) and node (all, or the indices in node_subset) and judges them"""
    jobs = [c["job"] for c in cases]
    t0 = time.time()
    sub = list(range(len(jobs))) if node_subset is None else sorted(node_subset)
    with ThreadPoolExecutor(1) as ex:
        # node (6 processes) runs next to boa (one process per core)
        fut = ex.submit(run_node_modules, [jobs[i] for i in sub], tag) if sub else None
        rb = runner.run_bvh(cx.binary, "modules", jobs, "c17" + tag, timeout=30)
        t1 = time.time()
        part = fut.result() if fut else []
    rn = [None] * len(jobs)
    for i, r in zip(sub, part):
        rn[i] = r
    t2 = time.time()
    cx.phase[tag] = {"boa_s": round(t1 - t0, 1), "both_s": round(t2 - t0, 1), "cases": len(cases)}
    for case, b, n in zip(cases, rb, rn):
        record(cx, case, b, n)


def _entries_of(job):
    out = [["entry", job["entry"]]]
    if job.get("re_evaluate"):
        out.append(["re", job["entry"]])
    if job.get("second_entry"):
        out.append(["second", job["second_entry"]])
        if job.get("re_evaluate"):
            out.append(["second_re", job["second_entry"]])
    return out


def _split(batch_res, counts, prefixes):
    """per-graph results out of the result of a batched job (each graph's evaluations are contiguous and leave
    nothing behind in the job queue, so its trace / loader-log slices are contiguous too)"""
    if batch_res is None:
        return [None] * len(counts)
    if batch_res.get("fatal"):
        return [{"fatal": batch_res["fatal"]}] * len(counts)
    out = []
    off = 0
    evs = batch_res.get("evals", [])
    for cnt, pre in zip(counts, prefixes):
        mine = evs[off:off + cnt]
        off += cnt
        if len(mine) != cnt:
            out.append({"fatal": "missing:batch-short"})
            continue
        t0, t1 = mine[0]["t"][0], mine[-1]["t"][1]
        r = {"trace": batch_res.get("trace", [])[t0:t1], "evals": []}
        l0 = None
        if "loads" in mine[0]:
            l0, l1 = mine[0]["loads"][0], mine[-1]["loads"][1]
            r["loads"] = batch_res.get("loads", [])[l0:l1]
            r["parsed"] = [x for x in batch_res.get("parsed", []) if x.startswith(pre)]
        for e in mine:
            e2 = dict(e)
            e2["t"] = [e["t"][0] - t0, e["t"][1] - t0]
            if l0 is not None:
                e2["loads"] = [e["loads"][0] - l0, e["loads"][1] - l0]
            r["evals"].append(e2)
        out.append(r)
    return out


def process_batched(cx, specs, tag, size, with_node):
    """exhaustive stream: `size` graphs per job (own module-name prefix each), one context per job"""
    cases = []
    jobs = []
    layout = []
    for a in range(0, len(specs), size):
        part = [G.build_case(s, "%s-%d" % (tag, a + k), prefix="g%d_" % k) for k, s in enumerate(specs[a:a + size])]
        mods = {}
        entries = []
        counts = []
        for c in part:
            mods.update(c["job"]["modules"])
            es = _entries_of(c["job"])
            entries += es
            counts.append(len(es))
        jobs.append({"id": "%s-b%d" % (tag, a // size), "modules": mods, "entries": entries, "setup": G.SETUP})
        layout.append((len(cases), counts, ["g%d_" % k for k in range(len(part))]))
        cases += part
    t0 = time.time()
    with ThreadPoolExecutor(1) as ex:
        fut = ex.submit(run_node_modules, jobs, tag, NODE_SHARDS, 5000) if with_node else None
        rb = runner.run_bvh(cx.binary, "modules", jobs, "c17" + tag, timeout=60)
        t1 = time.time()
        rn = fut.result() if fut else [None] * len(jobs)
    t2 = time.time()
    cx.phase[tag] = {"boa_s": round(t1 - t0, 1), "both_s": round(t2 - t0, 1), "cases": len(cases), "jobs": len(jobs)}
    redo = []
    for (start, counts, pres), b, n in zip(layout, rb, rn):
        sb = _split(b, counts, pres)
        sn = _split(n, counts, pres) if with_node else [None] * len(counts)
        if b.get("fatal"):
            # attribute a panic / death to the graph that caused it: run the graphs of this job one by one
            redo += list(range(start, start + len(counts)))
            continue
        for k in range(len(counts)):
            record(cx, cases[start + k], sb[k], sn[k])
    if redo:
        single = [G.build_case(cases[i]["spec"], cases[i]["job"]["id"]) for i in redo]
        process(cx, single, tag + "redo", node_subset=None if with_node else set())


def record(cx, case, b, n):
    meta = case["meta"]
    cx.evaluations += 1
    bad, inconc, verdict = judge(case, b, n)
    cx.count("node", verdict)
    cx.count("kinds", case["spec"].get("kind", "?"))
    if bad:
        kinds = sorted({k for k, _ in bad})
        cx.chk.violation("%s: %s" % ("+".join(kinds), " | ".join(t for _, t in bad[:4])),
                         case_replay(case, kinds))
        return
    if inconc and not inconc.startswith("node:"):
        cx.chk.inconc(inconc)
        return
    if inconc:
        cx.chk.inconc(inconc)
    cx.hist["invariant_checked"] += 1
    if case["spec"].get("kind") == "exhaustive":
        cx.hist["exhaustive_checked"] = cx.hist.get("exhaustive_checked", 0) + 1
    trace = b.get("trace", [])
    ran = _bodies(trace)
    for f in meta["features"]:
        cx.count("features", f)
    cx.count("modules", len(meta["names"]))
    cx.count("bodies_run", len(ran))
    if case["spec"].get("shape"):
        cx.count("shapes", case["spec"]["shape"])
    comp = G.sccs(meta["names"], meta["static"])
    sizes = {}
    for m in meta["names"]:
        sizes[comp[m]] = sizes.get(comp[m], 0) + 1
    cx.count("scc_max", max(sizes.values()))
    for e in b.get("evals", []):
        cx.count("outcomes", e["what"] + ":" + e["state"])
    if not any(meta["dyn"].values()) and not (meta.get("linkfail") or meta.get("parsefail") or meta.get("deadlock")):
        cx.hist["spec_model_checked"] += 1
    if verdict.startswith("agree") and len(ran) >= 2:
        h = core.norm_hash(json.dumps([case["job"]["modules"], case["job"]["entry"], case["job"].get("second_entry")], sort_keys=True))
        if h not in cx.nontrivial:
            cx.nontrivial.add(h)
            if len(cx.samples) < 6 and (len(cx.samples) < 2 or "tla" in meta["features"]):
                cx.samples.append({"modules": case["job"]["modules"], "entry": case["job"]["entry"],
                                   "second_entry": case["job"].get("second_entry"), "trace": trace,
                                   "evals": [[e["what"], e["state"]] for e in b.get("evals", [])]})


# --------------------------------------------------------------------------------------------
# known findings

def _fixed_case(c, cid):
    job = dict(c["job"])
    job["id"] = cid
    job.setdefault("setup", G.SETUP)
    return {"job": job, "meta": c["meta"], "spec": {"kind": "known", "name": c.get("name")}}


def finding_cases(k):
    return [(_fixed_case(c, "%s-%d" % (k["id"], i)), c) for i, c in enumerate(k.get("reproducer", {}).get("cases", []))]


def deadlock_cases():
    """`await import()` of a module that needs the importer to finish first never settles, by specification: the
    one situation where a pending promise with a drained queue is right (both engines must agree on it)"""
    def body(n, imports, extra):
        return "%sprint('s %s');\n%sprint('e %s');\n" % (imports, n, extra, n)

    def adyn(me, d):
        return ("try { const ns = await import('./%s.mjs'); print('%s adyn %s ok', typeof ns); } "
                "catch (e) { print('%s adyn %s err', __show(e)); }\n" % (d, me, d, me, d))
    out = []
    for cid, mods, static, dyn in (
        ("dl-self", {"a": body("a", "", adyn("a", "a"))}, {"a": []}, {"a": ["a"]}),
        ("dl-importer", {"a": body("a", "import './b.mjs';\n", ""), "b": body("b", "", adyn("b", "a"))},
         {"a": ["b"], "b": []}, {"b": ["a"]}),
    ):
        names = sorted(mods)
        job = {"id": cid, "modules": {n + ".mjs": src for n, src in mods.items()}, "entry": "a.mjs", "re_evaluate": False}
        meta = {"names": names, "static": static, "dyn": dyn, "tla": {n: (1 if n in dyn else 0) for n in names}, "throws": {},
                "linkfail": None, "parsefail": None, "entry": "a", "second": None, "deadlock": True,
                "features": ["deliberate-deadlock", "dynamic-import-await", "tla"]}
        out.append(_fixed_case({"job": job, "meta": meta, "name": cid}, cid))
    return out


def neighbour_cases(findings):
    """shapes next to the reproducers that hold on this tree (they delimit the avoided classes), and the
    reproducers of findings marked fixed (regression cases): ordinary cases"""
    out = []
    for k in findings:
        for i, c in enumerate(k.get("neighbours_that_hold", [])):
            out.append(_fixed_case(c, "%s-nb%d" % (k["id"], i)))
        if k.get("status") == "fixed":
            for i, c in enumerate(k.get("reproducer", {}).get("cases", [])):
                out.append(_fixed_case(c, "%s-fixed%d" % (k["id"], i)))
    return out


def matches_observed(obs, rb):
    """does boa's result show the recorded failure signature?"""
    if "fatal_contains" in obs:
        return obs["fatal_contains"] in (rb.get("fatal") or "")
    if rb.get("fatal"):
        return False
    ok = True
    if "entry_state" in obs:
        ok = ok and rb["evals"][0]["state"] == obs["entry_state"]
    if "trace" in obs:
        ok = ok and rb.get("trace") == obs["trace"]
    return ok


def replay_known(cx, findings):
    todo = []
    for k in findings:
        if k.get("status") != "open":
            continue
        for case, c in finding_cases(k):
            todo.append((k, case, c))
    if not todo:
        return
    jobs = [case["job"] for _, case, _ in todo]
    rb = runner.run_bvh(cx.binary, "modules", jobs, "c17k", timeout=30)
    rn = run_node_modules(jobs, "known", shards=min(NODE_SHARDS, len(jobs)))
    still = {}
    for (k, case, c), b, n in zip(todo, rb, rn):
        bad, inconc, verdict = judge(case, b, n)
        if not bad:
            if inconc:
                cx.chk.inconc("known:" + inconc)
            continue  # no longer failing
        if matches_observed(c.get("observed", {}), b):
            if verdict != "n/a" and n.get("evals") and c.get("node_entry_state") and n["evals"][0]["state"] != c["node_entry_state"]:
                cx.chk.inconc("known:node-answers-differently")
            still.setdefault(k["id"], [k, 0])[1] += 1
            continue
        cx.chk.violation("known finding %s: reproducer %s fails differently: %s" % (
            k["id"], case["job"]["id"], " | ".join("%s: %s" % kt for kt in bad[:3])), case_replay(case, [x for x, _ in bad]))
    for fid, (k, nhit) in still.items():
        cx.chk.known_finding(k, "%s — %d/%d reproducers still fail (%s)" % (k["title"], nhit, len(k["reproducer"]["cases"]), fid))
        cx.chk.known_hits[fid] = nhit


def open_avoid(findings):
    flags = set()
    for k in findings:
        if k.get("status") == "open":
            flags |= set(k.get("avoid", []))
    return flags


# --------------------------------------------------------------------------------------------

def stream_exhaustive(cx, max_n, node_budget):
    specs = list(G.exhaustive_specs(max_n))
    # node runs one representative per behaviour class (same reachable ordered graph up to renaming); when there
    # are more classes than the budget allows, all classes of the smaller graphs and an evenly spaced sample of the rest
    reps = {}
    for i, s in enumerate(specs):
        reps.setdefault(G.exhaustive_key(s), i)
    rep_idx = sorted(reps.values())
    if len(rep_idx) > node_budget:
        small = [i for i in rep_idx if specs[i]["n"] < max_n]
        big = [i for i in rep_idx if specs[i]["n"] >= max_n]
        keep = max(0, node_budget - len(small))
        step = max(1, len(big) // max(1, keep))
        rep_idx = small + big[::step][:keep]
    chosen = set(rep_idx)
    with_node = [specs[i] for i in range(len(specs)) if i in chosen]
    without = [specs[i] for i in range(len(specs)) if i not in chosen]
    chunk = 60000
    for a in range(0, len(with_node), chunk):
        process_batched(cx, with_node[a:a + chunk], "xn%d" % (a // chunk), 24, True)
    for a in range(0, len(without), chunk):
        process_batched(cx, without[a:a + chunk], "xb%d" % (a // chunk), 24, False)
    return len(specs), len(reps), len(chosen)


def stream_random(cx, r, n, avoid):
    cases = []
    tries = 0
    while len(cases) < n and tries < n * 4:
        spec = G.random_spec(r.fork("g", tries))
        tries += 1
        case = G.build_case(spec, "r%d" % tries)
        flags = G.avoid_flags(case["meta"], case["meta"]["entry"], case["meta"]["second"]) & avoid
        if flags:
            for f in sorted(flags):
                cx.count("avoided", f)
            continue
        cases.append(case)
    chunk = 6000
    for a in range(0, len(cases), chunk):
        process(cx, cases[a:a + chunk], "r%d" % (a // chunk))


def run(tier, seed):
    chk = core.Check(PID, tier, seed)
    thorough = tier == "thorough"
    findings = load_findings()
    avoid = open_avoid(findings)
    binary = build.ensure("bvh", "native")
    cx = Ctx(chk, binary)
    if not runner.node_available():
        chk.inconc("node-unavailable")
    r = Rng(seed, "c17")
    process(cx, neighbour_cases(findings) + deadlock_cases(), "fixed")
    n_exh, n_reps, n_node = stream_exhaustive(cx, 4 if thorough else 3, 60000 if thorough else 5000)
    stream_random(cx, r.fork("random"), int(os.environ.get("C17_RANDOM") or (40000 if thorough else 1000)), avoid)
    replay_known(cx, findings)
    chk.assumptions = [
        "node 20's ESM loader (V8) is the reference for body order and outcomes; for graphs with dynamic import() the interleaving "
        "of separately started evaluations is host-timing dependent, so only the multiset of lines, each module's own line order and the outcomes are compared",
        "gen_modgraph.SpecSim transcribes InnerModuleEvaluation / AsyncModuleExecutionFulfilled|Rejected (timing-free) and is used as a second opinion "
        "for graphs without dynamic import, and to state the input classes of open known findings",
        "main stream skips the input classes of OPEN known findings: %s (their exact reproducers are replayed instead)" % (sorted(avoid) or "none"),
        "exhaustive part: every directed graph on <= %d nodes (self-loops included) x every entry, synchronous bodies, all run on boa with all "
        "oracle-free invariants and the specification model; node runs one representative per reachable-ordered-graph class" % (4 if thorough else 3),
        "a node-side 'pending' is decided by a wall-clock patience and is therefore inconclusive, except for graphs that contain a deliberate "
        "`await import()` deadlock where both engines must leave the promise pending",
    ]
    return chk.finish(
        evaluations=cx.evaluations,
        distinct_nontrivial=len(cx.nontrivial),
        rule="evaluation = one generated module graph loaded/linked/evaluated on boa (entry, optional second evaluation of the same module, optional "
             "second entry) with all invariants checked, compared with node where node ran it; non-trivial = at least two module bodies ran and "
             "node agreed; distinct by hash of (sources, entry, second entry)",
        samples=cx.samples,
        extra={
            "exhaustive": False,  # the run as a whole (random graphs) is exploration; the enumerated sub-space is described below
            "exhaustive_subspace": {"max_nodes": 4 if thorough else 3, "graphs_x_entries": n_exh, "behaviour_classes": n_reps, "classes_run_on_node": n_node,
                           "sub_space_complete": cx.hist.get("exhaustive_checked", 0) == n_exh,
                           "complete_for": "synchronous bodies, bare imports in increasing target order"},
            "histograms": cx.hist,
            "avoid_flags": sorted(avoid),
            "phase_seconds": cx.phase,
        },
        min_nontrivial=500,
    )


def replay(path, seed):
    with open(path) as f:
        rep = json.load(f)
    binary = build.ensure("bvh", "native")
    if rep.get("kind") != "case":
        print("unknown replay kind %r" % rep.get("kind"))
        return 2
    case = {"job": rep["job"], "meta": rep["meta"], "spec": rep.get("spec", {})}
    b = runner.run_bvh(binary, "modules", [case["job"]], "c17replay", shards=1, timeout=30)[0]
    n = run_node_modules([case["job"]], "replay", shards=1)[0]
    print("boa :", json.dumps(b)[:3000])
    print("node:", json.dumps(n)[:3000])
    bad, inconc, verdict = judge(case, b, n)
    for k, t in bad:
        print("  %s: %s" % (k, t))
    if bad:
        print("VIOLATION property=%s replay=%s" % (PID, path))
        return 1
    if inconc and not inconc.startswith("node:"):
        print("NO-VERDICT %s: %s" % (PID, inconc))
        return 2
    print("%s: replay holds now (node: %s)" % (PID, verdict))
    return 0
