"""C04 — binding placement and operand shortcuts never change behaviour (boa-vs-boa twin)."""
import itertools

from .. import core, diffrun, gen_core
from . import twin_common

SWITCHES = ["force_escape", "const_cache_off", "loop_hoist_off", "fused_off"]
# shapes kept out of the main stream: open finding K3 shows up only when the binding escapes
AVOID = {"logical_assign_nonlexical"}
FEATURES = {"eval": 3, "with": 3}
MANDATORY = ["closure_in_loop", "const_bound_loop", "default_param", "generator", "tdz", "eval", "for", "while", "update", "switch_lexical", "const"]


def make_job(src, cfg):
    return diffrun.job(src, cfg=cfg)


def run(tier, seed):
    chk = core.Check("C04", tier, seed)
    thorough = tier == "thorough"
    n = 30000 if thorough else 1500
    eng = diffrun.Engines(tag="c04", node=False)
    try:
        progs, used = [], {}
        for i in range(n):
            # two thirds of the programs are the body of a function (top-level declarations are then function locals,
            # the bindings the register placement is about); half of those without the eval/with bias, because a
            # direct eval or a with statement in a function keeps all of its bindings in environments
            src, u = gen_core.generate_form(seed, i, form="plain" if i % 3 == 0 else "main", avoid=AVOID,
                                            features=FEATURES if i % 3 != 2 else None, label="c04")
            progs.append(src)
            for k, v in u.items():
                used[k] = used.get(k, 0) + v
        missing = [f for f in MANDATORY if not used.get(f)]
        if missing:
            raise core.NoVerdict("generator never produced: %s" % missing)
        all_off = {s: True for s in SWITCHES}
        subsets = []
        for k in range(1, len(SWITCHES) + 1):
            for c in itertools.combinations(SWITCHES, k):
                subsets.append(("off:" + "+".join(c), {s: True for s in c}))
        singles = [x for x in subsets if x[0].count("+") == 0]

        def variants(i):
            if thorough:
                return subsets
            # quick: all-off and the four single switches for every program, one more subset by rotation
            extra = subsets[len(singles) + (i % (len(subsets) - len(singles) - 1))]
            return [subsets[-1]] + singles + [extra]
        out = twin_common.run_twin(chk, eng, progs, {}, variants, make_job,
                                   lambda name: "shortcut configuration %s changes behaviour" % name)
        sc = out["shortcuts"]
        # evidence that the switches really took effect
        off = sc.get("off:" + "+".join(SWITCHES), [0, 0, 0, 0])
        base = sc.get("base", [0, 0, 0, 0])
        if any(off) or not all(base):
            raise core.NoVerdict("switches ineffective or shortcuts never taken: base=%s all-off=%s" % (base, off))
        chk.assumptions = ["the conservative configuration (every binding in an environment, no const cache, no hoisting, no fusion) is itself "
                           "correct only relative to C01; this twin cannot see a defect present in both configurations",
                           "not generated: %s (open finding K3 is visible only when the binding escapes)" % sorted(AVOID)]
        return chk.finish(
            evaluations=out["jobs"], distinct_nontrivial=len(out["distinct"]),
            rule="program from the core grammar (one third plain scripts, two thirds function bodies; two thirds biased to eval/with) evaluated under the default configuration and under subsets of "
                 "{locals-in-registers, const-cache, loop-hoist, fused-branch} switched off; non-trivial = printed at least one line; distinct by source hash",
            samples=[p[:500] for p in progs[:3]],
            extra={"programs": len(progs), "configurations_compared": out["compared"], "candidates": out["candidates"],
                   "shortcuts_taken_by_configuration": {k: dict(zip(["local_register", "const_cache", "loop_hoist", "fused_branch"], v)) for k, v in sc.items()},
                   "feature_counts": used},
            min_nontrivial=50)
    finally:
        eng.close()


def replay(path, seed):
    return twin_common.replay_twin(path, "C04", make_job)
