"""Shared driver of the boa-vs-boa configuration twins (C04, C05, C06-style checks)."""
import json

from .. import core, diffrun, gen_core
from ..core import norm_hash


def run_twin(chk, eng, progs, base_cfg, variants, make_job, describe_variant, reduce_limit=5, origin_note=""):
    """progs: list of sources. base_cfg: dict for make_job. variants: list of (name, cfg).
    make_job(src, cfg) -> job. Returns dict with counters; reports violations through chk."""
    jobs = []
    meta = []
    for i, src in enumerate(progs):
        jobs.append(make_job(src, base_cfg))
        meta.append((i, None))
        for name, cfg in variants(i):
            jobs.append(make_job(src, cfg))
            meta.append((i, name))
    res = eng.boa(jobs)
    base = {}
    for (i, name), r in zip(meta, res):
        if name is None:
            base[i] = r
    candidates = []
    compared = {}
    distinct = set()
    shortcuts = {}
    for (i, name), r in zip(meta, res):
        sc = r.get("shortcuts") if r else None
        key = name or "base"
        if sc:
            acc = shortcuts.setdefault(key, [0, 0, 0, 0])
            for k in range(4):
                acc[k] += sc[k]
        if name is None:
            continue
        b = base[i]
        cb, cv = diffrun.classify(b), diffrun.classify(r)
        if cb.startswith("inconclusive") or cv.startswith("inconclusive"):
            chk.inconc((cb if cb != "ok" else cv)[:40])
            continue
        compared[name] = compared.get(name, 0) + 1
        if cb.startswith("internal") or cv.startswith("internal"):
            if cb != cv:
                candidates.append((i, name, b, r))
            continue
        if diffrun.record(b) != diffrun.record(r):
            candidates.append((i, name, b, r))
        elif diffrun.record(b)[2]:
            distinct.add(norm_hash(progs[i]))
    reported = 0
    seen = set()
    vmap = {}
    for i in range(len(progs)):
        for name, cfg in variants(i):
            vmap[(i, name)] = cfg
    for (i, name, b, r) in candidates:
        if reported >= reduce_limit:
            chk.inconc("further-candidates-not-reduced")
            continue
        cfg = vmap[(i, name)]
        src = progs[i]
        # confirm alone
        two = eng.boa([make_job(src, base_cfg), make_job(src, cfg)], shards=2)
        if diffrun.record(two[0]) == diffrun.record(two[1]):
            chk.inconc("not-reproduced-alone")
            continue
        red = eng.reduce_twin(src, lambda s: make_job(s, base_cfg), lambda s: make_job(s, cfg))
        h = norm_hash(red + name)
        if h in seen:
            continue
        seen.add(h)
        two = eng.boa([make_job(red, base_cfg), make_job(red, cfg)], shards=2)
        chk.violation("%s: `%s` gives %s with the default configuration and %s with %s" % (
            describe_variant(name), red[:300], str(diffrun.record(two[0]))[:250], str(diffrun.record(two[1]))[:250], name),
            {"kind": "twin", "src": src, "reduced": red, "base_cfg": base_cfg, "variant": name, "cfg": cfg})
        reported += 1
    return {"compared": compared, "distinct": distinct, "candidates": len(candidates), "shortcuts": shortcuts, "jobs": len(jobs)}


def replay_twin(path, pid, make_job):
    with open(path) as f:
        rep = json.load(f)
    eng = diffrun.Engines(tag=pid.lower() + "r", node=False)
    try:
        src = rep.get("reduced") or rep["src"]
        two = eng.boa([make_job(src, rep["base_cfg"]), make_job(src, rep["cfg"])], shards=2)
        print("base   :", diffrun.record(two[0]))
        print("variant:", diffrun.record(two[1]))
        if diffrun.record(two[0]) != diffrun.record(two[1]):
            print("VIOLATION property=%s replay=%s" % (pid, path))
            return 1
        return 0
    finally:
        eng.close()
