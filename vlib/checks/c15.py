"""C15 — typed arrays, buffers and DataViews match a byte model and stay in bounds.

Operation histories (vlib/gen_buf.py) are run on the real engine through the bvh harness; after every step the
program prints the step's result and the observation of every buffer/view that changed. Every line is compared
with the executable byte model (vlib/models/bytes.py). V8 (node) runs the same programs as a second opinion on
the model: where V8 and the model disagree the history is *inconclusive* (and reported), never a violation.
Thorough tier: the same jobs again on the AddressSanitizer build (a sanitizer report / dead process is a
violation), many more histories, optionally a few tiny histories under Miri.

Streams: `main` (random histories, 5..60 steps), `reentrant` (every coercible argument is likely an object whose
valueOf resizes/detaches), `matrix` (per element type: arbitrary doubles/BigInts stored through index store, fill,
DataView set in both byte orders; bytes observed through a Uint8 view).

Open findings live in known/c15_findings.json; each names the model hazards (`avoid`) the streams must not
contain and carries an exact reproducer that is replayed on every run.
"""
import json
import multiprocessing
import os
import subprocess
import time

from .. import build, core, gen_buf, runner
from ..models import bytes as bm
from ..rng import Rng

PID = "C15"
KNOWN_PATH = os.path.join(core.VERIF, "known", "c15_findings.json")
# malloc_context_size=2 halves the run time under ASan (shorter allocation stacks in reports, same detection)
ASAN_ENV = {"ASAN_OPTIONS": "halt_on_error=1:detect_leaks=0:exitcode=66:malloc_context_size=2"}
# ASan runs ~25x slower than native here (a fresh context per job): a fixed share of every stream is replayed under it
ASAN_SHARE = {"main": 900, "reentrant": 1400, "matrix": 200}
GEN_PROCS = 6


def load_findings():
    try:
        with open(KNOWN_PATH) as f:
            return json.load(f)
    except FileNotFoundError:
        return []


def avoid_set(findings):
    av = set()
    for k in findings:
        if k.get("status") == "open":
            for a in k.get("avoid", []):
                av.add(a)
    return av


# ------------------------------------------------------------------------------------------------ generation
def _gen_one(args):
    seed, stream, index, feats, avoid = args
    rng = Rng(seed, "c15", stream, index)
    if stream == "main":
        steps, m, rej = gen_buf.generate(rng, has_transfer=feats["transfer"], has_detach=feats["detach"], avoid=avoid)
    elif stream == "reentrant":
        steps, m, rej = gen_buf.generate(rng, has_transfer=feats["transfer"], has_detach=feats["detach"], avoid=avoid,
                                         hostile_p=0.55, n_steps=rng.range(8, 30))
    else:
        t = bm.TYPE_NAMES[index % len(bm.TYPE_NAMES)]
        steps, m, rej = gen_buf.generate_matrix(rng, t, avoid=avoid, n_steps=rng.range(25, 45))
    return {
        "stream": stream, "index": index, "steps": steps, "lines": m.lines, "v8_cut": m.v8_cut,
        "hazards": m.hazards, "stats": m.stats, "rejected": rej, "f16": gen_buf.uses_float16(steps),
        "effects": m.effects_fired, "changed": m.bytes_changed,
    }


def _gen_chunk(chunk):
    return [_gen_one(a) for a in chunk]


# ------------------------------------------------------------------------------------------------ comparison
def job_of(h, jid):
    return {"id": jid, "steps": [{"op": "eval", "src": gen_buf.render(h["steps"])}]}


def san_report(res):
    err = res.get("stderr") or ""
    return "AddressSanitizer" in err or "LeakSanitizer" in err or "runtime error" in err


class Tally:
    def __init__(self):
        self.ops = {}
        self.throws = {}
        self.hazards = {}
        self.rejected = {}
        self.effects = 0
        self.per_stream = {}
        self.steps = 0
        self.lines = 0
        self.v8_checked = 0
        self.v8_partial = 0
        self.model_only = 0
        self.features = {}

    def add(self, h):
        self.per_stream[h["stream"]] = self.per_stream.get(h["stream"], 0) + 1
        self.steps += len(h["steps"])
        self.lines += len(h["lines"])
        self.effects += h["effects"]
        for k, v in h["stats"].items():
            if k.startswith("op:"):
                self.ops[k[3:]] = self.ops.get(k[3:], 0) + v
            elif k.startswith("throw:"):
                self.throws[k[6:]] = self.throws.get(k[6:], 0) + v
            elif not k.startswith("throw_in:") and k != "ok":
                self.features[k] = self.features.get(k, 0) + v
        for k, v in h["hazards"].items():
            self.hazards[k] = self.hazards.get(k, 0) + v
        for k, v in h["rejected"].items():
            self.rejected[k] = self.rejected.get(k, 0) + v


def nontrivial(h):
    """>= 5 steps, a store changed at least one byte, and at least 3 steps completed normally"""
    return len(h["steps"]) >= 5 and h["changed"] >= 1 and h["stats"].get("ok", 0) >= 3


def compare_batch(chk, hs, rb, rn, tool, tally, seen, samples, disagreements):
    """classifies every history; returns (#evaluations, #distinct nontrivial)"""
    evals = 0
    distinct = 0
    for i, h in enumerate(hs):
        x = rb[i]
        y = rn[i] if rn is not None else None
        exp = h["lines"]
        nsteps = len(h["steps"])
        fatal = x.get("fatal")
        replay = {"kind": "history", "stream": h["stream"], "index": h["index"], "steps": h["steps"], "tool": tool}
        if fatal:
            if fatal == "timeout" or fatal.startswith("missing"):
                chk.inconc("%s:%s" % (tool, fatal.split(":")[0]))
                continue
            what = "[%s] engine died on a %s history (%d steps): %s" % (tool, h["stream"], nsteps, fatal)
            if x.get("stderr"):
                what += " | " + x["stderr"][-1200:]
            replay["expected"] = exp
            chk.violation(what, replay)
            evals += 1
            continue
        if tool == "asan" and san_report(x):
            chk.violation("[asan] sanitizer report: " + (x.get("stderr") or "")[-1500:], replay)
            evals += 1
            continue
        got = x.get("trace") or []
        comp = [s.get("c") for s in x.get("steps", [])]
        db = bm.compare_traces(exp, got)
        # second opinion: number of leading steps on which V8 confirms the model (None: V8 has no say)
        v8_steps = None
        cut = h["v8_cut"]
        if y is not None and not h["f16"]:
            if y.get("fatal"):
                chk.inconc("v8:" + str(y["fatal"]).split(":")[0])
            else:
                tn = y.get("trace") or []
                dn = bm.compare_traces(exp, tn, upto_step=cut)
                if dn is None:
                    v8_steps = nsteps if cut is None else cut
                    if tool == "native":
                        if cut is None:
                            tally.v8_checked += 1
                        else:
                            tally.v8_partial += 1
                else:
                    v8_steps = dn["step"]
                    if tool == "native":
                        chk.inconc("model-vs-v8")
                        if len(disagreements) < 12:
                            sn = dn["step"]
                            st = h["steps"][sn] if 0 <= sn < nsteps else None
                            bl = db if (db and db["step"] == sn) else None
                            disagreements.append({"stream": h["stream"], "index": h["index"], "step": sn,
                                                  "js": gen_buf.step_js(st) if st else None, "what": dn["what"],
                                                  "model": dn["expected"], "v8": dn["observed"],
                                                  "boa": (bl["observed"] if bl else "agrees with the model")})
        elif tool == "native":
            tally.model_only += 1
        v8_disagrees = v8_steps is not None and v8_steps < (nsteps if cut is None else cut)
        if db is None and comp and all(c == "value:undefined" for c in comp):
            if v8_disagrees:
                continue   # model and V8 disagree somewhere: the history is inconclusive (counted above)
            evals += 1
            if nontrivial(h):
                key = core.norm_hash(json.dumps(h["steps"], sort_keys=True))
                if key not in seen:
                    seen.add(key)
                    distinct += 1
                    if len(samples) < 6 and (h["effects"] > 0 or distinct > 40) and len(h["steps"]) <= 14:
                        samples.append({"stream": h["stream"], "steps": nsteps, "js": [gen_buf.step_js(s)[:200] for s in h["steps"]],
                                        "last_lines": exp[-2:]})
            continue
        if db is None:
            # every line agrees with the model, yet the program did not complete normally
            chk.violation("[%s] %s history #%d: trace agrees but completion is %s" % (tool, h["stream"], h["index"], comp[:2]), replay)
            evals += 1
            continue
        sb = db["step"]
        if v8_disagrees and v8_steps <= sb:
            continue   # V8 does not confirm the model up to this step: most likely a model bug (reported as inconclusive)
        st = h["steps"][sb] if 0 <= sb < nsteps else None
        replay.update({"mismatch": db, "step_js": gen_buf.step_js(st) if st else None, "expected": exp, "completion": comp[:2]})
        confirmed = v8_steps is not None and v8_steps > sb
        second = "V8 agrees with the model" if confirmed else "model only (V8 not applicable to this step)"
        chk.violation("[%s] %s history #%d, step %d `%s`: %s expected `%s`, boa `%s` (%s)" % (
            tool, h["stream"], h["index"], sb, (gen_buf.step_js(st) if st else "?")[:300], db["what"],
            str(db["expected"])[:300], str(db["observed"])[:300], second), replay)
        evals += 1
    return evals, distinct


# ------------------------------------------------------------------------------------------------ known findings
def replay_known(chk, findings, native):
    jobs = []
    ents = []
    for k in findings:
        if k.get("status") != "open":
            continue
        rep = k.get("reproducer") or {}
        if "src" not in rep:
            continue
        ents.append(k)
        jobs.append({"id": k["id"], "steps": [{"op": "eval", "src": rep["src"]}]})
    if not jobs:
        return
    res = runner.run_bvh(native, "session", jobs, "c15kf", shards=min(8, len(jobs)))
    for k, r in zip(ents, res):
        rep = k["reproducer"]
        fatal = r.get("fatal")
        trace = r.get("trace") or []
        if fatal in ("timeout",) or (fatal or "").startswith("missing"):
            chk.inconc("known-replay:" + fatal)
            continue
        if not fatal and trace == rep.get("expected_trace"):
            continue   # fixed in the tree: nothing to report (and the avoid flag can be dropped by closing the entry)
        same = False
        if fatal and rep.get("observed_fatal_prefix") and fatal.startswith(rep["observed_fatal_prefix"]):
            same = True
        if not fatal and "observed_trace" in rep and trace == rep["observed_trace"]:
            same = True
        if same:
            chk.known_finding(k, "%s [%s] — %s" % (k["id"], k["title"], (fatal or " / ".join(trace))[:160]))
        else:
            chk.violation("known finding %s fails differently: expected %s, recorded %s, now %s" % (
                k["id"], rep.get("expected_trace"), rep.get("observed_trace") or rep.get("observed_fatal_prefix"), fatal or trace),
                {"kind": "known", "id": k["id"], "src": rep["src"]})


# ------------------------------------------------------------------------------------------------ miri (thorough, optional)
MIRI_FLAGS = "-Zmiri-disable-isolation -Zmiri-tree-borrows -Zmiri-ignore-leaks"


class MiriRun:
    """A handful of tiny histories through the byte-copy helpers under Miri (whole engine: 5-10 min per program on this
    loaded machine, plus ~10 min when the Miri build of the harness is stale; deadline 22 min after the start of the check). Runs in a background thread next to the rest of the thorough
    tier: the first program alone (it pays for the build), the others in parallel. Undefined behaviour is a violation;
    everything else that goes wrong (watchdog, no output) is inconclusive. The native run stays the judge of semantics."""

    def __init__(self, seed, feats, avoid, count=3):
        import threading
        self.hs = []
        for i in range(count):
            steps, m, rej = gen_buf.generate_small(Rng(seed, "c15", "miri", i), avoid=avoid, has_detach=feats["detach"])
            self.hs.append({"steps": steps, "lines": m.lines, "index": i})
        self.dir = runner.workdir("c15-miri")
        self.results = [None] * count
        self.killed = False
        self.procs = []
        self.t0 = time.time()
        self.thread = threading.Thread(target=self._work, daemon=True)
        self.thread.start()

    def _spawn(self, i):
        h = self.hs[i]
        jp = os.path.join(self.dir, "j%d.jsonl" % i)
        op = os.path.join(self.dir, "o%d.jsonl" % i)
        with open(jp, "w") as f:
            f.write(json.dumps(job_of(h, i)) + "\n")
        env = dict(os.environ)
        env.update({"CARGO_TARGET_DIR": os.path.join(core.VERIF, ".targets", "miri"), "MIRIFLAGS": MIRI_FLAGS,
                    "CARGO_NET_OFFLINE": "true", "RUSTFLAGS": "--cfg boa_verif"})
        cmd = ["cargo", "+nightly", "miri", "run", "--offline", "-q", "--", "session", jp, op, "--timeout", "3000", "--prelude", runner.PRELUDE]
        p = subprocess.Popen(cmd, cwd=os.path.join(core.VERIF, "harness", "bvh"), env=env, stdout=subprocess.DEVNULL, stderr=subprocess.PIPE)
        self.procs.append(p)
        return p, op

    def _finish(self, i, p, op, timeout):
        try:
            _, err = p.communicate(timeout=timeout)
        except subprocess.TimeoutExpired:
            p.kill()
            p.communicate()
            self.results[i] = ("watchdog", "")
            return
        err = err.decode("utf8", "replace")
        if "Undefined Behavior" in err:
            self.results[i] = ("ub", err[-2500:])
            return
        if self.killed:
            self.results[i] = ("watchdog", "")
            return
        try:
            with open(op) as f:
                r = json.loads(f.readline())
        except Exception:
            self.results[i] = ("no-output", err[-600:])
            return
        d = bm.compare_traces(self.hs[i]["lines"], r.get("trace") or [])
        self.results[i] = ("ok", "") if d is None and not r.get("fatal") else ("differs", json.dumps(d or r.get("fatal"))[:400])

    def _work(self):
        p, op = self._spawn(0)
        self._finish(0, p, op, 1500)     # includes the Miri build when stale
        if self.results[0][0] in ("watchdog", "no-output"):
            return
        rest = [(i,) + self._spawn(i) for i in range(1, len(self.hs))]
        for i, p, op in rest:
            self._finish(i, p, op, max(60, 1700 - (time.time() - self.t0)))

    def collect(self, chk, wait_s):
        self.thread.join(timeout=max(1, wait_s))
        if self.thread.is_alive():
            self.killed = True
            for p in self.procs:
                try:
                    p.kill()
                except Exception:
                    pass
            self.thread.join(timeout=20)
        info = {"programs": len(self.hs), "outcomes": {}, "wall_s": round(time.time() - self.t0)}
        for i, res in enumerate(self.results):
            kind, text = res if res else ("not-run", "")
            info["outcomes"][kind] = info["outcomes"].get(kind, 0) + 1
            if kind == "ub":
                chk.violation("[miri] undefined behaviour in a %d-step history: %s" % (len(self.hs[i]["steps"]), text),
                              {"kind": "history", "stream": "miri", "index": i, "steps": self.hs[i]["steps"], "tool": "miri"})
            elif kind != "ok":
                chk.inconc("miri:" + kind)
        runner.cleanup(self.dir)
        return info


# ------------------------------------------------------------------------------------------------ entry points
def probe(native):
    src = ("print(typeof ArrayBuffer.prototype.transfer, typeof __detach, typeof Float16Array, typeof Atomics, "
           "typeof SharedArrayBuffer, typeof ArrayBuffer.prototype.resize)")
    r = runner.run_bvh(native, "session", [{"id": 0, "steps": [{"op": "eval", "src": src}]}], "c15probe", shards=1)[0]
    tr = (r.get("trace") or [""])[0].split()
    if len(tr) != 6:
        raise core.NoVerdict("feature probe failed: %r" % (r,))
    return {"transfer": tr[0] == "function", "detach": tr[1] == "function", "f16": tr[2] == "function",
            "atomics": tr[3] == "object", "sab": tr[4] == "function", "resize": tr[5] == "function"}


BLOCK_COPY_JS = r"""
// Exhaustive small matrix of the overlapping block copies (copyWithin, set from an overlapping view of the same
// buffer, slice into the same buffer through species) for every element alignment, on ArrayBuffer- and
// SharedArrayBuffer-backed arrays, against an element-wise reference on a plain array (read everything, then write).
function refCopyWithin(src, t, s, e) {
  var len = src.length, rel = function (v, d) { if (v === undefined) return d; v = Math.trunc(v) || 0; return v < 0 ? Math.max(len + v, 0) : Math.min(v, len); };
  var to = rel(t, 0), from = rel(s, 0), fin = rel(e, len), count = Math.min(fin - from, len - to), out = src.slice();
  for (var i = 0; i < count; i++) out[to + i] = src[from + i];
  return out;
}
function run(T, n, shared, off, big) {
  var bad = 0, first = null, cases = 0;
  var B = shared ? SharedArrayBuffer : ArrayBuffer;
  function fresh() { var b = new B(off + n * T.BYTES_PER_ELEMENT + 8); var a = new T(b, off, n); for (var i = 0; i < n; i++) a[i] = big ? BigInt(i + 1) : i + 1; return a; }
  var vals = [undefined]; for (var v = -2; v <= n + 1; v++) vals.push(v);
  for (var ti = 1; ti < vals.length; ti++) for (var si = 1; si < vals.length; si++) for (var ei = 0; ei < vals.length; ei += (n > 20 ? 5 : 1)) {
    var a = fresh(), before = Array.from(a);
    a.copyWithin(vals[ti], vals[si], vals[ei]);
    var got = Array.from(a).join(), exp = refCopyWithin(before, vals[ti], vals[si], vals[ei]).join();
    cases++;
    if (got !== exp) { bad++; if (first === null) first = T.name + (shared ? '/shared' : '') + ' off=' + off + ' copyWithin(' + vals[ti] + ',' + vals[si] + ',' + vals[ei] + ') got ' + got + ' expected ' + exp; }
  }
  // set() from an overlapping view of the same buffer
  for (var d = 0; d < n; d++) for (var m = 1; m + d <= n; m++) {
    var a = fresh(), before = Array.from(a);
    a.set(a.subarray(0, m), d);
    var exp = before.slice(); for (var i = 0; i < m; i++) exp[d + i] = before[i];
    cases++;
    if (Array.from(a).join() !== exp.join()) { bad++; if (first === null) first = T.name + (shared ? '/shared' : '') + ' set(subarray(0,' + m + '),' + d + ') got ' + Array.from(a).join() + ' expected ' + exp.join(); }
    var a2 = fresh(), before2 = Array.from(a2);
    a2.set(a2.subarray(d, d + m), 0);
    var exp2 = before2.slice(); for (var i = 0; i < m; i++) exp2[i] = before2[d + i];
    cases++;
    if (Array.from(a2).join() !== exp2.join()) { bad++; if (first === null) first = T.name + (shared ? '/shared' : '') + ' set(subarray(' + d + ',' + (d + m) + '),0) got ' + Array.from(a2).join() + ' expected ' + exp2.join(); }
  }
  print(T.name, shared ? 'shared' : 'plain', 'off=' + off, 'cases=' + cases, 'bad=' + bad, first === null ? '' : first);
}
var plan = [[Uint8Array, PLEN, 0], [Uint8Array, 26, 3], [Int16Array, 14, 2], [Int32Array, 12, 0], [Int32Array, 9, 4], [Float32Array, 10, 4], [Float64Array, 8, 0], [Float64Array, 6, 8]];
for (var p = 0; p < plan.length; p++) for (var sh = 0; sh < 2; sh++) run(plan[p][0], plan[p][1], sh === 1, plan[p][2], false);
for (var sh = 0; sh < 2; sh++) { run(BigInt64Array, 7, sh === 1, 0, true); run(BigUint64Array, 5, sh === 1, 8, true); }
"""


def block_copy_matrix(chk, native, thorough):
    src = BLOCK_COPY_JS.replace("PLEN", "40" if thorough else "33")
    r = runner.run_bvh(native, "session", [{"id": "blockcopy", "steps": [{"op": "eval", "src": src}]}], "c15m", shards=1, timeout=600)[0]
    if r.get("fatal"):
        f = str(r["fatal"])
        if f.startswith(("panic", "died")):
            chk.violation("[native] the block-copy matrix fails internally: %s" % f[:200], {"kind": "blockcopy", "src": src})
        else:
            chk.inconc("blockcopy:" + f[:20])
        return
    c = r["steps"][0]["c"]
    lines = r.get("trace") or []
    if not c.startswith("value:") or len(lines) < 20:
        chk.violation("[native] the block-copy matrix did not complete: %s (%d lines)" % (c[:100], len(lines)), {"kind": "blockcopy", "src": src})
        return
    for l in lines:
        if " bad=0" not in l:
            chk.violation("[native] overlapping block copy differs from the element-wise reference: %s" % l[:400], {"kind": "blockcopy", "src": src})
            return


def run(tier, seed):
    chk = core.Check(PID, tier, seed)
    thorough = tier == "thorough"
    findings = load_findings()
    avoid = avoid_set(findings)
    native = build.ensure("bvh", "native")
    feats = probe(native)
    if not (feats["f16"] and feats["atomics"] and feats["sab"] and feats["resize"]):
        raise core.NoVerdict("engine build lacks Float16Array / Atomics / SharedArrayBuffer / resize: %r" % (feats,))
    if thorough:
        plan = [("main", 18000), ("reentrant", 9000), ("matrix", 3000)]
        batch = 6000
    else:
        plan = [("main", 3200), ("reentrant", 900), ("matrix", 400)]
        batch = 6000
    scale = float(os.environ.get("C15_SCALE", "1") or 1)   # for experiments only
    if scale != 1:
        plan = [(s, max(50, int(n * scale))) for s, n in plan]
    asan = None
    if thorough:
        try:
            asan = build.ensure("bvh", "asan")
        except build.BuildError:
            chk.inconc("asan:build-failed")
    tally = Tally()
    seen = set()
    samples = []
    disagreements = []
    evals = distinct = asan_evals = 0
    pool = runner.NodePool(6)
    if not pool.procs:
        chk.inconc("v8:unavailable")
    # batches keep memory bounded on the thorough tier
    flat = []
    for stream, count in plan:
        flat += [(stream, i) for i in range(count)]
    miri_info = None
    miri = None
    if thorough and os.environ.get("C15_MIRI", "1") != "0":
        try:
            miri = MiriRun(seed, feats, avoid)
        except Exception as e:  # noqa
            chk.inconc("miri:cannot-start")
    try:
        for b0 in range(0, len(flat), batch):
            part = flat[b0:b0 + batch]
            tasks = [(seed, stream, i, feats, sorted(avoid)) for stream, i in part]
            hs = _generate_tasks(tasks)
            for h in hs:
                tally.add(h)
            jobs = [job_of(h, k) for k, h in enumerate(hs)]
            rb = runner.run_bvh(native, "session", jobs, "c15")
            rn = pool.run(jobs) if pool.procs else None
            e, d = compare_batch(chk, hs, rb, rn, "native", tally, seen, samples, disagreements)
            evals += e
            distinct += d
            if asan:
                sel = [k for k, h in enumerate(hs) if h["index"] < ASAN_SHARE.get(h["stream"], 0) * max(scale, 0.02)]
                if sel:
                    ra = runner.run_bvh(asan, "session", [jobs[k] for k in sel], "c15asan", env=ASAN_ENV, timeout=120, shards=8)
                    e, _ = compare_batch(chk, [hs[k] for k in sel], ra, [rn[k] for k in sel] if rn is not None else None,
                                         "asan", tally, set(), [], [])
                    asan_evals += e
            if len(chk.violations) > 40:
                break
    finally:
        pool.close()
    if miri is not None:
        miri_info = miri.collect(chk, max(60, 1320 - (time.time() - chk.t0)))
    block_copy_matrix(chk, native, thorough)
    replay_known(chk, findings, native)
    chk.assumptions = [
        "vlib/models/bytes.py (ECMA-262 2024 text: IsTypedArrayOutOfBounds / IsViewOutOfBounds re-evaluated per access, conversions by exact integer arithmetic) is the specification",
        "the bit pattern of a NaN Number stored into a float element is implementation-defined: bytes written by such a store are wildcards in every observation",
        "shapes of open findings are excluded from the streams by model hazard flags: %s" % (sorted(avoid) or "none"),
        "always excluded (under-specified or engine-shared quirk): Atomics on an element only partly inside a shrunk buffer, slice of a zero-length "
        "SharedArrayBuffer (boa and V8 both report `same data block`), %TypedArray%.prototype.with on a BigInt array shrunk by its own coercion "
        "(the specification asserts `! Set(A, k, undefined)`)",
        "copyWithin after a shrink in its own coercion follows ES2025 (count clamped to the still-applicable prefix), which boa and V8 both implement",
        "detach is exercised through the host function __detach (and transfer/transferToFixedLength when the engine build has them: %s)" % feats["transfer"],
        "V8 11.3 deviations known to the model (v8:* hazards) cut the V8 comparison of that history at the deviating step",
    ]
    return chk.finish(
        evaluations=evals + asan_evals,
        distinct_nontrivial=distinct,
        rule="history = generated program of 5..60 buffer/view operations, every observation line compared with the byte model; non-trivial = at least "
             "5 steps, at least one store changed a byte, at least 3 steps completed normally; distinct by hash of the step list; histories on which "
             "model and V8 disagree are inconclusive and not counted",
        samples=samples,
        extra={
            "histories_by_stream": tally.per_stream,
            "native_evaluations": evals,
            "asan_evaluations": asan_evals,
            "steps_executed": tally.steps,
            "observation_lines_compared": tally.lines,
            "reentrant_effects_fired": tally.effects,
            "op_histogram": dict(sorted(tally.ops.items(), key=lambda kv: -kv[1])),
            "thrown_classes_expected": tally.throws,
            "feature_counters": tally.features,
            "v8_confirmed_whole_history": tally.v8_checked,
            "v8_confirmed_until_known_v8_deviation": tally.v8_partial,
            "model_only_histories": tally.model_only,
            "v8_deviation_hazards_met": {k: v for k, v in tally.hazards.items() if k.startswith("v8:")},
            "candidate_steps_rejected_by_avoid_flag": tally.rejected,
            "model_v8_disagreements": disagreements,
            "engine_features": feats,
            "miri": miri_info,
        },
        min_nontrivial=int((400 if not thorough else 5000) * min(scale, 1.0)),
    )


def _generate_tasks(tasks):
    chunks = [tasks[i:i + 100] for i in range(0, len(tasks), 100)]
    out = []
    if len(tasks) < 300:
        for c in chunks:
            out += _gen_chunk(c)
        return out
    ctx = multiprocessing.get_context("fork")
    with ctx.Pool(GEN_PROCS) as pool:
        for part in pool.imap(_gen_chunk, chunks):
            out += part
    return out


def replay(path, seed):
    with open(path) as f:
        rep = json.load(f)
    native = build.ensure("bvh", "native")
    tool = rep.get("tool", "native")
    binary, env = native, None
    if tool == "asan":
        binary, env = build.ensure("bvh", "asan"), ASAN_ENV
    if rep.get("kind") == "known":
        r = runner.run_bvh(binary, "session", [{"id": 0, "steps": [{"op": "eval", "src": rep["src"]}]}], "c15replay", shards=1, env=env)[0]
        print(json.dumps(r)[:3000])
        print("VIOLATION property=%s replay=%s" % (PID, path))
        return 1
    steps = rep["steps"]
    m = bm.run_history(steps)
    src = gen_buf.render(steps)
    job = {"id": 0, "steps": [{"op": "eval", "src": src}]}
    r = runner.run_bvh(binary, "session", [job], "c15replay", shards=1, env=env)[0]
    rn = runner.run_node([job], "c15replay", shards=1)[0]
    got = r.get("trace") or []
    tn = rn.get("trace") or []
    for n, s in enumerate(steps):
        print("step %d: %s" % (n, gen_buf.step_js(s)))
    if r.get("fatal"):
        print("boa fatal: %s\n%s" % (r["fatal"], (r.get("stderr") or "")[-3000:]))
        print("VIOLATION property=%s replay=%s" % (PID, path))
        return 1
    d = bm.compare_traces(m.lines, got)
    comp = [s.get("c") for s in r.get("steps", [])]
    if d is None and comp == ["value:undefined"] and not (tool == "asan" and san_report(r)):
        print("no difference: model and boa agree on %d lines" % len(got))
        return 0
    print("completion: %s" % comp)
    if d is not None:
        dn = bm.compare_traces(m.lines, tn, upto_step=m.v8_cut)
        print("step %d, %s:\n  expected `%s`\n  boa      `%s`" % (d["step"], d["what"], d["expected"], d["observed"]))
        print("  v8 vs model: %s" % (dn if dn else "agrees (until step %s)" % m.v8_cut))
    print("VIOLATION property=%s replay=%s" % (PID, path))
    return 1
