"""C08 — runtime limits stop runaway scripts and cannot be intercepted.

Oracle: counts known by construction, with slack around the exact trip point.
  * over-limit program: the host entry (eval / call, or run_jobs for job routes) must end in a
    RuntimeLimit error; no marker printed by a catch / finally / following statement of the unwound
    activation chain may appear; the work counter read afterwards is bounded by the limit (+ slack);
  * under-limit program: completes normally with the full marker sequence."""
import json

from .. import build, core, diffrun, runner
from .. import gen_limits as G
from ..core import norm_hash
from ..rng import Rng

FORBIDDEN = ["C1", "C2", "F1", "F2", "AFTER-ROUTE", "AFTER-L2", "AFTER-L1", "END", "INNER-CATCH", "INNER-FINALLY", "RESULT"]
FULL = ["AFTER-ROUTE", "F1", "AFTER-L2", "AFTER-L1", "F2", "END"]


def mk(src, limits, job_route=False, entry="eval"):
    steps = [{"op": "limits", **limits}]
    if entry == "eval":
        steps.append({"op": "eval", "src": src})
    else:
        # declare with default limits first, then enter through a host call
        steps = [{"op": "eval", "src": "function __main() {\n" + src + "\n}"}, {"op": "limits", **limits}, {"op": "call", "name": "__main"}]
    steps.append({"op": "jobs"})
    steps.append({"op": "limits", "loop": 1 << 40, "recursion": 400, "stack": 100000})
    steps.append({"op": "eval", "src": "typeof __body === 'number' ? __body : -1"})
    return {"steps": steps}


def run(tier, seed):
    chk = core.Check("C08", tier, seed)
    thorough = tier == "thorough"
    binary = build.ensure("bvh", "native")
    rng = Rng(seed, "c08")
    cases = []  # (job, expectation dict)
    loop_limits = [3, 10, 100, 1000] if not thorough else [0, 1, 2, 3, 10, 50, 100, 1000, 10000]
    forms = list(G.LOOPS)
    routes = list(G.ROUTES)
    # every loop form x every route (quick: each pair once with a rotating limit; thorough: the whole grid)
    k = 0
    for form in forms:
        for route in routes:
            Ls = loop_limits if thorough else [loop_limits[k % len(loop_limits)]]
            k += 1
            for L in Ls:
                # far over the limit but finite: an engine that fails to stop the loop completes it and is caught by the
                # completion check instead of running into the watchdog (a watchdog hit is inconclusive)
                big = str(L * 20 + 200)
                # indirect eval / Function() only see globals: `run` must be a global there
                entry = "call" if (k + L) % 4 == 0 and route not in ("indirect_eval", "function_ctor") else "eval"
                swallow = (k % 5 == 0)
                cases.append((mk(G.loop_program(form, route, big, swallow=swallow), {"loop": L}, entry=entry),
                              {"kind": "over", "limit": "loop", "L": L, "what": "%s/%s%s/%s" % (form, route, "/swallow" if swallow else "", entry), "step": "entry"}))
                if L >= 10 and (thorough or k % 3 == 0):
                    cases.append((mk(G.loop_program(form, route, max(0, L // 3 - 1)), {"loop": L}, entry=entry),
                                  {"kind": "under", "L": L, "what": "%s/%s/%s" % (form, route, entry)}))
    for form in forms:
        for route in G.JOB_ROUTES:
            L = rng.choice(loop_limits)
            cases.append((mk(G.loop_program(form, route, str(L * 20 + 200), job=True), {"loop": L}),
                          {"kind": "over", "limit": "loop", "L": L, "what": "%s/job:%s" % (form, route), "step": "jobs"}))
    for form in G.SUSPENDING_LOOPS:
        for L in ([10, 100] if not thorough else [1, 3, 10, 100, 1000]):
            cases.append((mk(G.suspending_program(form, L * 20 + 200), {"loop": L}),
                          {"kind": "over", "limit": "loop", "L": L, "what": "suspending:%s" % form, "step": "jobs", "forbid": ["LOOP-DONE", "THEN", "REJECTED"]}))
            if L >= 10:
                cases.append((mk(G.suspending_program(form, max(0, L // 3 - 1)), {"loop": L}),
                              {"kind": "under", "L": L, "what": "suspending:%s" % form, "full": ["END", "LOOP-DONE", "THEN"]}))
    rec_limits = [8, 40, 200] if not thorough else [1, 2, 3, 8, 40, 200, 400]
    for kind in G.RECURSION:
        for R in rec_limits:
            cases.append((mk(G.recursion_program(kind), {"recursion": R, "stack": 1000000}),
                          {"kind": "over", "limit": "recursion", "L": R, "what": "recursion:%s" % kind, "step": "entry"}))
            if R >= 40:
                cases.append((mk(G.recursion_program(kind, depth_bound=R // 4), {"recursion": R, "stack": 1000000}),
                              {"kind": "under", "L": R, "what": "recursion:%s" % kind}))
    for kind in G.STACK:
        for S in ([256, 2048] if not thorough else [64, 256, 2048, 10240]):
            cases.append((mk(G.recursion_program(kind, table=G.STACK), {"recursion": 1000000, "stack": S}),
                          {"kind": "over", "limit": "stack", "L": S, "what": "stack:%s" % kind, "step": "entry"}))
    jobs = [c[0] for c in cases]
    for i, j in enumerate(jobs):
        j["id"] = i
    res = runner.run_bvh(binary, "session", jobs, "c08", timeout=60)
    seen_kinds = {}
    distinct = set()
    reported = 0

    def violation(what, i):
        nonlocal reported
        if reported < 8:
            chk.violation(what, {"kind": "limits", "job": jobs[i], "expect": cases[i][1]})
            reported += 1

    for i, ((job, exp), r) in enumerate(zip(cases, res)):
        cl = diffrun.classify(r)
        if cl.startswith("inconclusive"):
            chk.inconc(cl[:40])
            continue
        if cl.startswith("internal"):
            violation("limit program %s fails internally: %s" % (exp["what"], cl[:200]), i)
            continue
        steps = r["steps"]
        # locate the entry step, the jobs step and the body read-back
        body = steps[-1]["c"]
        jobs_c = steps[-3]["c"]
        entry_c = steps[-4]["c"]
        trace = r["trace"]
        seen_kinds[exp["what"].split("/")[0]] = seen_kinds.get(exp["what"].split("/")[0], 0) + 1
        if exp["kind"] == "over":
            hit = entry_c if exp["step"] == "entry" else jobs_c
            if not hit.startswith("limit:"):
                violation("%s with limit %s=%d was not stopped: the %s completed as %s (trace %s)" % (
                    exp["what"], exp["limit"], exp["L"], "entry" if exp["step"] == "entry" else "run_jobs call", hit[:80], trace[-4:]), i)
                continue
            if exp["limit"] != "stack" and hit != "limit:" + exp["limit"] and not (exp["limit"] == "recursion" and hit == "limit:stack"):
                violation("%s: expected a %s limit error, got %s" % (exp["what"], exp["limit"], hit), i)
                continue
            leaked = [m for m in trace if m.split(" ")[0] in FORBIDDEN]
            if exp["step"] == "jobs":
                # markers of the synchronous part are legitimate; the job itself has no wrapper: nothing to forbid
                leaked = [m for m in trace if m in exp.get("forbid", [])]
            if leaked:
                violation("%s: after the %s limit was hit, code of the unwound activations still ran: %s" % (exp["what"], exp["limit"], leaked[:6]), i)
                continue
            try:
                nbody = int(body.split(":")[1])
            except Exception:
                nbody = None
            if nbody is not None and exp["limit"] in ("loop", "recursion"):
                bound = exp["L"] + 3 if exp["limit"] == "loop" else exp["L"] + 3
                if exp["what"].startswith(("for_in", "for_of_array")):
                    bound = exp["L"] + 3
                if nbody > bound:
                    violation("%s: %d iterations/activations ran under a %s limit of %d" % (exp["what"], nbody, exp["limit"], exp["L"]), i)
                    continue
            distinct.add(norm_hash(exp["what"] + str(exp["L"])))
        else:
            if not entry_c.startswith("value:") or not jobs_c.startswith("value:"):
                violation("%s stays under the limit %d but was stopped / failed: %s / %s" % (exp["what"], exp["L"], entry_c[:80], jobs_c[:60]), i)
                continue
            full = exp.get("full", FULL)
            got = [m for m in trace if m in full]
            if got != full or "C1" in trace or "C2" in trace or "REJECTED" in trace:
                violation("%s stays under the limit %d but its marker sequence is %s" % (exp["what"], exp["L"], trace[-8:]), i)
                continue
            distinct.add(norm_hash("u" + exp["what"] + str(exp["L"])))
    chk.assumptions = ["slack: a loop limit L may allow up to L+3 iterations in one activation, a recursion limit R up to R+3 activations; under-limit programs use a third / a quarter of the limit",
                       "work done by native iteration without a script loop or recursion is outside the quantifier"]
    return chk.finish(
        evaluations=len(cases), distinct_nontrivial=len(distinct),
        rule="(loop form x re-entry route x limit) programs built to exceed the limit, with catch/finally markers at two levels (every 5th tries to swallow the error with "
             "continue/return in finally), entered by eval or by a host call, plus job routes and under-limit twins; recursion and stack programs likewise; "
             "non-trivial = the expected verdict was observed with all marker and work-bound checks; distinct by (form, route, limit)",
        samples=[cases[0][1], cases[len(cases) // 2][1], cases[-1][1]],
        extra={"cases": len(cases), "loop_forms": len(G.LOOPS), "routes": len(G.ROUTES), "job_routes": len(G.JOB_ROUTES), "suspending_loops": len(G.SUSPENDING_LOOPS), "recursion_kinds": len(G.RECURSION),
               "cases_by_construct": seen_kinds},
        min_nontrivial=100)


def replay(path, seed):
    with open(path) as f:
        rep = json.load(f)
    binary = build.ensure("bvh", "native")
    r = runner.run_bvh(binary, "session", [rep["job"]], "c08r", shards=1, timeout=60)[0]
    print(json.dumps([s["c"] for s in r.get("steps", [])]), r.get("trace"), r.get("fatal"))
    print("expected:", rep.get("expect"))
    return 2
