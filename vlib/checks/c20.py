"""C20 — evaluation is deterministic and contexts are isolated from each other.

(a) the same program gives byte-identical records in: two fresh contexts of one thread, two processes
    (different ASLR layout / hash seeds), after unrelated programs ran in other contexts of the thread,
    and after a seeded amount of GC garbage was allocated first;
(b) after a sabotage script has deleted / overwritten / redefined / frozen everything reachable from the
    global object of context A (or realm A), a probe program in context B (realm B) gives the record it
    gives in a pristine process;
(c) objects handed across realms keep their own realm's intrinsics (expected values by construction)."""
import json

from .. import build, core, diffrun, gen_core, gen_shape, runner
from ..core import norm_hash
from ..rng import Rng

ORDER_PROBES = [
    "var o = {}; for (var i = 0; i < 40; i++) { o['k' + (i * 7919 % 41)] = i; o[(i * 13) % 50] = i; } o[Symbol('s1')] = 1; delete o.k3; delete o[13]; print(Reflect.ownKeys(o).map(String)); print(JSON.stringify(o));",
    "var m = new Map(); for (var i = 0; i < 50; i++) m.set('k' + (i * 31 % 53), i); for (var i = 0; i < 50; i += 3) m.delete('k' + (i * 31 % 53)); m.set('k5', 'again'); print([...m.keys()]); var s = new Set([5, 'a', 3, 'b', 1]); s.delete('a'); s.add('a'); print([...s]);",
    "function P() { this.own1 = 1; this[2] = 'two'; this.own0 = 0; } P.prototype = {inh_b: 1, 1: 'one', inh_a: 2, __proto__: {deep: 1, own1: 'shadowed'}}; var out = []; for (var k in new P()) out.push(k); print(out);",
    "var a = []; for (var i = 0; i < 30; i++) a.push({k: i % 3, i: i}); a.sort(function(x, y) { return x.k - y.k; }); print(a.map(function(x) { return x.i; }));",
    "var a = []; a[100] = 1; a[5] = 2; a.x = 3; a[50] = 4; print(Object.keys(a), a.length); var sp = {}; sp[4294967295] = 'big'; sp[4294967294] = 'idx'; sp[1] = 'one'; sp.b = 'b'; print(Object.keys(sp));",
    "var u1 = 1; var u0 = 0; globalThis.z9 = 9; globalThis[3] = 3; print(Object.keys(globalThis).filter(function(k) { return /^(u\\d|z9|3)$/.test(k); }));",
    "var e = new TypeError('m', {cause: 1}); print(Reflect.ownKeys(e).map(String), Object.getOwnPropertyNames(TypeError.prototype), Object.getOwnPropertyNames(function f(a, b) {}));",
    "class C { static s1 = 1; static m() {} x = 1; #p = 2; get g() { return 1; } static get sg() { return 2; } } print(Object.getOwnPropertyNames(C), Object.getOwnPropertyNames(C.prototype), Object.keys(new C()));",
    "print(Object.getOwnPropertyNames(Object.prototype).length > 5, typeof Symbol.iterator, [1, 2, 3].map(String), JSON.stringify({b: [1, {a: 2}], a: 'x'}, null, 1));",
    "var ws = new WeakSet(); var objs = []; for (var i = 0; i < 20; i++) { objs.push({i: i}); ws.add(objs[i]); } print(objs.filter(function(o) { return ws.has(o); }).length); var sym = [Symbol('a'), Symbol.for('b'), Symbol('a')]; print(sym.map(String), sym[0] === sym[2]);",
]

SABOTAGE = r"""
(function (seed) {
  var R = Reflect, ownKeys = R.ownKeys, getD = R.getOwnPropertyDescriptor, defP = R.defineProperty, delP = R.deleteProperty, setProto = R.setPrototypeOf;
  var freeze = Object.freeze, push = Array.prototype.push, S = Set, G = globalThis;
  var seen = new S(), q = [G], has = S.prototype.has, add = S.prototype.add, apply = R.apply;
  var x = seed >>> 0;
  function rnd(n) { x = (x * 1664525 + 1013904223) >>> 0; return x % n; }
  function poison() { throw new Error('sabotaged'); }
  var count = 0, later = [];
  while (q.length > 0 && count < 4000) {
    var o = q[q.length - 1]; q.length = q.length - 1;
    if (apply(has, seen, [o])) continue;
    apply(add, seen, [o]);
    var keys;
    try { keys = ownKeys(o); } catch (e) { continue; }
    for (var i = 0; i < keys.length; i++) {
      var k = keys[i], d;
      try { d = getD(o, k); } catch (e) { continue; }
      if (!d) continue;
      var vals = [d.value, d.get, d.set];
      for (var j = 0; j < 3; j++) { var v = vals[j]; if (v !== null && (typeof v === 'object' || typeof v === 'function')) q[q.length] = v; }
      later[later.length] = [o, k];
      count++;
    }
    var p; try { p = R.getPrototypeOf(o); } catch (e) { p = null; }
    if (p !== null && p !== undefined) q[q.length] = p;
  }
  // mutate after the walk so that the walk itself sees the pristine graph
  for (var i = 0; i < later.length; i++) {
    var o = later[i][0], k = later[i][1];
    try {
      switch (rnd(6)) {
        case 0: delP(o, k); break;
        case 1: o[k] = poison; break;
        case 2: defP(o, k, {get: poison, set: poison, configurable: true}); break;
        case 3: defP(o, k, {value: 'sabotaged', writable: false, configurable: false}); break;
        case 4: o[k] = undefined; break;
        default: break;
      }
    } catch (e) {}
  }
  var objs = []; seen.forEach(function (o) { objs[objs.length] = o; });
  for (var i = 0; i < objs.length; i++) {
    try { if (rnd(3) === 0) setProto(objs[i], null); } catch (e) {}
    try { if (rnd(2) === 0) freeze(objs[i]); } catch (e) {}
  }
  return count;
})(SEED);
"""

CROSS_REALM = [
    # (setup in realm A, expression in realm B over the shared value `shared`, expected show)
    ("var shared = [1, 2];", "[Array.isArray(shared), shared instanceof Array, Object.getPrototypeOf(shared) === Array.prototype, shared.constructor === Array, shared.map(function(x){return x+1}) instanceof Array]", "[true,false,false,false,false]"),
    ("var shared = {a: 1};", "[Object.getPrototypeOf(shared) === Object.prototype, shared instanceof Object, shared.constructor === Object, typeof shared.hasOwnProperty]", "[false,false,false,\"function\"]"),
    ("var shared = function f(){ return [] };", "[shared instanceof Function, shared() instanceof Array, Array.isArray(shared()), Object.getPrototypeOf(shared) === Function.prototype, typeof shared]", "[false,false,true,false,\"function\"]"),
    ("var shared = new TypeError('x');", "[shared instanceof TypeError, shared instanceof Error, Object.getPrototypeOf(shared) === TypeError.prototype, Object.prototype.toString.call(shared)]", "[false,false,false,\"[object Error]\"]"),
    ("var shared = function(){ try { null.x } catch (e) { return e } };", "(function(){ var e = shared(); return [e instanceof TypeError, Object.getPrototypeOf(e) === TypeError.prototype, e.constructor === TypeError, e.constructor.name] })()", "[false,false,false,\"TypeError\"]"),
    # errors thrown by a built-in belong to the realm of the built-in, whoever calls it
    ("var shared = {parse: JSON.parse, keys: Object.keys, defprop: Object.defineProperty, symval: Symbol.prototype.valueOf, forEach: Array.prototype.forEach, "
     "toFixed: Number.prototype.toFixed, from: Array.from, TE: TypeError, SE: SyntaxError, RE: RangeError};",
     "(function(){ function probe(f, own, other){ try { f(); return 'no throw' } catch (e) { var p = Object.getPrototypeOf(e); return [p === other.prototype, p === own.prototype, e instanceof own] } } "
     "return [probe(function(){ shared.parse('{') }, SyntaxError, shared.SE), probe(function(){ shared.keys(undefined) }, TypeError, shared.TE), "
     "probe(function(){ shared.defprop(1, 'x', {}) }, TypeError, shared.TE), probe(function(){ Reflect.apply(shared.symval, {}, []) }, TypeError, shared.TE), "
     "probe(function(){ shared.forEach.call(null) }, TypeError, shared.TE), probe(function(){ shared.toFixed.call(1, 1000) }, RangeError, shared.RE), "
     "probe(function(){ shared.from(1, 1) }, TypeError, shared.TE), probe(function(){ new shared.TE.constructor('(') }, SyntaxError, shared.SE)] })()",
     "[[true,false,false],[true,false,false],[true,false,false],[true,false,false],[true,false,false],[true,false,false],[true,false,false],[true,false,false]]"),
    ("var shared = {parse: JSON.parse, keys: Object.keys};",
     "(function(){ TypeError.prototype.planted = 'here'; SyntaxError.prototype.planted = 'here'; var out = []; try { shared.keys(null) } catch (e) { out.push(e.planted) } "
     "try { shared.parse('[') } catch (e) { out.push(e.planted) } try { null.x } catch (e) { out.push(e.planted) } return out })()",
     "[undefined,undefined,\"here\"]"),
    ("var shared = new Map([[1, 2]]);", "[shared instanceof Map, shared.get(1), Map.prototype.get.call(shared, 1), Object.getPrototypeOf(shared) === Map.prototype]", "[false,2,2,false]"),
    ("var shared = Symbol.for('x');", "[shared === Symbol.for('x'), typeof shared]", "[true,\"symbol\"]"),
    ("var shared = Symbol.iterator;", "[shared === Symbol.iterator]", "[true]"),
    ("var shared = Promise.resolve(1);", "[shared instanceof Promise, Object.getPrototypeOf(shared) === Promise.prototype, typeof shared.then]", "[false,false,\"function\"]"),
    ("var shared = function(){ return new.target === undefined ? 'call' : Object.getPrototypeOf(this) === shared.prototype };", "[shared(), new shared()]", "[\"call\",{}]"),
]


def job_single(src, pre_garbage=0, jid=None):
    steps = []
    if pre_garbage:
        steps.append({"op": "eval", "src": "var __junk = []; for (var i = 0; i < %d; i++) __junk.push({i: i, s: 'x' + i, a: [i]}); __junk = null;" % pre_garbage, "ctx": 0})
        return {"id": jid, "contexts": 2, "steps": steps + [{"op": "gc", "ctx": 0}, {"op": "eval", "src": src, "ctx": 1}, {"op": "jobs", "ctx": 1}]}
    return {"id": jid, "contexts": 1, "steps": [{"op": "eval", "src": src}, {"op": "jobs"}]}


def probe_record(res, first_step):
    """(completions, trace slice) of the probe steps starting at first_step"""
    if res is None or res.get("fatal"):
        return ("fatal:" + str(res.get("fatal") if res else "missing"),)
    st = res["steps"][first_step:first_step + 2]
    if len(st) < 2:
        return ("short",)
    t0, t1 = st[0]["t"][0], st[-1]["t"][1]
    # `realm_eval` has no early-error classification: both spellings of a SyntaxError are the same outcome here
    norm = lambda c: "throw:Error<SyntaxError>" if c == "early:SyntaxError" else c
    return (tuple(norm(s["c"]) for s in st), tuple(res["trace"][t0:t1]))


def run(tier, seed):
    chk = core.Check("C20", tier, seed)
    thorough = tier == "thorough"
    binary = build.ensure("bvh", "native")
    n_core, n_shape, n_sab = (12000, 3000, 1500) if thorough else (1200, 300, 160)
    progs = list(ORDER_PROBES)
    progs += [gen_core.generate_form(seed, i, avoid={"logical_assign_nonlexical"}, label="c20")[0] for i in range(n_core)]
    progs += [gen_shape.generate(seed, 9000 + i) for i in range(n_shape)]
    rng = Rng(seed, "c20")
    reported = 0
    distinct = set()
    counters = {"two_contexts": 0, "two_processes": 0, "after_history": 0, "after_garbage": 0, "sabotage_context": 0, "sabotage_realm": 0, "cross_realm": 0}

    # ---- (a) determinism
    # run 1: plain, sharded one way; run 2: same jobs in a different order / shard assignment (other processes);
    jobsA = [job_single(p, jid=i) for i, p in enumerate(progs)]
    r1 = runner.run_bvh(binary, "session", jobsA, "c20a", timeout=60)
    order = rng.shuffle(list(range(len(progs))))
    r2p = runner.run_bvh(binary, "session", [jobsA[i] for i in order], "c20b", shards=7, timeout=60)
    r2 = [None] * len(progs)
    for pos, i in enumerate(order):
        r2[i] = r2p[pos]
    # two fresh contexts in one thread + prior history + prior garbage
    jobsC, metaC = [], []
    for i, p in enumerate(progs):
        hist = progs[rng.below(len(progs))]
        jobsC.append({"id": i, "contexts": 3, "steps": [{"op": "eval", "src": hist, "ctx": 0}, {"op": "jobs", "ctx": 0},
                                                      {"op": "eval", "src": p, "ctx": 1}, {"op": "jobs", "ctx": 1},
                                                      {"op": "eval", "src": p, "ctx": 2}, {"op": "jobs", "ctx": 2}]})
        metaC.append(i)
    r3 = runner.run_bvh(binary, "session", jobsC, "c20c", timeout=120)
    jobsG = [job_single(p, pre_garbage=rng.choice([10, 1000, 20000]), jid=i) for i, p in enumerate(progs[:len(progs) // 3])]
    r4 = runner.run_bvh(binary, "session", jobsG, "c20g", timeout=120)

    def violation(what, rep):
        nonlocal reported
        if reported < 5:
            chk.violation(what, rep)
            reported += 1

    for i, p in enumerate(progs):
        base = probe_record(r1[i], 0)
        if base[0] if isinstance(base[0], str) else False:
            cl = diffrun.classify(r1[i])
            if cl.startswith("internal"):
                pass  # C02's subject; still compare for determinism below
            else:
                chk.inconc("base:" + str(base[0])[:30])
                continue
        others = [("another process", probe_record(r2[i], 0), "two_processes"),
                  ("a second context after an unrelated program ran in another context of the thread", probe_record(r3[i], 2), "after_history"),
                  ("a third fresh context of the same thread", probe_record(r3[i], 4), "two_contexts")]
        if i < len(r4):
            others.append(("a context created after GC garbage was allocated and collected", probe_record(r4[i], 2), "after_garbage"))
        ok = True
        for label, rec, key in others:
            if isinstance(rec[0], str) and rec[0].startswith(("fatal:timeout", "fatal:missing", "short")):
                chk.inconc(rec[0][:30])
                continue
            counters[key] += 1
            if rec != base:
                ok = False
                violation("the same program gives different records in a fresh context and in %s: %s vs %s" % (label, str(base)[:300], str(rec)[:300]),
                          {"kind": "determinism", "src": p, "variant": key})
                break
        if ok and len(base) == 2 and base[1]:
            distinct.add(norm_hash(p))

    # ---- (b) isolation under sabotage
    probes = list(ORDER_PROBES) + progs[len(ORDER_PROBES):len(ORDER_PROBES) + n_sab]
    sj, sm = [], []
    for i, p in enumerate(probes):
        sab = SABOTAGE.replace("SEED", str(rng.below(1 << 30)))
        mode = i % 3
        if mode == 0:
            # other context of the same thread
            sj.append({"id": i, "contexts": 2, "steps": [{"op": "eval", "src": sab, "ctx": 0}, {"op": "eval", "src": p, "ctx": 1}, {"op": "jobs", "ctx": 1}]})
            sm.append((i, 1, "sabotage_context"))
        elif mode == 1:
            # other realm: sabotage the main realm, probe in a new realm created BEFORE the sabotage
            sj.append({"id": i, "contexts": 1, "steps": [{"op": "realm_new"}, {"op": "eval", "src": sab}, {"op": "realm_eval", "k": 0, "src": p}, {"op": "jobs"}]})
            sm.append((i, 2, "sabotage_realm"))
        else:
            # sabotage a secondary realm, probe in the main realm
            sj.append({"id": i, "contexts": 1, "steps": [{"op": "realm_new"}, {"op": "realm_eval", "k": 0, "src": sab}, {"op": "eval", "src": p}, {"op": "jobs"}]})
            sm.append((i, 2, "sabotage_realm"))
    pristine = runner.run_bvh(binary, "session", [job_single(p, jid=i) for i, p in enumerate(probes)], "c20p", timeout=60)
    sres = runner.run_bvh(binary, "session", sj, "c20s", timeout=120)
    sab_effective = 0
    for (i, first, key), r, j in zip(sm, sres, sj):
        base = probe_record(pristine[i], 0)
        rec = probe_record(r, first)
        if isinstance(rec[0], str) or isinstance(base[0], str):
            cl = diffrun.classify(r)
            if cl.startswith("internal"):
                violation("sabotage + probe session fails internally: %s" % cl[:300], {"kind": "isolation", "job": j})
            else:
                chk.inconc(str(rec[0])[:30])
            continue
        # did the sabotage do anything? its step must have returned a positive count
        sstep = r["steps"][0 if key == "sabotage_context" else 1]["c"]
        if sstep.startswith("value:") and sstep != "value:0":
            sab_effective += 1
        counters[key] += 1
        if rec != base:
            violation("a probe program behaves differently after another %s was sabotaged: pristine %s, after sabotage %s" % (
                "context" if key == "sabotage_context" else "realm", str(base)[:300], str(rec)[:300]), {"kind": "isolation", "job": j, "probe": probes[i]})
        else:
            distinct.add(norm_hash("sab" + probes[i] + key))
    if sab_effective == 0:
        raise core.NoVerdict("the sabotage script never ran to completion")

    # ---- (c) cross-realm objects keep their realm's intrinsics
    cj = []
    for (setup, expr, expected) in CROSS_REALM:
        cj.append({"id": expr, "contexts": 1, "steps": [{"op": "realm_new"}, {"op": "eval", "src": setup}, {"op": "realm_share", "from": -1, "to": 0, "name": "shared"},
                                                         {"op": "realm_eval", "k": 0, "src": expr}]})
        cj.append({"id": expr, "contexts": 1, "steps": [{"op": "realm_new"}, {"op": "realm_eval", "k": 0, "src": setup}, {"op": "realm_share", "from": 0, "to": -1, "name": "shared"},
                                                         {"op": "eval", "src": expr}]})
    cres = runner.run_bvh(binary, "session", cj, "c20x", timeout=60)
    for k, (r, j) in enumerate(zip(cres, cj)):
        setup, expr, expected = CROSS_REALM[k // 2]
        if r.get("fatal"):
            chk.inconc("cross-realm:" + str(r["fatal"])[:30])
            continue
        got = r["steps"][3]["c"]
        counters["cross_realm"] += 1
        if got != "value:" + expected:
            violation("object passed across realms: `%s` evaluated in the other realm gives %s, expected %s (setup `%s`, direction %s)" % (
                expr, got, expected, setup, "main->new" if k % 2 == 0 else "new->main"), {"kind": "cross-realm", "job": j})
        else:
            distinct.add(norm_hash("x%d" % k))

    chk.assumptions = ["no Date / Math.random / clock use in the generated programs, so no clock injection is needed",
                       "processes differ in ASLR layout and std RandomState seeds automatically; this is not controlled, only observed across the shard processes",
                       "the sabotage walk covers what is reachable from the global object through own properties, accessors and prototypes (bounded at 4000 properties)"]
    return chk.finish(
        evaluations=len(jobsA) * 2 + len(jobsC) + len(jobsG) + len(sj) + len(cj), distinct_nontrivial=len(distinct),
        rule="programs (order-sensitive probes, core grammar, shape histories) run in: a fresh context, another process, two more fresh contexts of one thread after an "
             "unrelated program, a context created after GC garbage; probes run in context/realm B after a seeded sabotage of everything reachable from A's global object; "
             "cross-realm transfer matrix; non-trivial = all comparisons of a case were made and the program printed something; distinct by source",
        samples=[ORDER_PROBES[0][:300], progs[len(ORDER_PROBES)][:300]],
        extra={"comparisons": counters, "sabotage_runs_effective": sab_effective},
        min_nontrivial=50)


def replay(path, seed):
    with open(path) as f:
        rep = json.load(f)
    binary = build.ensure("bvh", "native")
    if "job" in rep:
        r = runner.run_bvh(binary, "session", [rep["job"]], "c20r", shards=1)[0]
        print(json.dumps(r.get("steps"))[:2000], r.get("trace"))
    else:
        r = runner.run_bvh(binary, "session", [job_single(rep["src"]), job_single(rep["src"], 1000)], "c20r", shards=2)
        print(probe_record(r[0], 0), probe_record(r[1], 2))
    return 2
