"""C12 — value tagging is lossless, unambiguous and configuration-independent.

(1) `bvh values`: all 2^32 int32 (exhaustive), a structured set of f64 bit patterns (sign x 2048 exponents x
    16 tag nibbles x 12 boundary mantissas) plus seeded random patterns through every float constructor of
    the public API, booleans / null / undefined / heap values: type and content must survive JsValue.
(2) scripts that manufacture double bit patterns through BigUint64Array / DataView / Float32Array and use the
    values as numbers: expectations by construction (IEEE), V8, and the enum build.
(3) generated programs under the NaN-boxed build and under the `jsvalue-enum` build: equal traces."""
import json
import subprocess

from .. import build, core, diffrun, gen_core, gen_opt, runner
from ..core import norm_hash
from ..rng import Rng

ROUTES = r"""
var buf = new ArrayBuffer(16), u64 = new BigUint64Array(buf), f64 = new Float64Array(buf), dv = new DataView(buf), u32 = new Uint32Array(buf), f32 = new Float32Array(buf);
function isNaNBits(hi, lo) { return ((hi >>> 20) & 0x7ff) === 0x7ff && ((hi & 0xfffff) !== 0 || lo !== 0); }
function use(x) {
  // everything a number can be asked; any misread tag shows as a different answer
  var a = [x, 0.5]; a.push(x); var o = {v: x}; var m = new Map([[1, x]]);
  function pass() { return arguments[0]; }
  function* g(v) { yield v; }
  var viaGen = g(x).next().value, viaSpread = [...[x]][0], viaArgs = pass(x), viaClosure = (function () { return x; })();
  return [typeof x, typeof a[0], typeof a[2], typeof o.v, typeof m.get(1), typeof viaGen, typeof viaSpread, typeof viaArgs, typeof viaClosure,
          x !== x, Object.is(x, viaGen) || (x !== x && viaGen !== viaGen), x === x ? x + 1 === viaArgs + 1 : isNaN(x + 1), (x | 0) === (viaSpread | 0), !x === !viaClosure,
          JSON.stringify(x === x ? 1 : x)].join(',');
}
"""


def pattern_program(rng, count):
    his = []
    for sign in (0, 1):
        for nib in range(16):
            for top in (0x7ff, 0x7fe, 0x000, 0x001, 0x3ff, 0x433):
                his.append((sign << 31) | (top << 20) | (nib << 16) | rng.below(1 << 16))
    his = rng.sample(his, min(count, len(his)))
    los = [0, 1, 0xffffffff, 0x80000000, rng.below(1 << 32)]
    lines = [ROUTES, "var bad = [], seen = {}, n = 0;"]
    lines.append("var HI = %s, LO = %s;" % (json.dumps(his), json.dumps(los)))
    lines.append(r"""
for (var i = 0; i < HI.length; i++) for (var j = 0; j < LO.length; j++) {
  var hi = HI[i] >>> 0, lo = LO[j] >>> 0, expectNaN = isNaNBits(hi, lo);
  u32[1] = hi; u32[0] = lo;
  var routes = [f64[0], dv.getFloat64(0, true), (dv.setUint32(8, hi), dv.setUint32(12, lo), dv.getFloat64(8)), (u64[1] = (BigInt(hi) << 32n) | BigInt(lo), f64[1])];
  for (var r = 0; r < routes.length; r++) {
    var x = routes[r], s = use(x);
    n++;
    seen[s] = (seen[s] || 0) + 1;
    if (typeof x !== 'number' || (x !== x) !== expectNaN) bad.push([hi.toString(16), lo.toString(16), r, typeof x, s]);
    if (!expectNaN) { f64[1] = x; if (u32[3] !== hi || u32[2] !== lo) bad.push(['bits-changed', hi.toString(16), lo.toString(16), r, u32[3].toString(16), u32[2].toString(16)]); }
  }
  // float32 payloads
  u32[0] = hi; var y = f32[0]; n++;
  var nan32 = ((hi >>> 23) & 0xff) === 0xff && (hi & 0x7fffff) !== 0;
  if (typeof y !== 'number' || (y !== y) !== nan32) bad.push(['f32', hi.toString(16), typeof y]);
}
print('patterns', n, 'bad', bad.length, JSON.stringify(bad.slice(0, 5)));
print('answers', Object.keys(seen).sort().join(' | '));
""")
    return "\n".join(lines)


def _values(binary, args, timeout=900):
    try:
        p = subprocess.run([binary, "values"] + [str(a) for a in args], stdout=subprocess.PIPE, stderr=subprocess.PIPE, timeout=timeout)
    except subprocess.TimeoutExpired:
        return None, None, "timeout"
    out = p.stdout.decode("utf8", "replace").strip().splitlines()
    last = out[-1] if out else ""
    try:
        d = json.loads(last)
    except Exception:
        d = None
    return p.returncode, d, p.stderr.decode("utf8", "replace")[-1500:]


def run(tier, seed):
    chk = core.Check("C12", tier, seed)
    thorough = tier == "thorough"
    binary = build.ensure("bvh", "native")
    counters = {}
    # (1) round trips in Rust
    for name, args in (("i32", ["i32", 16]), ("f64", ["f64", seed, (1 << 26) if thorough else (1 << 22)]), ("heap", ["heap", seed, 200000 if thorough else 30000])):
        rc, d, err = _values(binary, args)
        if rc is None:
            chk.inconc("values-%s:watchdog" % name)
            continue
        if d and d.get("violation"):
            chk.violation("JsValue round trip (%s): %s" % (name, d["violation"]), {"kind": "values", "args": args})
            continue
        if rc != 0 or not d:
            chk.violation("`bvh values %s` failed (rc=%s): %s" % (name, rc, err[-600:]), {"kind": "values", "args": args})
            continue
        counters[name] = d
    # (2) bit patterns manufactured by scripts
    rng = Rng(seed, "c12")
    pjobs = [diffrun.job(pattern_program(rng, 60 if not thorough else 192)) for _ in range(16 if not thorough else 96)]
    eng = diffrun.Engines(tag="c12")
    enum_binary = None
    try:
        enum_binary = build.ensure("bvh", "enum")
    except build.BuildError:
        chk.inconc("enum-build-failed")
    try:
        rb = eng.boa(pjobs, timeout=120)
        rn = eng.node(pjobs)
        re_ = runner.run_bvh(enum_binary, "session", pjobs, "c12e", timeout=120) if enum_binary else [None] * len(pjobs)
        pat = 0
        distinct = set()
        reported = 0
        for j, b, n, e in zip(pjobs, rb, rn, re_):
            cl = diffrun.classify(b)
            if cl.startswith("internal"):
                chk.violation("pattern program fails internally: %s" % cl[:300], {"kind": "js", "src": j["steps"][0]["src"]})
                continue
            if cl != "ok":
                chk.inconc(cl[:40])
                continue
            tr = b["trace"]
            if len(tr) < 2 or " bad 0 " not in tr[0]:
                if reported < 4:
                    chk.violation("double bit patterns read through typed arrays / DataView are misread: %s" % (tr[0][:400] if tr else b["steps"][0]["c"]),
                                  {"kind": "js", "src": j["steps"][0]["src"]})
                    reported += 1
                continue
            try:
                pat += int(tr[0].split()[1])
            except Exception:
                pass
            if diffrun.node_usable(n) and not diffrun.same(b, n):
                chk.violation("pattern program differs from V8: %s" % diffrun.describe(b, n), {"kind": "js", "src": j["steps"][0]["src"]})
                continue
            if e is not None:
                ce = diffrun.classify(e)
                if ce == "ok" and diffrun.record(e) != diffrun.record(b):
                    chk.violation("pattern program differs between the NaN-boxed and the enum value representation: %s" % diffrun.describe(b, e), {"kind": "js-enum", "src": j["steps"][0]["src"]})
                    continue
                elif ce != "ok":
                    chk.inconc("enum:" + ce[:30])
            distinct.add(norm_hash(j["steps"][0]["src"]))
        counters["script_patterns"] = pat
        # (3) program corpus under both representations
        n_prog = 12000 if thorough else 900
        progs = [gen_core.generate(seed, i, avoid={"logical_assign_nonlexical"}, label="c12")[0] if i % 3 else gen_opt.generate(seed, i) for i in range(n_prog)]
        compared = 0
        if enum_binary:
            jobs = [diffrun.job(p) for p in progs]
            r1 = eng.boa(jobs)
            r2 = runner.run_bvh(enum_binary, "session", jobs, "c12p", timeout=30)
            for p, a, b2 in zip(progs, r1, r2):
                ca, cb = diffrun.classify(a), diffrun.classify(b2)
                if ca.startswith("inconclusive") or cb.startswith("inconclusive"):
                    chk.inconc("corpus:" + (ca if ca != "ok" else cb)[:30])
                    continue
                compared += 1
                if diffrun.record(a) != diffrun.record(b2) and reported < 8:
                    reported += 1
                    chk.violation("program behaves differently under the enum value representation: %s" % diffrun.describe(a, b2), {"kind": "js-enum", "src": p})
                elif diffrun.record(a)[2]:
                    distinct.add(norm_hash(p))
        counters["programs_compared_both_builds"] = compared
    finally:
        eng.close()
    chk.assumptions = ["NaN payloads are not required to survive a trip through a Number (implementation-defined); only NaN-ness and the type are",
                       "heap references: identity and type are checked, reference counts only for strings (boa_gc does not expose them)"]
    total = sum((v.get("checked", 0) if isinstance(v, dict) else 0) for v in counters.values())
    return chk.finish(
        evaluations=total + len(pjobs) + counters.get("programs_compared_both_builds", 0),
        distinct_nontrivial=len(distinct) + (1 if "i32" in counters else 0) + (1 if "f64" in counters else 0),
        rule="int32: all 2^32 values; f64: sign x 2048 exponents x 16 top-mantissa nibbles x 12 boundary mantissas + seeded random bit patterns (a third forced into the "
             "NaN space) through JsValue::new / From<f64> / rational / From<f32>; scripts that build bit patterns through typed arrays and DataView; generated programs "
             "under both value representations; non-trivial/distinct = script and program cases that passed every comparison (+1 for each completed exhaustive sweep)",
        samples=[{"i32": counters.get("i32")}, {"f64": counters.get("f64")}, pjobs[0]["steps"][0]["src"][-400:]],
        extra={"exhaustive": False, "exhaustive_subspace": {"exhaustive": True, "what": "all 2^32 int32 through JsValue::new / as_i32 / variant / as_number", "checked": (counters.get("i32") or {}).get("checked")},
               "rust_round_trips": counters},
        min_nontrivial=10)


def replay(path, seed):
    with open(path) as f:
        rep = json.load(f)
    binary = build.ensure("bvh", "native")
    if rep.get("kind") == "values":
        rc, d, err = _values(binary, rep["args"])
        print(rc, d, err[-500:])
        if rc != 0:
            print("VIOLATION property=C12 replay=%s" % path)
            return 1
        return 0
    enum_binary = build.ensure("bvh", "enum")
    j = [diffrun.job(rep["src"])]
    a = runner.run_bvh(binary, "session", j, "c12r", shards=1)[0]
    b = runner.run_bvh(enum_binary, "session", j, "c12r", shards=1)[0]
    print(diffrun.record(a))
    print(diffrun.record(b))
    if diffrun.record(a) != diffrun.record(b):
        print("VIOLATION property=C12 replay=%s" % path)
        return 1
    return 0
