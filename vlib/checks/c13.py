"""C13 - Number <-> text conversions are exact.

Real boa (bvh session runner) converts bit-exact doubles to text and texts to doubles; every result line is
compared with the exact integer model `vlib/models/numtext.py`.  V8 (node) runs the same programs as a second
opinion: when V8 contradicts the model the case is *inconclusive* (it guards the model), never a violation.

Doubles enter the scripts through `Uint32Array` halves of a `Float64Array` (never through a decimal literal)
and text->number results leave as the two 32-bit halves of the resulting double, so the only conversions on
the path are the ones under test (plus printing of integers below 2**32).

Three decimal parsers are kept apart: the lexer (`eval(text)`), `Number(s)` / unary plus, `parseFloat(s)`;
plus `parseInt(s, r)`.  Number->text: `String(x)`, `''+x`, `x.toString()`, template literal, property key,
`Array.prototype.join`, `toFixed`, `toExponential`, `toPrecision`, `toString(radix)` on integers.

Open findings (`/verif/known/c13_findings.json`): each entry carries an exact reproducer that is replayed on
every run and an `avoid` class name; the generators drop exactly the inputs of these classes (function
`avoid_class`), everything else stays fully checked.  The evidence lists how many generated cases each class
removed.
"""
import json
import os
import threading
from concurrent.futures import ProcessPoolExecutor

from .. import build, core, runner
from .. import gen_num as G
from ..models import numtext as M
from ..rng import Rng

VERIF = runner.VERIF
KNOWN_PATH = os.path.join(VERIF, "known", "c13_findings.json")
MODEL_PROCS = 6

# ------------------------------------------------------------------------------------------------
# operations

NUM_OPS = {
    "S": "S(String(x))",
    "C": "S(''+x)",
    "T": "S(x.toString())",
    "L": "S(`${x}`)",
    "K": "S(Object.keys({[x]:0})[0])",
    "J": "S([x].join())",
    "X": "S(x.toFixed(a))",
    "X0": "S(x.toFixed())",
    "E": "S(x.toExponential(a))",
    "E0": "S(x.toExponential())",
    "P": "S(x.toPrecision(a))",
    "P0": "S(x.toPrecision())",
    "R": "S(x.toString(a))",
    "rN": "B(Number(String(x)))",
    "rU": "B(+String(x))",
    "rF": "B(parseFloat(String(x)))",
    "rV": "B(eval(String(x)))",
    "rI": "B(parseInt(x.toString(a),a))",
}
TXT_OPS = {
    "N": "B(Number(s))",
    "U": "B(+s)",
    "F": "B(parseFloat(s))",
    "V": "B(eval(s))",
    "I": "B(parseInt(s,a))",
}
OP_LIST = list(NUM_OPS) + list(TXT_OPS)
OP_INDEX = {o: i for i, o in enumerate(OP_LIST)}
STRING_ROUTES = ["S", "C", "T", "L", "K", "J"]

OP_DOC = {
    "S": "String(x)", "C": "''+x", "T": "x.toString()", "L": "`${x}`", "K": "property key", "J": "[x].join()", "X": "x.toFixed(d)", "X0": "x.toFixed()",
    "E": "x.toExponential(d)", "E0": "x.toExponential()", "P": "x.toPrecision(p)", "P0": "x.toPrecision()", "R": "x.toString(radix) (integers)",
    "rN": "Number(String(x))", "rU": "+String(x)", "rF": "parseFloat(String(x))", "rV": "eval(String(x))", "rI": "parseInt(x.toString(r), r)",
    "N": "Number(s)", "U": "+s", "F": "parseFloat(s)", "V": "eval(s) (lexer literal)", "I": "parseInt(s, r)",
}


def _js_prog(cases):
    """one closed program for a list of cases; prints exactly one line per case"""
    rows = []
    for c in cases:
        kind, op, inp, arg = c[0], c[1], c[2], c[3]
        if kind == "n":
            a = "undefined" if arg is None else str(arg)
            rows.append("[%d,%d,%d,%s]" % (OP_INDEX[op], inp >> 32, inp & 0xFFFFFFFF, a))
        else:
            a = "undefined" if arg is None else arg[0]
            rows.append("[%d,%s,%s]" % (OP_INDEX[op], json.dumps(inp), a))
    sw = []
    for o in NUM_OPS:
        sw.append("case %d:x=D(c[1],c[2]);a=c[3];return %s;" % (OP_INDEX[o], NUM_OPS[o]))
    for o in TXT_OPS:
        sw.append("case %d:s=c[1];a=c[2];return %s;" % (OP_INDEX[o], TXT_OPS[o]))
    return (
        "var __f=new Float64Array(1),__u=new Uint32Array(__f.buffer);\n"
        "function D(h,l){__u[1]=h;__u[0]=l;return __f[0];}\n"
        "function B(v){if(typeof v!=='number')return 'type:'+typeof v;if(v!==v)return 'nan';__f[0]=v;return __u[1]+':'+__u[0];}\n"
        "function S(v){return typeof v==='string'?'='+v:'type:'+typeof v;}\n"
        "function EX(e){return 'throw:'+(e instanceof RangeError?'RangeError':e instanceof SyntaxError?'SyntaxError':e instanceof TypeError?'TypeError':"
        "e instanceof ReferenceError?'ReferenceError':'other');}\n"
        "function run(c){var x,a,s;switch(c[0]){\n" + "\n".join(sw) + "\n}return 'badop';}\n"
        "var T=[\n" + ",\n".join(rows) + "\n];\n"
        "for(var i=0;i<T.length;i++){var r;try{r=run(T[i]);}catch(e){r=EX(e);}print(r);}\n"
    )


def _job(i, cases):
    return {"id": i, "steps": [{"op": "eval", "src": _js_prog(cases)}]}


def _bits_line(b):
    if M.is_nan(b):
        return "nan"
    return "%d:%d" % (b >> 32, b & 0xFFFFFFFF)


def _line_bits(line):
    if line == "nan":
        return M.NAN
    try:
        h, l = line.split(":")
        return (int(h) << 32) | int(l)
    except Exception:
        return None


# ------------------------------------------------------------------------------------------------
# the model's opinion on one observed line

def expected(case):
    """-> (primary expected line, set of all admissible lines or None, predicate or None)"""
    kind, op, inp, arg = case[0], case[1], case[2], case[3]
    if kind == "n":
        b = inp
        if op in STRING_ROUTES or op == "P0":
            return "=" + M.number_to_string(b), {"=" + s for s in M.number_to_string_allowed(b)}, None
        if op == "X" or op == "X0":
            f = 0 if (arg is None or op == "X0") else arg
            r = M.to_fixed(b, f)
            return (r if r.startswith("throw:") else "=" + r), None, None
        if op == "E" or op == "E0":
            f = None if op == "E0" else arg
            r = M.to_exponential(b, f)
            if r.startswith("throw:"):
                return r, None, None
            if f is None:
                return "=" + r, {"=" + s for s in M.to_exponential_allowed(b)}, None
            return "=" + r, None, None
        if op == "P":
            r = M.to_precision(b, arg)
            if arg is None:
                return "=" + r, {"=" + s for s in M.number_to_string_allowed(b)}, None
            return (r if r.startswith("throw:") else "=" + r), None, None
        if op == "R":
            if arg is None:
                return "=" + M.number_to_string(b), {"=" + s for s in M.number_to_string_allowed(b)}, None
            if arg < 2 or arg > 36:
                return M.RANGE_ERROR, None, None
            t = M.to_string_radix(b, arg)
            if t is None:
                return None, None, None
            return "=" + t, None, None
        if op in ("rN", "rU", "rF", "rV"):
            return _bits_line(M.string_to_number(M.number_to_string(b))), None, None
        if op == "rI":
            t = M.to_string_radix(b, arg)
            if t is None:
                return None, None, None
            allowed, _ = M.parse_int(t, arg)
            if allowed is None:
                return None, None, None
            ls = {_bits_line(x) for x in allowed}
            return sorted(ls)[0], ls, None
    else:
        s = inp
        if op in ("N", "U"):
            return _bits_line(M.string_to_number(s)), None, None
        if op == "F":
            return _bits_line(M.parse_float(s)), None, None
        if op == "V":
            v = M.literal_value(s)
            return ("throw:SyntaxError" if v is None else _bits_line(v)), None, None
        if op == "I":
            allowed, _ = M.parse_int(s, arg[1])
            if allowed is None:
                return None, None, None
            ls = {_bits_line(x) for x in allowed}
            return sorted(ls)[0], ls, None
    raise ValueError("unknown op %r" % (op,))


def accepts(exp, line):
    primary, allowed, pred = exp
    if line == primary:
        return "exact"
    if allowed is not None and line in allowed:
        return "allowed"
    if pred is not None and line is not None and pred(line):
        return "allowed"
    return None


def nontrivial(case, exp):
    """a conversion that exercises digit generation / rounding: finite non-zero number in, or a finite non-zero
    double out of a text"""
    if case[0] == "n":
        b = case[2]
        return M.is_finite(b) and (b & ~M.SIGN) != 0
    bits = _line_bits(exp[0]) if exp[0] and not exp[0].startswith("throw") else None
    return bits is not None and M.is_finite(bits) and (bits & ~M.SIGN) != 0


def judge_batch(args):
    """runs in a worker process: compares the lines of one program. -> summary dict"""
    cases, bl, vl = args
    res = {"held": 0, "nontrivial": 0, "allowed_nonclosest": 0, "problems": [], "ops": {}, "v8_checked": 0, "allowed_samples": []}
    for i, case in enumerate(cases):
        exp = expected(case)
        if exp[0] is None:
            res["problems"].append((i, "excluded", None, None, None))
            continue
        b = bl[i] if bl is not None and i < len(bl) else None
        v = vl[i] if vl is not None and i < len(vl) else None
        ab = accepts(exp, b)
        av = accepts(exp, v) if v is not None else None
        if v is not None:
            res["v8_checked"] += 1
        if b is None:
            res["problems"].append((i, "no-boa-line", exp[0], b, v))
            continue
        if ab and (v is None or av):
            res["held"] += 1
            res["ops"][case[1]] = res["ops"].get(case[1], 0) + 1
            if ab == "allowed":
                res["allowed_nonclosest"] += 1
                res["allowed_samples"].append((i, exp[0], b, v))
            if nontrivial(case, exp):
                res["nontrivial"] += 1
            continue
        if ab:
            res["problems"].append((i, "v8-vs-model", exp[0], b, v))
        elif v is not None and not av:
            res["problems"].append((i, "both-vs-model", exp[0], b, v))
        else:
            res["problems"].append((i, "boa-wrong", exp[0], b, v))
    return res


# ------------------------------------------------------------------------------------------------
# open findings: avoided input classes

_MIN_BLOCK_2 = [0, 0, 0, 0, 0, 0, 1, 1, 2, 3, 3, 4, 4, 5, 5, 6, 6, 7, 7, 8, 8, 9, 9, 10, 11, 11, 12]  # ryu's d2fixed table


def _sig_digits(b):
    """significant digits of the exact decimal expansion of a finite non-zero double, and its number of fractional digits"""
    _, dg, ex = M.exact_decimal(b)
    return str(dg).rstrip("0"), (-ex if ex < 0 else 0)


def _tie_even(b, n):
    """the exact value sits exactly half-way between two n-digit decimals and the lower one ends in an even digit:
    the inputs on which round-half-even and the spec's "pick the larger n" differ"""
    sd, _ = _sig_digits(b)
    return len(sd) == n + 1 and sd[-1] == "5" and int(sd[-2]) % 2 == 0


def _accumulation_rounds(z, R):
    """digit-by-digit accumulation `v = v * R; v = v + d` in doubles rounds somewhere other than in the very last
    addition (a single rounding in the last addition is a correct rounding of the exact value)"""
    v = 0
    n = len(z)
    for i, ch in enumerate(z):
        t = v * R
        if M.needs_rounding(t):
            return True
        v = t + M._DIGVAL[ch.lower()]
        if M.needs_rounding(v):
            return i != n - 1
    return False


def _double_rounding_at_100(b, p, lowest):
    """x is below the half-way point T of its two neighbouring p-digit decimals, but x rounded (half-even) to 100
    fractional digits is >= T: a second rounding from that 100-digit text goes the wrong way.  Needs lowest > -100."""
    neg, m, e = M.decode(b)
    num, den = M._scaled(m, e, 100)  # x * 10**100
    q, r = divmod(num, den)
    if 2 * r > den or (2 * r == den and (q & 1)):
        q += 1
    k = lowest + 100  # T*10**100 = (2n+1) * 10**k / 2 with n = floor(x / 10**lowest), k >= 1
    n = num // (den * M.p10(k))
    t100 = (2 * n + 1) * 5 * M.p10(k - 1)
    return num < t100 * den and q >= t100


def _parse_int_class(text, radix):
    parts = M.parse_int_parts(text, radix)
    if parts[0] == "nan":
        return None
    neg, R, z = parts
    if (len(z) > 16 or R > 16) and _accumulation_rounds(z, R):
        return "parseInt-inexact-accumulation"
    return None


def avoid_class(case):
    """name of the open-finding class this case belongs to, or None.  Every class is the input-side description of
    ONE defect recorded in /verif/known/c13_findings.json (field `avoid`); inputs outside the classes stay checked."""
    kind, op, inp, arg = case[0], case[1], case[2], case[3]
    if kind == "n":
        b = inp
        if not M.is_finite(b) or (b & ~M.SIGN) == 0:
            return None
        if op == "E" and isinstance(arg, int) and 0 <= arg <= 100:
            # Rust's {:.N e} formatting rounds the exact value half-to-even
            if _tie_even(b, arg + 1):
                return "toExponential-exact-tie-even-digit"
        elif op == "P" and isinstance(arg, int) and 1 <= arg <= 100:
            # to_precision() works on format!("{:.100}"): only 100 fractional digits, rounded half-to-even there
            sd, nfrac = _sig_digits(b)
            if nfrac > 100:
                neg, m, e = M.decode(b)
                lowest = M._floor_log10(m, e) - arg + 1  # decimal position of the last requested digit
                if lowest < -100:
                    return "toPrecision-digits-beyond-100th-fraction-digit"
                if lowest == -100 and _tie_even(b, arg):
                    return "toPrecision-tie-at-100th-fraction-digit"
                if lowest > -100 and _double_rounding_at_100(b, arg, lowest):
                    return "toPrecision-double-rounding-via-100th-fraction-digit"
        elif op in ("X", "X0"):
            d = arg if (op == "X" and isinstance(arg, int)) else 0
            if 0 <= d <= 100:
                neg, m, e = M.decode(b)
                if e < 0:
                    mb = _MIN_BLOCK_2[min((-e) // 16, 26)]
                    if mb >= 1 and d // 9 + 1 > mb:
                        # ryu-js format64_to_fixed: the leading all-zero 9-digit blocks are neither written nor skipped
                        return "toFixed-tiny-value-leading-zero-blocks"
        elif op == "rI":
            t = M.to_string_radix(b, arg)
            if t is not None:
                return _parse_int_class(t, arg)
        return None
    s = inp
    if op == "I":
        return _parse_int_class(s, arg[1])
    if op in ("N", "U"):
        t = M.trim(s)
        if len(t) > 2 and t[0] == "0" and t[1] in "bBoOxX":
            radix = {"b": 2, "o": 8, "x": 16}[t[1].lower()]
            body = t[2:]
            if all(ord(c) < 128 and M._DIGVAL.get(c.lower(), 99) < radix for c in body):
                # fused multiply-add per digit: wrong once a PROPER prefix already needed rounding
                if int(body, radix) >= (1 << 32) and len(body) > 1 and M.needs_rounding(int(body[:-1], radix)):
                    return "Number-nondecimal-literal-over-53-bits"
        elif len(t) > 1 and t[0] in "+-" and t[1:].lower() in ("inf", "infinity") and t[1:] != "Infinity":
            return "Number-signed-inf-spelling"
    return None


def load_known():
    try:
        with open(KNOWN_PATH) as f:
            return json.load(f)
    except FileNotFoundError:
        return []


# ------------------------------------------------------------------------------------------------
# workload assembly

def cases_for_double(rng, b, cls):
    out = []
    routes = rng.sample(STRING_ROUTES, 2)
    for o in routes:
        out.append(["n", o, b, None, cls])
    out.append(["n", "rN", b, None, cls])
    w = rng.below(4)
    out.append(["n", ("rF", "rF", "rU", "rV")[w], b, None, cls])
    fin = M.is_finite(b)
    # toFixed
    out.append(["n", "X", b, rng.choice([0, 1, 2, 3, 5, 10, 20]), cls])
    out.append(["n", "X", b, rng.range(0, 100), cls])
    # toExponential
    z = rng.below(10)
    out.append(["n", "E", b, None if z < 2 else rng.range(0, 20), cls])
    out.append(["n", "E", b, rng.range(0, 100), cls])
    # toPrecision
    out.append(["n", "P", b, rng.range(1, 21), cls])
    out.append(["n", "P", b, rng.range(1, 100), cls])
    if rng.chance(0.03):
        o = rng.choice(["X0", "E0", "P0"])
        out.append(["n", o, b, None, cls])
        o = rng.choice(["X", "E", "P"])
        out.append(["n", o, b, rng.choice([-1, 101, 0, 100, 1000, None]), cls])
        out.append(["n", "R", b, rng.choice([None, 10, 1, 37, 0]), cls])
    if fin and M.int_value(b) is not None:
        for _ in range(2):
            r = rng.range(2, 36)
            if M.to_string_radix(b, r) is None:
                r = rng.choice([2, 4, 8, 16, 32])  # beyond 2**53 only power-of-two radices have a unique answer
            out.append(["n", "R", b, r, cls])
            if rng.chance(0.5):
                out.append(["n", "rI", b, r, cls])
    return out


def cases_for_text(rng, t, cls):
    out = [["t", "N", t, None, cls], ["t", "F", t, None, cls]]
    if rng.chance(0.2):
        out.append(["t", "U", t, None, cls])
    ascii_ok = all(ord(c) < 128 for c in t)
    if ascii_ok and cls != "grammar" and M.literal_value(t) is not None and rng.chance(0.5):
        out.append(["t", "V", t, None, cls])
    if cls != "grammar":
        w = rng.below(10)
        if w < 3:
            t2 = G.sign_it(rng, t)
            out.append(["t", "N", t2, None, cls + "+sign"])
            out.append(["t", "F", t2, None, cls + "+sign"])
        elif w < 5:
            t2, sfx = G.decorate_ws(rng, G.sign_it(rng, t) if rng.chance(0.5) else t)
            out.append(["t", "N", t2, None, cls + sfx])
            out.append(["t", "F", t2, None, cls + sfx])
        elif w < 7 and ascii_ok and M.literal_value(t) is not None:
            # numeric separators: valid in source text only
            t2 = _with_separators(rng, t)
            if t2 != t:
                out.append(["t", "V", t2, None, cls + "+sep"])
                out.append(["t", "N", t2, None, cls + "+sep"])
                out.append(["t", "F", t2, None, cls + "+sep"])
        elif w < 8:
            t2 = t + rng.choice(["x", "e", "e+", ".", "..", "_", "n", " 1", "E-", "f", "px", ",", "-1", "+"])
            out.append(["t", "N", t2, None, cls + "+junk"])
            out.append(["t", "F", t2, None, cls + "+junk"])
    return out


def _with_separators(rng, t):
    """inserts single underscores between adjacent digits (never next to a non-digit, never after a leading 0)"""
    out = []
    hexd = t[:2].lower() == "0x"
    digs = "0123456789abcdefABCDEF" if hexd else "0123456789"
    start = 2 if t[:2].lower() in ("0x", "0b", "0o") else 0
    for i, c in enumerate(t):
        out.append(c)
        if i >= start and i + 1 < len(t) and c in digs and t[i + 1] in digs and rng.chance(0.15):
            if not hexd and i == 0 and c == "0":
                continue
            out.append("_")
    r = "".join(out)
    return r if M.literal_value(r) is not None else t


def build_wave(rng, tier, wave, n_doubles, n_texts, n_pint, n_radix):
    """-> list of cases (lists).  Wave 0 carries the structured sets."""
    cases = []
    doubles = []
    if wave == 0:
        doubles += G.structured_doubles(tier == "thorough")
    doubles += G.random_doubles(rng.fork("doubles"), max(0, n_doubles - len(doubles)))
    r = rng.fork("ops")
    for b, cls in doubles:
        cases += cases_for_double(r, b, cls)
    # exact ties (every digit count), with their neighbours
    r = rng.fork("ties")
    per = 2 if wave == 0 else 1
    for b, d in G.fixed_ties(r, per):
        for x, c2 in ((b, "tie-fixed"), (b - 1, "tie-fixed-below"), (b + 1, "tie-fixed-above")):
            if 0 < x <= M.MAX_FINITE:
                s = M.SIGN if r.chance(0.2) else 0
                cases.append(["n", "X", x | s, d, c2])
    for b, p in G.precision_ties(r, per):
        for x, c2 in ((b, "tie-precision"), (b - 1, "tie-precision-below"), (b + 1, "tie-precision-above")):
            if 0 < x <= M.MAX_FINITE:
                s = M.SIGN if r.chance(0.2) else 0
                cases.append(["n", "P", x | s, p, c2])
                cases.append(["n", "E", x | s, p - 1, c2])
    if wave == 0:
        for x, p, E in G.near_half_doubles():
            s = M.SIGN if r.chance(0.15) else 0
            cases.append(["n", "P", x | s, p, "near-half"])
            cases.append(["n", "E", x | s, p - 1, "near-half"])
            if 0 <= -E <= 100:
                cases.append(["n", "X", x | s, -E, "near-half"])
    # texts
    r = rng.fork("texts")
    texts = G.parser_texts(r, n_texts)
    if wave != 0:
        texts = [t for t in texts if t[1] != "grammar"]
    for t, cls in texts:
        cases += cases_for_text(r, t, cls)
    if wave == 0:
        for t in G.LITERAL_BAD:
            cases.append(["t", "V", t, None, "literal-bad"])
        for t in G.LITERAL_GOOD:
            cases.append(["t", "V", t, None, "literal-good"])
            cases.append(["t", "N", t, None, "literal-good"])
            cases.append(["t", "F", t, None, "literal-good"])
    # parseInt
    for t, rj, ri, cls in G.parseint_cases(rng.fork("pint"), n_pint):
        if wave != 0 and cls == "fixed":
            continue
        cases.append(["t", "I", t, [rj, ri], "pint-" + cls])
    # toString(radix) on integers
    r = rng.fork("radix")
    for b, radix, cls in G.radix_int_doubles(r, n_radix):
        if wave != 0 and cls in ("radix-fixed", "radix-special"):
            continue
        cases.append(["n", "R", b, radix, cls])
        if r.chance(0.3):
            cases.append(["n", "rI", b, radix, cls])
    return cases


# ------------------------------------------------------------------------------------------------
# execution

def _run_both(binary, pool, jobs, tag):
    out = {}

    def boa():
        out["b"] = runner.run_bvh(binary, "session", jobs, tag, shards=min(runner.NCPU, 12), timeout=60)

    def v8():
        out["v"] = pool.run(jobs)

    tb = threading.Thread(target=boa)
    tv = threading.Thread(target=v8)
    tb.start()
    tv.start()
    tb.join()
    tv.join()
    return out["b"], out["v"]


def _lines(res):
    if res is None or res.get("fatal"):
        return None
    st = res.get("steps") or []
    if not st or not str(st[0].get("c", "")).startswith("value:"):
        return None
    return res.get("trace") or []


class State:
    def __init__(self, chk):
        self.chk = chk
        self.evals = 0
        self.nontrivial = 0
        self.ops = {}
        self.classes = {}
        self.avoided = {}
        self.excluded = 0
        self.allowed_nonclosest = 0
        self.allowed_samples = []
        self.samples = []
        self.v8_checked = 0
        self.inconc_samples = []
        self.viol_sigs = {}
        self.digit_args = {"X": set(), "E": set(), "P": set(), "R": set(), "I": set()}


def describe(case):
    kind, op, inp, arg = case[0], case[1], case[2], case[3]
    if kind == "n":
        return "%s on x=0x%016x (%s) arg=%s [%s]" % (OP_DOC[op], inp, M.number_to_string(inp), arg, case[4])
    return "%s on s=%s arg=%s [%s]" % (OP_DOC[op], json.dumps(inp if len(inp) < 160 else inp[:150] + "...(%d chars)" % len(inp)), arg, case[4])


def run_cases(st, binary, pool, pex, cases, tag, batch=1500):
    chk = st.chk
    kept = []
    seen = set()
    for c in cases:
        k = (c[1], c[2], c[3] if c[0] == "n" else (c[3][0] if c[3] else None))
        if k in seen:
            continue  # identical conversion generated twice (overlapping structured sets)
        seen.add(k)
        a = avoid_class(c)
        if a:
            st.avoided[a] = st.avoided.get(a, 0) + 1
        else:
            kept.append(c)
    cases = kept
    # text batches are smaller (long strings)
    batches = []
    cur, size = [], 0
    for c in cases:
        w = 1 if c[0] == "n" else 1 + len(c[2]) // 200
        if cur and (size + w > batch):
            batches.append(cur)
            cur, size = [], 0
        cur.append(c)
        size += w
    if cur:
        batches.append(cur)
    jobs = [_job(i, b) for i, b in enumerate(batches)]
    rb, rv = _run_both(binary, pool, jobs, tag)
    work = []
    for i, bt in enumerate(batches):
        bl = _lines(rb[i])
        vl = _lines(rv[i])
        if vl is not None and len(vl) != len(bt):
            vl = None
        if vl is None:
            chk.inconc("v8-unavailable-for-batch", 1)
        if bl is None or len(bl) != len(bt):
            fatal = (rb[i] or {}).get("fatal") or "bad-completion:%s" % ((rb[i] or {}).get("steps"))
            if isinstance(fatal, str) and (fatal.startswith("timeout") or fatal.startswith("missing")):
                chk.inconc("boa-batch:" + fatal.split(":")[0], len(bt))
                continue
            # pinpoint: run every case of the batch on its own
            single = [_job(k, [c]) for k, c in enumerate(bt)]
            sb = runner.run_bvh(binary, "session", single, tag + "-pin", shards=min(runner.NCPU, 12), timeout=30)
            bl = []
            for k, c in enumerate(bt):
                l1 = _lines(sb[k])
                if l1 is None or len(l1) != 1:
                    f1 = (sb[k] or {}).get("fatal") or "bad-completion:%s" % ((sb[k] or {}).get("steps"))
                    if str(f1).startswith("timeout") or str(f1).startswith("missing"):
                        chk.inconc("boa-case:" + str(f1).split(":")[0])
                        bl.append(None)
                    else:
                        bl.append("fatal:" + str(f1)[:200])
                else:
                    bl.append(l1[0])
        work.append((bt, bl, vl))
    results = list(pex.map(judge_batch, work, chunksize=1))
    for (bt, bl, vl), res in zip(work, results):
        st.evals += res["held"]
        st.allowed_nonclosest += res["allowed_nonclosest"]
        for i, e0, b0, v0 in res["allowed_samples"]:
            if len(st.allowed_samples) < 10:
                st.allowed_samples.append({"case": describe(bt[i]), "model_primary": e0, "boa": b0, "v8": v0})
        st.v8_checked += res["v8_checked"]
        for o, n in res["ops"].items():
            st.ops[o] = st.ops.get(o, 0) + n
        prob = {p[0]: p for p in res["problems"]}
        for i, c in enumerate(bt):
            if i in prob:
                continue
            st.classes[c[4]] = st.classes.get(c[4], 0) + 1
            if c[1] in st.digit_args and c[3] is not None:
                st.digit_args[c[1]].add(c[3] if c[0] == "n" else c[3][1])
        # non-trivial distinct: counted by the worker per case; duplicates inside a wave are removed here
        st.nontrivial += res["nontrivial"]
        if len(st.samples) < 6:
            for i, c in enumerate(bt):
                if i not in prob and (i + len(st.samples) * 37) % 211 == 5 and (c[0] == "t" or (M.is_finite(c[2]) and c[2] & ~M.SIGN)):
                    st.samples.append({"case": describe(c), "observed": bl[i]})
                    break
        for i, kind, exp, b, v in res["problems"]:
            c = bt[i]
            if kind == "excluded":
                st.excluded += 1
                continue
            if kind == "no-boa-line":
                continue
            if kind in ("v8-vs-model", "both-vs-model"):
                chk.inconc("%s:%s" % (kind, c[1]))
                if len(st.inconc_samples) < 40:
                    st.inconc_samples.append({"kind": kind, "case": describe(c), "model": exp, "boa": b, "v8": v})
                continue
            # boa contradicts the model (and V8, where available, agrees with the model)
            sig = "%s/%s" % (c[1], c[4])
            st.viol_sigs[sig] = st.viol_sigs.get(sig, 0) + 1
            if st.viol_sigs[sig] <= 3 and len(chk.violations) < 60:
                chk.violation("%s: boa gives %s, exact model%s says %s" % (describe(c), b, " and V8" if v is not None else "", exp),
                              {"kind": "c13-case", "case": c, "expected": exp, "observed": b, "v8": v})


def replay_known(st, binary, pool):
    """replays the exact reproducer of every open finding"""
    chk = st.chk
    entries = [e for e in load_known() if e.get("status") == "open"]
    if not entries:
        return
    cases = [e["reproducer"]["case"] for e in entries]
    jobs = [_job(i, [c]) for i, c in enumerate(cases)]
    rb = runner.run_bvh(binary, "session", jobs, "c13-known", shards=min(runner.NCPU, 8), timeout=30)
    for e, c, r in zip(entries, cases, rb):
        exp = expected(c)
        l = _lines(r)
        if l is None or len(l) != 1:
            fatal = str((r or {}).get("fatal"))
            if fatal.startswith("timeout") or fatal.startswith("missing"):
                chk.inconc("known-replay:" + fatal.split(":")[0])
                continue
            line = "fatal:" + fatal[:200]
        else:
            line = l[0]
        if accepts(exp, line):
            continue  # no longer failing: a fixed finding suppresses nothing
        if line == e["reproducer"].get("observed_line"):
            chk.known_finding(e, "%s - %s: %s (expected %s)" % (e["id"], e["title"], line, exp[0]))
        else:
            chk.violation("known finding %s fails differently: %s gives %s, recorded %s, exact model says %s" % (
                e["id"], describe(c), line, e["reproducer"].get("observed_line"), exp[0]),
                {"kind": "c13-case", "case": c, "expected": exp[0], "observed": line})


def run(tier, seed):
    chk = core.Check("C13", tier, seed)
    st = State(chk)
    # the model checks itself first (CPython float()/repr()/decimal as independent references)
    try:
        selft = M.selftest(1500, seed + 1)
    except AssertionError as e:
        raise core.NoVerdict("model self-test failed: %r" % (e,))
    binary = build.ensure("bvh", "native")
    pool = runner.NodePool(6, timeout_ms=60000)
    if not pool.procs:
        chk.inconc("v8-unavailable")
    thorough = tier == "thorough"
    waves = 20 if thorough else 1
    nd, nt, npi, nr = (50000, 10000, 10000, 10000) if thorough else (40000, 9000, 9000, 8000)
    rng = Rng(seed, "c13", tier)
    try:
        with ProcessPoolExecutor(max_workers=MODEL_PROCS) as pex:
            for w in range(waves):
                cases = build_wave(rng.fork("wave", w), tier, w, nd, nt, npi, nr)
                run_cases(st, binary, pool, pex, cases, "c13")
                if len(chk.violations) >= 60:
                    break
            replay_known(st, binary, pool)
    finally:
        pool.close()
    chk.assumptions = [
        "vlib/models/numtext.py is the specification (self-test against CPython float()/repr()/decimal passed on %d doubles, %d texts)" % (selft["doubles"], selft["texts"]),
        "Number::toString last-digit latitude: any minimal-length digit string that rounds back is accepted (the closest one is only recommended by the spec)",
        "parseInt: radix 10 beyond 20 significant digits accepts both the exact and the zero-filled value; radices other than 2,4,8,10,16,32 are compared only "
        "when mathInt <= 2**53 (implementation-approximated beyond)",
        "toString(radix != 10) is checked on integral doubles only; beyond 2**53 in non power-of-two radices any minimal-length digit string that rounds back is accepted",
        "legacy octal / leading-zero decimal literals and BigInt literals are outside the workload",
        "inputs of the open findings' `avoid` classes are removed from the random stream (listed under avoided_classes); their exact reproducers are replayed instead",
    ]
    return chk.finish(
        evaluations=st.evals,
        distinct_nontrivial=st.nontrivial,
        rule="evaluation = one conversion result line compared with the exact model (and with V8); non-trivial = finite non-zero double in, or finite "
             "non-zero double out of a text; identical (operation, input, argument) triples are generated once per wave",
        samples=st.samples,
        extra={
            "op_histogram": {OP_DOC[o]: n for o, n in sorted(st.ops.items())},
            "class_histogram": dict(sorted(st.classes.items())),
            "digit_counts_seen": {"toFixed": len(st.digit_args["X"]), "toExponential": len(st.digit_args["E"]), "toPrecision": len(st.digit_args["P"]),
                                  "toString_radices": len(st.digit_args["R"]), "parseInt_radices": len(st.digit_args["I"])},
            "v8_second_opinion_lines": st.v8_checked,
            "accepted_through_spec_latitude": st.allowed_nonclosest,
            "accepted_through_spec_latitude_samples": st.allowed_samples,
            "excluded_by_spec_latitude": st.excluded,
            "avoided_classes": st.avoided,
            "inconclusive_samples": st.inconc_samples[:12],
            "violation_signatures": st.viol_sigs,
            "model_selftest": selft,
        },
        min_nontrivial=20000 if not thorough else 500000,
    )


def replay(path, seed):
    with open(path) as f:
        rep = json.load(f)
    if rep.get("kind") != "c13-case":
        print("replay kind not supported: %s" % rep.get("kind"))
        return 2
    c = rep["case"]
    binary = build.ensure("bvh", "native")
    jobs = [_job(0, [c])]
    rb = runner.run_bvh(binary, "session", jobs, "c13-replay", shards=1, timeout=30)
    rv = runner.run_node(jobs, "c13-replay", shards=1)
    exp = expected(c)
    bl = _lines(rb[0])
    vl = _lines(rv[0])
    b = bl[0] if bl else "fatal:%s" % (rb[0].get("fatal"),)
    v = vl[0] if vl else None
    print("case : %s" % describe(c))
    print("model: %s" % (exp[0],))
    print("boa  : %s" % b)
    print("v8   : %s" % v)
    if exp[0] is None:
        print("excluded by the model (spec latitude)")
        return 0
    if accepts(exp, b):
        print("boa agrees with the model")
        return 0
    if v is not None and not accepts(exp, v):
        print("inconclusive: V8 contradicts the model as well")
        return 2
    print("VIOLATION property=C13 replay=%s" % path)
    return 1
