"""C10 — garbage collection is unobservable to scripts and leaves nothing behind.

Hooks: boa_gc::verif::{set_stress, set_stress_random, set_collect_at, track_liveness, stats}.
(1) trace under forced collection schedules == trace with no forced collection (lines starting with `~`
    are weak observations, compared by their own rules);
(2) weak observations: a `~fin live:*` line (finalization callback for an object the program still
    holds) or a repeated `~fin` for one registration is a violation;
(3) liveness set: a `Gc` dereferenced after its box was swept panics inside the harness;
(4) census: after dropping the context(s) and collecting, the thread's heap holds exactly what it held
    before the context was created."""
import json

from .. import build, core, diffrun, gen_core, gen_gc, gen_shape, runner
from ..core import norm_hash
from ..rng import Rng


def strong(trace):
    return [l for l in (trace or []) if not l.startswith("~")]


def weak(trace):
    return [l for l in (trace or []) if l.startswith("~")]


def mkjob(src, gc=None, census=True, jid=None):
    j = {"id": jid, "steps": [{"op": "eval", "src": src}, {"op": "jobs"}, {"op": "gc"}, {"op": "jobs"}], "census": census}
    if gc:
        j["gc"] = gc
    return j


def check_weak(chk, src, trace, label, state):
    seen = {}
    for l in weak(trace):
        if l.startswith("~fin "):
            h = l[5:]
            seen[h] = seen.get(h, 0) + 1
            state["weak_fin"] = state.get("weak_fin", 0) + 1
            if h.startswith("live:") or h.startswith("unregistered:"):
                return "finalization callback fired for a target the program still holds / unregistered (%s) under %s" % (h, label)
            if seen[h] > 1:
                return "finalization callback fired twice for one registration (%s) under %s" % (h, label)
        elif l.startswith("~weakref "):
            state["weak_ref_" + l[9:]] = state.get("weak_ref_" + l[9:], 0) + 1
    return None


def run(tier, seed):
    chk = core.Check("C10", tier, seed)
    thorough = tier == "thorough"
    binary = build.ensure("bvh", "native")
    n_probe, n_core, n_shape = (3000, 6000, 1500) if thorough else (260, 500, 150)
    progs = []
    route_count = {}
    # every route at least once on its own, then random combinations
    for k, rt in enumerate(gen_gc.ROUTES):
        src, names = gen_gc.program(seed, k, [rt])
        progs.append(("probe:" + rt[0], src))
        route_count[rt[0]] = route_count.get(rt[0], 0) + 1
    for i in range(n_probe):
        src, names = gen_gc.program(seed, 1000 + i)
        progs.append(("probe", src))
        for n in names:
            route_count[n] = route_count.get(n, 0) + 1
    avoid = {"logical_assign_nonlexical"}
    for i in range(n_core):
        progs.append(("core", gen_core.generate_form(seed, i, avoid=avoid, label="c10")[0]))
    for i in range(n_shape):
        progs.append(("shape", gen_shape.generate(seed, 5000 + i)))
    # baseline: no forced collection
    base = runner.run_bvh(binary, "session", [mkjob(s, None, jid=i) for i, (_, s) in enumerate(progs)], "c10b", timeout=60)
    schedules = [("every1", {"every": 1, "track": True}), ("every2", {"every": 2, "track": True}), ("every3", {"every": 3}), ("every7", {"every": 7, "track": True}),
                 ("every64", {"every": 64}), ("random5", {"random": [5, seed + 1], "track": True}), ("random23", {"random": [23, seed + 7]})]
    jobs, meta = [], []
    rng = Rng(seed, "c10-sched")
    for i, (kind, src) in enumerate(progs):
        b = base[i]
        if diffrun.classify(b) != "ok":
            continue
        allocs = b.get("gc", {}).get("allocs", 0)
        if kind.startswith("probe:") or thorough:
            scheds = list(schedules)
        else:
            scheds = [schedules[0], schedules[(i % (len(schedules) - 1)) + 1]]
        # single-collection position sweep: exactly one forced collection after the k-th allocation
        if kind.startswith("probe") and allocs > 0:
            npos = allocs if (thorough and kind.startswith("probe:")) else min(allocs, 24 if kind.startswith("probe:") else 4)
            step = max(1, allocs // npos)
            for k in range(1 + rng.below(step), allocs + 1, step):
                scheds.append(("at%d" % k, {"at": k, "track": True}))
        for name, gc in scheds:
            jobs.append(mkjob(src, gc, jid=i))
            meta.append((i, name))
    res = runner.run_bvh(binary, "session", jobs, "c10s", timeout=120)
    distinct = set()
    sched_seen = {}
    forced_total = 0
    wstate = {}
    reported = 0
    census_checked = 0
    liveness_jobs = 0

    def report(what, i, name, gc):
        nonlocal reported
        if reported < 5:
            chk.violation(what, {"kind": "gc-js", "src": progs[i][1], "schedule": name, "gc": gc})
            reported += 1

    # census of the baseline runs
    for i, b in enumerate(base):
        cl = diffrun.classify(b)
        if cl.startswith("internal"):
            report("program fails internally even without forced collections: %s (C02's subject, reported here because it blocks the comparison)" % cl[:200], i, "none", None)
            continue
        if cl != "ok":
            chk.inconc("baseline:" + cl[:30])
            continue
        c = b.get("census")
        if c:
            census_checked += 1
            before = c["before"]
            if (c["boxes"], c["eph"], c["wm"], c["bytes"]) != (before["boxes"], before["eph"], before["wm"], before["bytes"]):
                report("after dropping the context and collecting, the heap still holds %d boxes / %d ephemerons / %d weak maps / %d bytes (before the context: %s)" % (
                    c["boxes"], c["eph"], c["wm"], c["bytes"], before), i, "none", None)
        err = check_weak(chk, progs[i][1], b.get("trace"), "no forced collection", wstate)
        if err:
            report(err, i, "none", None)
    for (i, name), r, j in zip(meta, res, jobs):
        b = base[i]
        cl = diffrun.classify(r)
        key = name if not name.startswith("at") else "single-collection-sweep"
        if cl.startswith("inconclusive"):
            chk.inconc(cl[:40])
            continue
        sched_seen[key] = sched_seen.get(key, 0) + 1
        if j["gc"].get("track"):
            liveness_jobs += 1
        if cl.startswith("internal"):
            report("under collection schedule %s the engine fails internally: %s" % (name, cl[:300]), i, name, j["gc"])
            continue
        forced = r.get("gc", {}).get("forced", 0)
        forced_total += forced
        if [s["c"] for s in r["steps"]] != [s["c"] for s in b["steps"]] or strong(r["trace"]) != strong(b["trace"]):
            report("trace under collection schedule %s differs from the trace without forced collections: %s" % (name, diffrun.describe(r, b)), i, name, j["gc"])
            continue
        err = check_weak(chk, progs[i][1], r.get("trace"), name, wstate)
        if err:
            report(err, i, name, j["gc"])
            continue
        c = r.get("census")
        if c:
            census_checked += 1
            before = c["before"]
            if (c["boxes"], c["eph"], c["wm"], c["bytes"]) != (before["boxes"], before["eph"], before["wm"], before["bytes"]):
                report("after dropping the context and collecting (schedule %s) the heap still holds %d boxes / %d ephemerons / %d weak maps / %d bytes (before: %s)" % (
                    name, c["boxes"], c["eph"], c["wm"], c["bytes"], before), i, name, j["gc"])
                continue
        if forced > 0:
            distinct.add(norm_hash(progs[i][1] + name))
    chk.assumptions = ["forced collections are triggered by the boa_verif hook inside Allocator::manage_state, the place where the collector's own threshold triggers them",
                       "WeakRef / FinalizationRegistry reports (lines starting with ~) are excluded from the equality and checked against the probe's own knowledge of what it still holds",
                       "the liveness set (use-after-sweep detector) is on for the schedules marked track; it is off in sanitizer runs"]
    return chk.finish(
        evaluations=len(jobs) + len(base), distinct_nontrivial=len(distinct),
        rule="retention probes (67 engine routes, each alone and in random combinations), core-grammar and shape programs, each run without forced collections and "
             "under schedules {every 1,2,3,7,64 allocations, two seeded random periods, one single collection swept over allocation positions}; non-trivial = at "
             "least one forced collection happened during the run and the comparison was conclusive; distinct by (source, schedule)",
        samples=[p[1][-500:] for p in progs[:2]],
        extra={"programs": len(progs), "routes_exercised": route_count, "runs_by_schedule": sched_seen, "forced_collections_observed": forced_total,
               "census_checks": census_checked, "runs_with_liveness_set": liveness_jobs, "weak_observations": wstate},
        min_nontrivial=100)


def replay(path, seed):
    with open(path) as f:
        rep = json.load(f)
    binary = build.ensure("bvh", "native")
    r = runner.run_bvh(binary, "session", [mkjob(rep["src"], None), mkjob(rep["src"], rep.get("gc"))], "c10r", shards=2, timeout=120)
    print("baseline :", diffrun.record(r[0]), r[0].get("census"))
    print("scheduled:", diffrun.record(r[1]), r[1].get("census"))
    bad = diffrun.classify(r[1]).startswith("internal") or strong(r[0].get("trace")) != strong(r[1].get("trace"))
    for x in r:
        c = x.get("census")
        if c and (c["boxes"], c["eph"], c["wm"], c["bytes"]) != tuple(c["before"][k] for k in ("boxes", "eph", "wm", "bytes")):
            bad = True
    if bad:
        print("VIOLATION property=C10 replay=%s" % path)
        return 1
    return 0
