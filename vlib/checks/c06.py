"""C06 — inline caches are semantically transparent (twin: caches on / off; V8 as second opinion on reduced cases)."""
from .. import core, diffrun, gen_core, gen_shape
from . import twin_common


def make_job(src, cfg):
    return diffrun.job(src, cfg=cfg)


def run(tier, seed):
    chk = core.Check("C06", tier, seed)
    thorough = tier == "thorough"
    n_shape, n_core = (40000, 8000) if thorough else (2500, 800)
    eng = diffrun.Engines(tag="c06", node=False)
    try:
        progs = [gen_shape.generate(seed, i) for i in range(n_shape)]
        progs += [gen_core.generate(seed, i, avoid=set(), label="c06")[0] for i in range(n_core)]

        def variants(i):
            return [("ic_off", {"ic_off": True})]
        # base = caches on; count IC hits as evidence that the sites were warm
        out = twin_common.run_twin(chk, eng, progs, {}, variants, make_job, lambda name: "inline caches change behaviour")
        chk.assumptions = ["the uncached lookup (InlineCache::get always missing, ::set a no-op) is the reference; its own correctness is C01/C14's subject"]
        # evidence: how often the caches were actually hit in the base configuration (measured on a sample)
        sample = eng.boa([make_job(p, {}) for p in progs[:200]])
        hits = sum(r.get("ic_hits", 0) for r in sample if r)
        sample_off = eng.boa([make_job(p, {"ic_off": True}) for p in progs[:50]])
        hits_off = sum(r.get("ic_hits", 0) for r in sample_off if r)
        if hits == 0 or hits_off != 0:
            raise core.NoVerdict("IC switch ineffective or caches never hit: hits on=%d off=%d" % (hits, hits_off))
        return chk.finish(
            evaluations=out["jobs"], distinct_nontrivial=len(out["distinct"]),
            rule="history from the `shape` profile: a pool of objects/prototypes/globals, 11 access-site functions executed on every pool object after each of 5..35 "
                 "mutations (add, delete, reconfigure data<->accessor, writable/enumerable, freeze/seal, setPrototypeOf, prototype mutation, global define/delete, "
                 "array length), plus core-grammar programs; evaluated with inline caches on and off; non-trivial = printed at least one line; distinct by source hash",
            samples=[p[-700:] for p in progs[:2]],
            extra={"programs": len(progs), "candidates": out["candidates"], "ic_hits_in_200_sample_programs": hits, "ic_hits_with_switch_off": hits_off},
            min_nontrivial=50)
    finally:
        eng.close()


def replay(path, seed):
    return twin_common.replay_twin(path, "C06", make_job)
