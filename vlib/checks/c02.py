"""C02 — no input makes the engine fail internally (no panic, abort, EnginePanic or debug-assertion failure).

Every evaluation runs inside catch_unwind on its own thread in a supervised process (journal), so a
panic, a process death (SIGSEGV, SIGABRT, stack overflow, sanitizer abort) and an `EnginePanic` error
are all observed and attributed to the input that caused them. Allowed outcomes: value, JavaScript
exception, RuntimeLimit error."""
import json
import re

from .. import build, core, diffrun, gen_core, gen_gc, gen_opt, gen_priv, gen_shape, mutate, reduce as reducer, runner
from ..core import norm_hash
from ..rng import Rng


def site(fatal):
    """dedup key of an internal failure: panic location (file:line) or signal"""
    m = re.match(r"panic:([^:]+:\d+)", fatal)
    if m:
        return m.group(1)
    return fatal[:40]


def session(inputs, limits=None):
    steps = []
    for b in inputs:
        steps.append({"op": "eval", "src_hex": b.hex(), "origin": "reader"})
        steps.append({"op": "jobs"})
    j = {"steps": steps}
    if limits:
        j["limits"] = limits
    return j


def run(tier, seed, flavour="native"):
    chk = core.Check("C02", tier, seed)
    thorough = tier == "thorough"
    binary = build.ensure("bvh", flavour)
    rng = Rng(seed, "c02")
    n_valid, n_tok, n_byte, n_rand = (40000, 60000, 60000, 20000) if thorough else (3000, 5000, 5000, 2000)
    valid = []
    for i in range(n_valid):
        k = i % 12
        if k < 7:
            valid.append(gen_core.generate_form(seed, i, avoid=set(), features={"eval": 3, "with": 2}, label="c02")[0])
        elif k < 9:
            valid.append(gen_opt.generate(seed, i))
        elif k < 11:
            valid.append(gen_shape.generate(seed, i))
        else:
            valid.append(gen_gc.program(seed, i)[0])
    # private names in every syntactic position (their early errors are what the compiler's `unreachable!`s rely on)
    valid += [gen_priv.generate(seed, i) for i in range(n_valid // 2)]
    snippets = mutate.harvest_repo_snippets()
    pool = valid + snippets
    inputs = [("valid", v.encode("utf8")) for v in valid] + [("repo-snippet", s.encode("utf8", "replace")) for s in snippets]
    for i in range(n_tok):
        inputs.append(("token-mutant", mutate.token_mutant(rng, pool[rng.below(len(pool))]).encode("utf8", "replace")))
    for i in range(n_byte):
        inputs.append(("byte-mutant", mutate.byte_mutant(rng, pool[rng.below(len(pool))].encode("utf8", "replace")[:4000])))
    for i in range(n_rand):
        inputs.append(("random", mutate.random_bytes(rng, 1 + rng.below(300))))
    # the quantifier bounds syntactic nesting at 64
    kept, skipped = [], 0
    for origin, b in inputs:
        if mutate.nesting(b.decode("utf8", "replace")) > 64:
            skipped += 1
        else:
            kept.append((origin, b))
    inputs = kept
    order = rng.shuffle(list(range(len(inputs))))
    jobs, members = [], []
    # fresh context per input for a third, reused contexts (20 inputs each) for the rest; a quarter under tiny limits
    k = 0
    while k < len(order):
        group = 1 if (len(jobs) % 3 == 0) else 20
        idxs = order[k:k + group]
        k += group
        limits = None
        if len(jobs) % 4 == 1:
            limits = {"loop": rng.choice([0, 1, 5, 50]), "recursion": rng.choice([3, 8, 40]), "stack": rng.choice([64, 128, 512])}
        j = session([inputs[i][1] for i in idxs], limits)
        j["id"] = len(jobs)
        jobs.append(j)
        members.append(idxs)
    res = runner.run_bvh(binary, "session", jobs, "c02", timeout=60,
                         env={"ASAN_OPTIONS": "halt_on_error=1:detect_leaks=0:exitcode=66"} if flavour == "asan" else None)
    outcomes = {}
    by_origin = {}
    sites = {}
    distinct = set()
    evaluated = 0
    for j, idxs, r in zip(jobs, members, res):
        f = r.get("fatal")
        if f:
            f = str(f)
            if f.startswith(("panic", "died")):
                sites.setdefault(site(f), []).append((idxs, f, r.get("stderr", ""), j.get("limits")))
            else:
                chk.inconc("session:" + f[:30])
            continue
        for n, i in enumerate(idxs):
            st = r["steps"][2 * n]
            sj = r["steps"][2 * n + 1]
            evaluated += 1
            origin = inputs[i][0]
            for c in (st["c"], sj["c"]):
                if c.startswith("enginepanic"):
                    sites.setdefault("EnginePanic:" + c[12:60], []).append(([i], c, "", j.get("limits")))
            oc = st["c"].split(":")[0]
            outcomes[oc] = outcomes.get(oc, 0) + 1
            bo = by_origin.setdefault(origin, {})
            bo[oc] = bo.get(oc, 0) + 1
            distinct.add(norm_hash(inputs[i][1].hex()))
    # attribute each failing session to one input and reduce it
    known_sites = {k.get("site"): k for k in chk.open_known if k.get("site")}
    reported = 0
    for s, lst in sites.items():
        idxs, f, stderr, limits = lst[0]
        culprit = None
        if len(idxs) == 1:
            culprit = idxs[0]
        else:
            # re-run the session's inputs one by one, then cumulatively if none fails alone
            single = runner.run_bvh(binary, "session", [session([inputs[i][1]], limits) for i in idxs], "c02s", timeout=60)
            for i, r in zip(idxs, single):
                ff = str(r.get("fatal") or "")
                if ff.startswith(("panic", "died")) or any(x["c"].startswith("enginepanic") for x in r.get("steps", [])):
                    culprit = i
                    break
        if s in known_sites:
            chk.known_finding(known_sites[s], "%s — internal failure at %s (%d sessions)" % (known_sites[s]["title"], s, len(lst)))
            continue
        if reported >= 6:
            chk.inconc("further-failure-sites-not-reported")
            continue
        reported += 1
        if culprit is None:
            chk.violation("a sequence of evaluations on one context fails internally at %s (%d sessions); no single input reproduces it alone: %s" % (s, len(lst), f[:300]),
                          {"kind": "session", "inputs_hex": [inputs[i][1].hex() for i in idxs], "site": s})
            continue
        text = inputs[culprit][1].decode("utf8", "replace")

        def still(srcs, s=s):
            rr = runner.run_bvh(binary, "session", [session([x.encode("utf8", "replace")], limits) for x in srcs], "c02r", timeout=20)
            out = []
            for r in rr:
                ff = str(r.get("fatal") or "")
                out.append(ff.startswith(("panic", "died")) and site(ff) == s or any(x["c"].startswith("enginepanic") for x in r.get("steps", [])))
            return out
        red = text
        if text.encode("utf8", "replace") == inputs[culprit][1]:
            red = reducer.reduce(text, still, budget_s=90)
        chk.violation("evaluating a %s input fails internally at %s: %s -- reduced input: %s" % (inputs[culprit][0], s, f[:200], red[:300]),
                      {"kind": "input", "src_hex": inputs[culprit][1].hex(), "reduced": red, "site": s, "limits": limits, "stderr": stderr[-1500:]})
    # open findings with a crash reproducer: reported while they still crash, silent once they no longer do
    for k in chk.open_known:
        rep = k.get("reproducer", {})
        if rep.get("kind") != "crash":
            continue
        rr = runner.run_bvh(binary, "session", [session([rep["src"].encode("utf8")], None)], "c02k", shards=1, timeout=60)[0]
        ff = str(rr.get("fatal") or "")
        if ff.startswith(("panic", "died")):
            chk.known_finding(k, "%s: `%s` -> %s" % (k["title"], rep["src"][:120], ff[:60]))
    chk.assumptions = ["inputs whose bracket nesting exceeds 64 are outside the quantifier and skipped (%d skipped)" % skipped,
                       "memory exhaustion and watchdog hits are inconclusive",
                       "flavour: %s (debug assertions and overflow checks on)" % flavour]
    return chk.finish(
        evaluations=evaluated, distinct_nontrivial=len(distinct),
        rule="inputs: generated programs of every profile (core incl. eval/with, opt, shape, gc, private-name placements), repository test snippets, token- and byte-level mutants, random bytes; fed as "
             "bytes through a 1-byte-at-a-time reader to Context::eval followed by run_jobs; a third on fresh contexts, the rest 20 per context; a quarter under tiny limits; "
             "non-trivial = an evaluation that ended in an allowed outcome; distinct by input hash",
        samples=[inputs[order[0]][1].decode("utf8", "replace")[:200], inputs[order[1]][1].hex()[:160]],
        extra={"sessions": len(jobs), "outcomes": outcomes, "outcomes_by_origin": by_origin, "internal_failure_sites": {k: len(v) for k, v in sites.items()},
               "skipped_for_nesting": skipped},
        min_nontrivial=500)


def replay(path, seed):
    with open(path) as f:
        rep = json.load(f)
    binary = build.ensure("bvh", "native")
    if rep.get("kind") == "session":
        j = session([bytes.fromhex(h) for h in rep["inputs_hex"]])
    else:
        j = session([(rep.get("reduced") or "").encode("utf8", "replace") if rep.get("reduced") else bytes.fromhex(rep["src_hex"])], rep.get("limits"))
    r = runner.run_bvh(binary, "session", [j], "c02r", shards=1, timeout=60)[0]
    print(r.get("fatal"), [s["c"][:60] for s in r.get("steps", [])][:6])
    f = str(r.get("fatal") or "")
    if f.startswith(("panic", "died")) or any(s["c"].startswith("enginepanic") for s in r.get("steps", [])):
        print("VIOLATION property=C02 replay=%s" % path)
        return 1
    return 0
