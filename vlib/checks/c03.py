"""C03 — every compiled code block is well-formed on all of its paths.

The running engine dumps every code block it creates a frame for (and, recursively, every function
constant inside it) through the `boa_verif` hook; `vlib/monitors/codeblock.py` checks each dumped
block over all of its control-flow paths. The checker's opcode effect table is validated on every
run against depth changes observed in the VM for every executed transition."""
import hashlib
import json

from .. import build, core, diffrun, gen_core, gen_opt, runner
from ..monitors import codeblock


def block_hash(d):
    h = hashlib.sha256()
    for i in d["instructions"]:
        h.update(i["args"].encode())
    h.update(json.dumps(d["handlers"]).encode())
    return h.hexdigest()[:16]


def analyse(results, jobs, chk, agg, report=True):
    for j, r in zip(jobs, results):
        cl = diffrun.classify(r)
        if cl.startswith("inconclusive"):
            chk.inconc(cl[:40])
            continue
        if cl.startswith("internal") and not r.get("dumps"):
            chk.inconc("internal-failure-without-dump (C02's subject)")
            continue
        by_id = {}
        for s in r.get("depth_samples", []):
            by_id.setdefault(s[0], []).append((s[1], s[2], tuple(s[3:])))
        for d in r.get("dumps", []):
            agg["blocks"] += 1
            bh = block_hash(d)
            F, state = codeblock.check_block(d)
            TF, cnt = codeblock.check_transitions(d, state, by_id.get(d["id"], []))
            agg["transitions"] += cnt["normal"]
            agg["exception_edges"] += cnt["exception"]
            agg["exception_surplus"] += cnt["exception_surplus"]
            for op, n in cnt["ops"].items():
                agg["validated_ops"][op] = agg["validated_ops"].get(op, 0) + n
            if bh not in agg["distinct"]:
                agg["distinct"].add(bh)
                for i in d["instructions"]:
                    agg["opcodes"][i["op"]] = agg["opcodes"].get(i["op"], 0) + 1
                if len(d["handlers"]) > 0:
                    agg["with_handlers"] += 1
            for f in F + TF:
                agg["findings"] += 1
                if report and agg["reported"] < 5:
                    agg["reported"] += 1
                    chk.violation("code block `%s` (%d instructions) compiled from `%s...`: %s" % (
                        d["name"], len(d["instructions"]), j["steps"][0]["src"][:160].replace("\n", " "), repr(f)),
                        {"kind": "js-dump", "src": j["steps"][0]["src"], "block": d["name"], "finding": repr(f)})


def mkjob(src, i):
    return {"id": i, "dump": True, "samples": True, "steps": [{"op": "eval", "src": src}, {"op": "jobs"}]}


def known(chk, binary):
    for k in chk.open_known:
        rep = k.get("reproducer", {})
        if rep.get("kind") != "js":
            continue
        r = runner.run_bvh(binary, "session", [mkjob(rep["src"], 0)], "c03k", shards=1)[0]
        kinds = set()
        surplus = 0
        by_id = {}
        for s in r.get("depth_samples", []):
            by_id.setdefault(s[0], []).append((s[1], s[2], tuple(s[3:])))
        for d in r.get("dumps", []):
            if d["name"] in ("print", "show", "__show", "errClass", "__tick"):
                continue
            F, state = codeblock.check_block(d)
            TF, cnt = codeblock.check_transitions(d, state, by_id.get(d["id"], []))
            surplus += cnt["exception_surplus"]
            for f in F + TF:
                kinds.add(f.kind + (":binding" if "merge" == f.kind and _binding_merge(f) else ""))
        want = rep.get("c03_expect")
        if want == "surplus" and surplus > 0 and not kinds:
            chk.known_finding(k, "%s: `%s` — %d exception edges reached their handler with surplus stack entries" % (k["title"], rep["src"][:80], surplus))
        elif want and want != "surplus" and want in kinds and kinds <= {want}:
            chk.known_finding(k, "%s: `%s` — %s" % (k["title"], rep["src"][:80], want))
        elif kinds:
            chk.violation("known finding %s now shows %s" % (k["id"], sorted(kinds)), {"kind": "js-dump", "src": rep["src"]})


def _binding_merge(f):
    import re
    m = re.search(r"depths \((\d+), (\d+), (\d+)\) and \((\d+), (\d+), (\d+)\)", f.detail)
    return bool(m) and m.group(1) == m.group(4) and m.group(3) == m.group(6) and m.group(2) != m.group(5)


def run(tier, seed):
    chk = core.Check("C03", tier, seed)
    thorough = tier == "thorough"
    binary = build.ensure("bvh", "native")
    n_core, n_opt = (60000, 20000) if thorough else (1800, 600)
    agg = {"blocks": 0, "distinct": set(), "opcodes": {}, "transitions": 0, "exception_edges": 0, "exception_surplus": 0,
           "validated_ops": {}, "findings": 0, "reported": 0, "with_handlers": 0}
    avoid = set(diffrun.AVOID_V8) - {"fn_to_string", "v8_accessor_spread_order", "stmt_completion_value", "error_to_string", "v8_double_key_coercion"}
    batch = 4000
    done = 0
    samples = []
    features = {"eval": 3, "with": 2}
    while done < n_core + n_opt:
        jobs = []
        for k in range(done, min(done + batch, n_core + n_opt)):
            if k < n_core:
                src = gen_core.generate_form(seed, k, avoid=avoid, features=features if k % 4 < 2 else None, label="c03")[0]
            else:
                src = gen_opt.generate(seed, k)
            jobs.append(mkjob(src, k))
        if not samples:
            samples = [j["steps"][0]["src"][:400] for j in jobs[:3]]
        res = runner.run_bvh(binary, "session", jobs, "c03", timeout=30)
        analyse(res, jobs, chk, agg)
        done += len(jobs)
    known(chk, binary)
    unvalidated = sorted(op for op in agg["opcodes"] if op not in agg["validated_ops"])
    chk.assumptions = [
        "trusted base: the opcode effect table in vlib/monitors/codeblock.py (validated on this run against %d VM transitions; opcodes seen in dumps but never executed: %s)" % (agg["transitions"], unvalidated[:40]),
        "paths inside try/finally are distinguished by the compiler's own jump-table index register (a pending `return` value is parked on the value stack by design)",
        "exception edges are assumed to restore the protected region's entry depths; surplus entries on those edges are open finding K4, deficits are violations",
        "only blocks the workload caused to be compiled and entered (or contained in an entered block) are covered",
    ]
    return chk.finish(
        evaluations=agg["blocks"], distinct_nontrivial=len(agg["distinct"]),
        rule="every code block dumped by the engine while running generated programs (core grammar incl. eval/with, opt profile); each block is checked over all "
             "CFG paths; distinct = hash of its decoded instruction/handler list; non-trivial = every distinct block",
        samples=samples,
        extra={"traces_validated_against_impl": agg["transitions"], "exception_edges_observed": agg["exception_edges"],
               "exception_edges_with_surplus_entries": agg["exception_surplus"], "blocks_with_handlers": agg["with_handlers"],
               "opcode_histogram_distinct_blocks": agg["opcodes"], "opcodes_validated_by_execution": len(agg["validated_ops"]),
               "unvalidated_opcodes": unvalidated, "structural_findings": agg["findings"]},
        min_nontrivial=200)


def replay(path, seed):
    with open(path) as f:
        rep = json.load(f)
    chk = core.Check("C03", "quick", seed)
    binary = build.ensure("bvh", "native")
    agg = {"blocks": 0, "distinct": set(), "opcodes": {}, "transitions": 0, "exception_edges": 0, "exception_surplus": 0,
           "validated_ops": {}, "findings": 0, "reported": 0, "with_handlers": 0}
    jobs = [mkjob(rep["src"], 0)]
    analyse(runner.run_bvh(binary, "session", jobs, "c03r", shards=1), jobs, chk, agg)
    return 1 if agg["findings"] else 0
