"""C11 — string behaviour depends only on the code-unit sequence.

Real boa_string driven by strmon (harness/strmon): for a code-unit sequence the same string is built
through every public constructor; every operation on every construction is compared with a naive
model on a plain Vec<u16>, and every pair of constructions with each other. Run natively
(exhaustive over a 12-symbol alphabet + random), under AddressSanitizer and under Miri (tree borrows).

Open findings (known/c11_findings.json) name `avoid` flags: comparisons of exactly those shapes are
routed by strmon to a separately counted quarantine sub-stream, where a mismatch is attributed to the
finding only if it is exactly what the recorded defective code computes; anything else is a violation.
Each open finding's exact reproducer is replayed on every run."""
import json
import os
import subprocess
from concurrent.futures import ThreadPoolExecutor

from .. import build, core
from ..runner import NCPU, VERIF

KNOWN_FILE = os.path.join(VERIF, "known", "c11_findings.json")
CRATE = build.crate_dir("strmon")
MIRI_ENV = {"CARGO_TARGET_DIR": build.target_dir_for("strmon", "miri"), "MIRIFLAGS": "-Zmiri-tree-borrows",
            "CARGO_NET_OFFLINE": "true"}
MIRI_CMD = ["cargo", "+nightly", "miri", "run", "--offline", "-q", "--"]
ASAN_ENV = {"ASAN_OPTIONS": "halt_on_error=1:detect_leaks=1:exitcode=66"}


def _run(cmd, env=None, timeout=3600, cwd=None):
    e = dict(os.environ)
    if env:
        e.update(env)
    try:
        p = subprocess.run(cmd, stdout=subprocess.PIPE, stderr=subprocess.PIPE, env=e, timeout=timeout, cwd=cwd)
    except subprocess.TimeoutExpired:
        return None, "", "timeout"
    return p.returncode, p.stdout.decode("utf8", "replace"), p.stderr.decode("utf8", "replace")


def _parse(out):
    for line in reversed(out.strip().splitlines()):
        line = line.strip()
        if line.startswith("{"):
            try:
                return json.loads(line)
            except Exception:
                return None
    return None


def open_findings(chk):
    """open C11 entries: known/c11_findings.json plus whatever the central file already carries"""
    found = {}
    try:
        with open(KNOWN_FILE) as f:
            for k in json.load(f).get("findings", []):
                if k.get("property") == "C11" and k.get("status") == "open":
                    found[k["id"]] = k
    except FileNotFoundError:
        pass
    for k in chk.open_known:
        found.setdefault(k["id"], k)
    return [found[i] for i in sorted(found)]


class Agg:
    SUM_MAPS = ("ops", "constructor_families", "representation_classes", "representation_pairs")

    def __init__(self):
        self.strings = 0
        self.distinct = 0
        self.constructions = 0
        self.max_len = 0
        self.len_hist = []
        self.maps = {k: {} for k in self.SUM_MAPS}
        self.str_eq_main = 0
        self.quarantine = {"checks": 0, "agree": 0, "mismatch_str_eq_latin1_nonascii": 0, "mismatch_str_eq_utf16_length": 0}
        self.q_samples = []
        self.samples = []
        self.enumerated = {}
        self.by_tool = {}

    def add(self, tool, d):
        self.strings += d.get("strings", 0)
        self.distinct += d.get("distinct_nontrivial", 0)
        self.constructions += d.get("constructions", 0)
        self.max_len = max(self.max_len, d.get("max_len", 0))
        for i, v in enumerate(d.get("len_hist", [])):
            while len(self.len_hist) <= i:
                self.len_hist.append(0)
            self.len_hist[i] += v
        for name in self.SUM_MAPS:
            m = self.maps[name]
            for k, v in d.get(name, {}).items():
                m[k] = m.get(k, 0) + v
        self.str_eq_main += d.get("str_eq_main_stream", 0)
        q = d.get("quarantine", {})
        for k in self.quarantine:
            self.quarantine[k] += q.get(k, 0)
        for s in q.get("samples", []):
            if len(self.q_samples) < 6 and s not in self.q_samples:
                self.q_samples.append(s)
        if len(self.samples) < 6:
            self.samples += d.get("samples", [])[:1]
        t = self.by_tool.setdefault(tool, {"processes": 0, "strings": 0, "constructions": 0})
        t["processes"] += 1
        t["strings"] += d.get("strings", 0)
        t["constructions"] += d.get("constructions", 0)
        if d.get("mode") == "exhaustive" and not tool.startswith("miri"):
            a = d.get("args", [])
            key = "%s len<=%s" % (tool.split("-")[0], a[1] if len(a) > 1 else "?")
            self.enumerated[key] = max(self.enumerated.get(key, 0), d.get("enumerated", 0))


def _miri_excerpt(err):
    lines = err.splitlines()
    for i, l in enumerate(lines):
        if l.startswith("error"):
            return "\n".join(lines[i:i + 14])
    return "\n".join(lines[-20:])


def _handle(chk, tool, cmd, rc, out, err, agg, avoid):
    """classify one strmon process result; returns the parsed JSON (or None)"""
    kind = tool.split("-")[0]
    d = _parse(out) if out else None
    if rc is None:
        chk.inconc("%s:watchdog" % kind)
        return None
    san = None
    if "ERROR: AddressSanitizer" in err or "LeakSanitizer" in err:
        san = "asan"
    if kind == "miri" and ("Undefined Behavior" in err or "error: memory leaked" in err or
                           ("error:" in err and "unsupported operation" not in err)):
        san = "miri"
    args = [a for a in cmd[cmd.index("--") + 1:]] if "--" in cmd else cmd[1:]
    if d is not None and d.get("violation"):
        v = d["violation"]
        chk.violation("[%s] %s on units [%s] built by %s: expected %s, observed %s" % (
            kind, v["op"], v["hex"], ", ".join(v["constructors"]) or "-", v["expected"], v["observed"]),
            {"kind": "strmon", "tool": kind, "hex": v["hex"], "others": v.get("others", []), "avoid": avoid,
             "op": v["op"], "constructors": v["constructors"], "args": args})
        return d
    if rc == 0 and san is None:
        if d is None:
            chk.inconc("%s:no-output" % kind)
        else:
            agg.add(tool, d)
        return d
    if kind == "miri" and san is None and ("unsupported operation" in err or "can't call foreign function" in err):
        chk.inconc("miri:unsupported")
        return d
    # abort / signal / sanitizer report / Miri UB: the process arguments reproduce it (deterministic)
    tail = _miri_excerpt(err) if kind == "miri" else "\n".join(err.strip().splitlines()[-25:])
    chk.violation("[%s] process failed rc=%s: %s" % (kind, rc, tail[-1800:]),
                  {"kind": "strmon-process", "tool": kind, "args": args, "avoid": avoid})
    return d


def replay_known(chk, native, avoid_all, miri_ok):
    """replays the exact reproducer of every open finding (returns the miri jobs to run in the pool)"""
    miri_jobs = []
    for k in open_findings(chk):
        rep = k.get("reproducer", {})
        if rep.get("kind") != "strmon-replay":
            continue
        if rep.get("tool") == "miri":
            if miri_ok:
                # quarantine run: every avoid flag except the finding's own
                flags = [a for a in avoid_all if a not in k.get("avoid", [])]
                miri_jobs.append((k, MIRI_CMD + ["replay", rep["hex"], "--lite"] + (["--avoid", ",".join(flags)] if flags else [])))
            continue
        rc, out, err = _run([native, "replay", rep["hex"], "--avoid", ",".join(avoid_all)], timeout=300)
        d = _parse(out)
        if d is None or rc not in (0, 1):
            chk.violation("known-finding reproducer %s: strmon failed rc=%s %s" % (k["id"], rc, err[-400:]),
                          {"kind": "strmon", "tool": "native", "hex": rep["hex"], "others": [], "avoid": avoid_all})
            continue
        if d.get("violation"):
            v = d["violation"]
            chk.violation("known-finding reproducer %s fails differently: %s expected %s observed %s" % (k["id"], v["op"], v["expected"], v["observed"]),
                          {"kind": "strmon", "tool": "native", "hex": rep["hex"], "others": [], "avoid": avoid_all})
            continue
        n = d.get("quarantine", {}).get(rep["quarantine_key"], 0)
        if n > 0:
            sample = next((s for s in d["quarantine"].get("samples", [])), "")
            chk.known_finding(k, "%s — %d quarantined comparisons on units [%s] give the recorded wrong answer (%s)" % (k["title"], n, rep["hex"], sample[:140]))
        # n == 0: no longer failing -> nothing to report
    return miri_jobs


def judge_known_miri(chk, k, cmd, rc, out, err, avoid_all):
    rep = k["reproducer"]
    if rc is None:
        chk.inconc("miri:watchdog")
        return
    d = _parse(out)
    if rc == 0 and d is not None and not d.get("violation"):
        return  # no longer failing
    if all(s in err for s in rep.get("signature_all", [])):
        line = next((l for l in err.splitlines() if l.startswith("error: Undefined Behavior")), "")
        chk.known_finding(k, "%s — Miri on the reproducer: %s" % (k["title"], line[:200]))
        return
    if d is not None and d.get("violation"):
        v = d["violation"]
        what = "%s expected %s observed %s" % (v["op"], v["expected"], v["observed"])
    else:
        what = _miri_excerpt(err)[-1200:]
    chk.violation("known-finding reproducer %s fails differently under Miri: %s" % (k["id"], what),
                  {"kind": "strmon-process", "tool": "miri", "args": cmd[len(MIRI_CMD):], "avoid": avoid_all})


def run(tier, seed):
    chk = core.Check("C11", tier, seed)
    thorough = tier == "thorough"
    known = open_findings(chk)
    avoid = sorted({a for k in known for a in k.get("avoid", [])})
    av = ["--avoid", ",".join(avoid)] if avoid else []
    native = build.ensure("strmon", "native")
    agg = Agg()
    tasks = []
    # ---- native: exhaustive over the 12-symbol alphabet, random strings up to 64 units
    ex_len = 4 if thorough else 3
    for s in range(NCPU):
        tasks.append(("native-exhaustive", [native, "exhaustive", str(ex_len), str(s), str(NCPU)] + av, None))
    n_rand = 5000 if thorough else 350
    for s in range(NCPU):
        tasks.append(("native-random", [native, "random", str(seed * 1000 + s), str(n_rand), "64"] + av, None))
    # ---- AddressSanitizer flavour
    asan = None
    try:
        asan = build.ensure("strmon", "asan")
    except build.BuildError:
        chk.inconc("asan:build-failed")
    if asan:
        a_len, a_sh = (3, NCPU) if thorough else (2, NCPU // 2)
        for s in range(a_sh):
            tasks.append(("asan-exhaustive", [asan, "exhaustive", str(a_len), str(s), str(a_sh)] + av, ASAN_ENV))
        a_n = 1000 if thorough else 60
        for s in range(NCPU if thorough else NCPU // 2):
            tasks.append(("asan-random", [asan, "random", str(seed * 1000 + 500 + s), str(a_n), "64"] + av, ASAN_ENV))

    def work(t):
        tool, cmd, env = t
        return t, _run(cmd, env=env, timeout=2400)

    with ThreadPoolExecutor(max_workers=NCPU) as ex:
        for (tool, cmd, env), (rc, out, err) in ex.map(work, tasks):
            _handle(chk, tool, cmd, rc, out, err, agg, avoid)

    # ---- Miri (tree borrows): seeded random sample + thinned exhaustive stream, reduced workload (--lite)
    # one serial run first: builds the crate for Miri once and tells whether Miri works at all
    # (an empty shard: start-up, the interned-string table, the report)
    probe = MIRI_CMD + ["exhaustive", "0", "1", "2", "--lite"] + av
    rc, out, err = _run(probe, env=MIRI_ENV, cwd=CRATE, timeout=1800)
    miri_ok = rc == 0 and _parse(out) is not None
    if not miri_ok:
        if rc is not None and ("Undefined Behavior" in err or (_parse(out) or {}).get("violation")):
            _handle(chk, "miri-probe", probe, rc, out, err, agg, avoid)
        else:
            chk.inconc("miri:unavailable")
    known_miri = replay_known(chk, native, avoid, miri_ok)
    miri_runs = 0
    if miri_ok:
        nm = (96 if thorough else 8) - len(known_miri)
        thin = 79 if not thorough else 52  # 157 strings of length <= 2 over the alphabet, distinct shards per process
        mtasks = []
        for s in range(nm):
            if s % 2 == 0:
                cnt, mx = ("3", "12") if s % 4 == 0 else ("2", "24")
                mtasks.append((None, MIRI_CMD + ["random", str(seed * 1000 + 900 + s), cnt, mx, "--lite"] + av))
            else:
                shard = (seed * 7 + s // 2) % thin
                mtasks.append((None, MIRI_CMD + ["exhaustive", "2", str(shard), str(thin), "--lite"] + av))
        mtasks = [(k, cmd) for k, cmd in known_miri] + mtasks

        def mwork(t):
            k, cmd = t
            return t, _run(cmd, env=MIRI_ENV, cwd=CRATE, timeout=1500)

        with ThreadPoolExecutor(max_workers=NCPU) as ex:
            for (k, cmd), (rc, out, err) in ex.map(mwork, mtasks):
                if k is not None:
                    judge_known_miri(chk, k, cmd, rc, out, err, avoid)
                    continue
                _handle(chk, "miri-exhaustive" if "exhaustive" in cmd else "miri-random", cmd, rc, out, err, agg, avoid)
                miri_runs += 1

    chk.assumptions = [
        "the Vec<u16> model in harness/strmon/src/model.rs (ECMA-262 CodePointAt, StringIndexOf, WhiteSpace + LineTerminator, code-unit order) is the specification",
        "to_number is compared with the model only on a safe subset (white space, Infinity, plain decimals of <= 15 digits, characters that cannot occur in a numeric literal); everywhere else only agreement between representations is demanded (exact parsing is C13)",
        "refcount conservation assumes a slice holds exactly one reference on the string it was cut from",
        "avoid flags of open findings (%s) route exactly those shapes to the quarantine sub-stream; they are still executed and counted" % (", ".join(avoid) or "none"),
        "under Miri the workload is reduced (--lite): every construction is built, read, hashed, sliced, cloned and dropped, parameter sweeps run on one construction per representation class",
    ]
    ops = agg.maps["ops"]
    return chk.finish(
        evaluations=agg.strings,
        distinct_nontrivial=agg.distinct,
        rule="case = one code-unit sequence built through every public constructor of boa_string and put through every operation; "
             "non-trivial = non-empty and present in >= 2 distinct representation classes (kind x encoding as reported by JsString::debug_info); distinct by content per process",
        samples=agg.samples,
        extra={
            "exhaustive": False,
            "exhaustive_subspace": {"exhaustive": True, "alphabet": ["a", "0", " ", "0x7F", "0x80", "0xE9", "0xFF", "0x100", "0x3C0", "0xD800", "0xDC00", "0xFFFF"],
                                    "max_length_native": ex_len, "strings_enumerated": agg.enumerated,
                                    "note": "every string over the alphabet up to the length (all shards run natively and under ASan; Miri takes a thinned sample of the length <= 2 enumeration, see strings_by_tool), every constructor, every pair, every operation with exhaustive parameters"},
            "strings_by_tool": agg.by_tool,
            "constructions_total": agg.constructions,
            "length_histogram": agg.len_hist,
            "max_length": agg.max_len,
            "operation_checks": ops,
            "operation_checks_total": sum(ops.values()),
            "constructor_families": agg.maps["constructor_families"],
            "representation_classes": agg.maps["representation_classes"],
            "representation_pairs_compared": agg.maps["representation_pairs"],
            "main_stream": {"str_eq_comparisons": agg.str_eq_main, "avoid": avoid},
            "quarantine_stream": dict(agg.quarantine, samples=agg.q_samples,
                                      note="PartialEq<str>/<&str> comparisons of the shapes of open findings; a mismatch counts here only if it is exactly what the recorded defective comparison computes"),
            "miri_processes": miri_runs,
        },
        min_nontrivial=500,
    )


def replay(path, seed):
    with open(path) as f:
        rep = json.load(f)
    avoid = rep.get("avoid", [])
    av = ["--avoid", ",".join(avoid)] if avoid else []
    tool = rep.get("tool", "native")
    if rep.get("kind") == "strmon":
        args = ["replay", rep["hex"]] + list(rep.get("others", []))
    elif rep.get("kind") == "strmon-process":
        args = [a for a in rep["args"] if a not in ("--avoid",) and a != ",".join(avoid)]
    else:
        print("replay kind not supported: %s" % rep.get("kind"))
        return 2
    if tool == "miri":
        rc, out, err = _run(MIRI_CMD + args + ([] if "--lite" in args else ["--lite"]) + av, env=MIRI_ENV, cwd=CRATE, timeout=3000)
    elif tool == "asan":
        rc, out, err = _run([build.ensure("strmon", "asan")] + args + av, env=ASAN_ENV, timeout=3000)
    else:
        rc, out, err = _run([build.ensure("strmon", "native")] + args + av, timeout=3000)
    d = _parse(out)
    if d and d.get("violation"):
        print(json.dumps(d["violation"], indent=1))
    print(err[-3000:])
    if rc is None:
        print("NO-VERDICT C11: replay timed out")
        return 2
    if rc != 0 or (d and d.get("violation")):
        print("VIOLATION property=C11 replay=%s" % path)
        return 1
    return 0
