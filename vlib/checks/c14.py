"""C14 — array behaviour is independent of the internal element storage.

Runtime monitoring of the real boa through the bvh session harness.  Workload: array operation histories of
vlib/gen_arr.py (5..60 steps on 1..3 arrays; after every step the program prints a structural dump of every
array, the step's own result / thrown error class and the getter/setter/callback log).

Two oracles:
 (a) V8 (node) runs the SAME program: every trace line must be equal.
 (b) boa's own generic path, as *per-step twins inside the same program*: before a step runs on the real array
     its state is cloned (i) into a plain array-like object `{length:n, 0:.., ...}` on which the step is applied
     through `Array.prototype.<method>.call(obj, ...)` (lane L) and (ii) into a fresh real array wrapped in a
     transparent `new Proxy(arr, {})` (lane P).  Result, log and resulting element/length state of the twin must
     equal those of the real array (lane R).
     What is NOT compared in lane L (the spec gives the array-like a different answer): writes to `length`,
     defineProperty on `length`, stores/defines at an index >= length (the exotic array grows `length`),
     JSON.stringify / Array.isArray / instanceof, callbacks or coercions that assign `length`, mutating methods
     when `length` is read-only, concat on a non-extensible receiver (the twin needs @@isConcatSpreadable), arrays
     with length >= 4294000000.  The generator decides this statically / by a predicate on the pre-state.  On top
     of that there is a *second-engine gate*: a lane difference inside boa is only a candidate when V8's own
     lanes agree with each other on that step (e.g. `unshift` that throws half-way leaves `length` grown on an
     exotic array but not on an array-like: both engines show the same lane difference -> the spec differs).
     Gated steps are counted per operation in the evidence.
     Lane P compares everything (a transparent Proxy of an array is an array for IsArray/species/concat).

Known V8 deviation (normalised before comparing, counted): V8's Object.isFrozen ignores the writable `length` of
an array whose elements are all frozen / absent (`Object.isFrozen(Object.preventExtensions([]))` is true in V8,
TestIntegrityLevel says false).  The dump prints `f` for "isFrozen() although length is writable"; V8's `f` is
mapped to `-`; an `f` printed by boa is a violation of its own.

A boa-vs-V8 or lane difference is reduced (vlib/reduce.py, same step + same lane must keep differing) and
reported with the reduced history.  Open known findings (known/c14_findings.json) are avoided by the main
stream through named `avoid` flags of gen_arr and their exact reproducers are replayed on every run.

Storage forms: there is no JS-visible probe, so the forms a history visited are APPROXIMATED BY CONSTRUCTION
(generator bookkeeping: only int32 stored -> int; a non-int32 number -> double; string/object/undefined ->
value; hole / huge index / delete / accessor or non-default attribute / length growth -> sparse).  All four
forms and the transitions int->double, double->value, value->sparse must appear or the run is NO-VERDICT.
"""
import json
import os
import re
import threading
import time

from .. import build, core, reduce as reducer, runner
from .. import gen_arr as G
from ..rng import Rng

PID = "C14"
KNOWN_PATH = os.path.join(runner.VERIF, "known", "c14_findings.json")
FLAG_RE = re.compile(r"<([X-][S-])f([io?]?)>")
LEN_RE = re.compile(r"\blength:\d+")
BOA_F_RE = re.compile(r"<[X-][S-]f[io?]?>")
DESCRIPTOR_TAGS = {"accessor-element", "non-writable-element", "non-configurable-element", "non-enumerable-element", "all-false-element",
                   "generic-descriptor", "mut:accessor", "mut:nonwritable"}
NEED_FORMS = ["int", "double", "value", "sparse"]
NEED_TRANS = [("int", "double"), ("double", "value"), ("value", "sparse")]


# --------------------------------------------------------------------------------------------
# known findings (file owned by this check)

def load_findings():
    try:
        with open(KNOWN_PATH) as f:
            return json.load(f)
    except FileNotFoundError:
        return []


def avoid_flags(findings):
    av = set()
    for k in findings:
        if k.get("status") == "open":
            for a in k.get("avoid", []):
                av.add(a)
    return av


# --------------------------------------------------------------------------------------------
# jobs and traces

def job(jid, src, lib=True):
    steps = []
    if lib:
        steps.append({"op": "eval", "src": G.LIB})
    steps.append({"op": "eval", "src": src})
    steps.append({"op": "jobs"})
    return {"id": jid, "steps": steps}


def norm_v8(line):
    return FLAG_RE.sub(r"<\1-\2>", line)


def fatal_of(res):
    """None | 'internal:<..>' | 'inconclusive:<..>' for a boa result"""
    if res is None:
        return "inconclusive:missing"
    f = res.get("fatal")
    if f:
        f = str(f)
        if f.startswith("panic:") or f.startswith("died:"):
            return "internal:" + f[:200]
        return "inconclusive:" + f[:60]
    for s in res.get("steps", []):
        c = s["c"]
        if c.startswith("enginepanic"):
            return "internal:" + c[:200]
        if c.startswith("inconclusive") or c.startswith("limit:"):
            return "inconclusive:" + c[:60]
    return None


def node_fatal(res):
    if res is None or res.get("fatal"):
        return "inconclusive:v8:" + str((res or {}).get("fatal", "missing"))[:40]
    for s in res.get("steps", []):
        if s["c"].startswith("inconclusive"):
            return "inconclusive:v8:" + s["c"][:40]
    return None


def sort_step_ids(src):
    """ids of the steps of a history source whose body calls sort / toSorted"""
    ids = set()
    marks = [(m.start(), m.group(1)) for m in re.finditer(r"S\((\d+),", src)]
    for k, (pos, sid) in enumerate(marks):
        seg = src[pos:marks[k + 1][0] if k + 1 < len(marks) else len(src)]
        if "sort" in seg or "toSorted" in seg:
            ids.add(sid)
    return ids


def sort_log_as_set(line, sort_steps):
    parts = line.split(" | ")
    if len(parts) >= 3 and parts[0].split(" ", 1)[0] in sort_steps and parts[1]:
        parts[1] = ";".join(sorted(set(t for t in parts[1].split(";") if t))) + ";"
        return " | ".join(parts)
    return line


def lanes(trace):
    """trace lines -> ordered list of (step, lane, rest)"""
    out = []
    for l in trace or []:
        parts = l.split(" ", 2)
        if len(parts) == 3 and parts[1] in ("R", "L", "P", "O"):
            out.append((parts[0], parts[1], parts[2]))
        else:
            out.append((None, "?", l))
    return out


def by_step(lines):
    d = {}
    for k, lane, rest in lines:
        if k is not None:
            d.setdefault(k, {})[lane] = rest
    return d


def analyse(tb, tn, completions_equal=True):
    """tb: boa trace, tn: V8 trace (already normalised) or None.
    returns dict: first (a)-difference, lane differences (with gating), counters"""
    res = {"v8": None, "lane": [], "gated": [], "boa_f": None, "n_cmp": 0, "n_L": 0, "n_P": 0, "n_L_len_skipped": 0, "v8_self": None}
    lb = lanes(tb)
    cut = None          # index of the first line that differs from V8
    if tn is not None:
        n = min(len(tb), len(tn))
        for i in range(n):
            if tb[i] != tn[i]:
                cut = i
                break
        if cut is None and len(tb) != len(tn):
            cut = n
        if cut is not None:
            k, lane, rest = lb[cut] if cut < len(lb) else (None, "?", None)
            res["v8"] = {"line": cut, "step": k, "lane": lane, "boa": tb[cut] if cut < len(tb) else None,
                         "ref": tn[cut] if cut < len(tn) else None}
            if lane == "R" and k is not None:
                # Is V8 inconsistent with ITSELF here?  By the spec the P twin (transparent Proxy of an equal array) must print
                # exactly what the real array prints.  If V8's own P lane differs from V8's R lane while boa's R and P lanes agree
                # with each other AND with V8's P lane, V8's fast path deviates from V8's generic path and boa sides with the
                # latter: not a boa finding (counted as inconclusive `v8-self-inconsistent:<op>`; the rest of the history is lost).
                bs = by_step(lb).get(k, {})
                ns = by_step(lanes(tn)).get(k, {})
                if "P" in bs and "P" in ns and bs["P"] == rest and ns["P"] == rest and ns.get("R") != ns["P"] \
                        and ("L" not in bs or "L" not in ns or bs["L"] == ns["L"]):
                    res["v8_self"] = res["v8"]
                    res["v8"] = None
    for i, l in enumerate(tb):
        if BOA_F_RE.search(l):
            res["boa_f"] = {"line": i, "text": l}
            break
    sb = by_step(lb[:cut] if cut is not None else lb)
    sn = by_step(lanes(tn)) if tn is not None else None
    for k, d in sb.items():
        if "R" not in d:
            continue
        res["n_cmp"] += 1
        for lane in ("L", "P"):
            if lane not in d:
                continue
            res["n_" + lane] += 1
            if d[lane] == d["R"]:
                continue
            if lane == "L" and d["R"].startswith("!") and d["R"].split(" ", 1)[0] == d["L"].split(" ", 1)[0] \
                    and LEN_RE.sub("length:*", d["R"]) == LEN_RE.sub("length:*", d["L"]):
                # both threw the same error half-way: an exotic array has grown `length` with every element defined so far, the
                # array-like only gets its `length` at the final Set that was never reached -> `length` is not comparable
                res["n_L_len_skipped"] += 1
                continue
            item = {"step": k, "lane": lane, "R": d["R"], "twin": d[lane]}
            if sn is None:
                item["ungated"] = True
                res["gated"].append(item)       # no second engine: cannot tell, count as inconclusive
                continue
            e = sn.get(k, {})
            if "R" in e and lane in e and e["R"] != e[lane]:
                res["gated"].append(item)       # the second engine shows a lane difference too: the spec differs
            elif "R" in e and lane in e:
                res["lane"].append(item)
            else:
                item["ungated"] = True
                res["gated"].append(item)
    return res


# --------------------------------------------------------------------------------------------
# context

class Ctx:
    def __init__(self, chk, binary, pool, avoid):
        self.chk = chk
        self.binary = binary
        self.pool = pool
        self.avoid = avoid
        self.evaluations = 0
        self.steps = 0
        self.nontrivial = set()
        self.hist = {}
        self.samples = []
        self.phase = {}
        self.cands = []
        self.sig_seen = {}
        self.form_hist = {}
        self.trans_hist = {}
        self.gated_samples = []
        self.v8_self_samples = []

    def count(self, group, key, n=1):
        g = self.hist.setdefault(group, {})
        g[key] = g.get(key, 0) + n

    def run_both(self, jobs, tag, timeout=20, shards=None):
        t0 = time.time()
        box = {}

        def v8():
            box["rn"] = self.pool.run(jobs) if self.pool else [{"fatal": "node-unavailable"} for _ in jobs]
            box["t"] = time.time()
        th = threading.Thread(target=v8)
        th.start()
        rb = runner.run_bvh(self.binary, "session", jobs, tag, timeout=timeout, shards=shards)
        t1 = time.time()
        th.join()
        self.phase[tag + ":boa"] = round(self.phase.get(tag + ":boa", 0) + t1 - t0, 1)
        self.phase[tag + ":v8(concurrent)"] = round(self.phase.get(tag + ":v8(concurrent)", 0) + box["t"] - t0, 1)
        return rb, box["rn"]


OUTCOME_RE = re.compile(r"^(!\w+)")


def op_of(h, step):
    try:
        return h.meta[int(step)]["op"]
    except Exception:
        return "?"


def evaluate_chunk(cx, hs, base, tag):
    """runs the histories on both engines and classifies them"""
    jobs = [job(base + i, h.src()) for i, h in enumerate(hs)]
    rb, rn = cx.run_both(jobs, tag)
    for i, (h, x, y) in enumerate(zip(hs, rb, rn)):
        cx.evaluations += 1
        fb = fatal_of(x)
        fn = node_fatal(y)
        tb = x.get("trace") or [] if x else []
        src = h.src()
        if fb and fb.startswith("internal"):
            cx.cands.append({"kind": "internal", "sig": ("internal", fb[:80]), "src": src, "index": base + i, "what": fb,
                             "step": None, "lane": None, "desc": h.describe()})
            continue
        if fb:
            cx.chk.inconc("boa:" + fb.split(":", 2)[1][:30])
            continue
        cb = [s["c"] for s in x.get("steps", [])]
        if fn:
            cx.chk.inconc(fn[:40])
            tn = None
        else:
            tn = [norm_v8(l) for l in (y.get("trace") or [])]
            nf = sum(1 for l in (y.get("trace") or []) if FLAG_RE.search(l))
            if nf:
                cx.count("v8_normalised", "isFrozen-ignores-writable-length(lines)", nf)
            cn = [s["c"] for s in y.get("steps", [])]
            if cb != cn:
                cx.cands.append({"kind": "completion", "sig": ("completion", str(cb)[:60]), "src": src, "index": base + i,
                                 "what": "completion boa=%s v8=%s" % (cb, cn), "step": None, "lane": None, "desc": h.describe()})
                continue
        # How often the default comparator of sort / toSorted converts an element to a string (and so how often an
        # observable toString / join / prototype getter runs) depends on the sorting algorithm, which is implementation-
        # defined: the log of such a step is compared as a set of events.
        sort_steps = sort_step_ids("\n".join(h.lines))
        if sort_steps:
            tb = [sort_log_as_set(l, sort_steps) for l in tb]
            if tn is not None:
                tn = [sort_log_as_set(l, sort_steps) for l in tn]
        a = analyse(tb, tn)
        cx.steps += a["n_cmp"]
        cx.count("lanes", "R-steps", a["n_cmp"])
        cx.count("lanes", "L-twins-compared", a["n_L"])
        cx.count("lanes", "P-twins-compared", a["n_P"])
        cx.count("lanes", "L-twins-length-not-compared(both threw half-way)", a["n_L_len_skipped"])
        for g in a["gated"]:
            cx.count("lane_difference_gated_by_v8(spec differs for the twin)" if not g.get("ungated") else "lane_difference_without_v8",
                     "%s:%s" % (g["lane"], op_of(h, g["step"])))
            if len(cx.gated_samples) < 12:
                cx.gated_samples.append({"op": op_of(h, g["step"]), "lane": g["lane"], "R": g["R"][:200], "twin": g["twin"][:200],
                                         "step_src": h.lines[int(g["step"])][:300]})
        bad = False
        if a["v8_self"]:
            op = op_of(h, a["v8_self"]["step"])
            cx.chk.inconc("v8-self-inconsistent:" + op)
            if len(cx.v8_self_samples) < 10:
                cx.v8_self_samples.append({"op": op, "step_src": h.lines[int(a["v8_self"]["step"])][:300], "boa(R=P)=v8(P)": a["v8_self"]["boa"][:300],
                                           "v8(R)": a["v8_self"]["ref"][:300]})
        if a["boa_f"]:
            bad = True
            cx.cands.append({"kind": "isfrozen", "sig": ("isfrozen",), "src": src, "index": base + i, "step": None, "lane": None,
                             "what": "boa reports Object.isFrozen(array) although length is writable: %s" % a["boa_f"]["text"][:300],
                             "desc": h.describe()})
        if a["v8"]:
            bad = True
            d = a["v8"]
            op = op_of(h, d["step"]) if d["step"] is not None else "?"
            cx.cands.append({"kind": "v8", "sig": ("v8", d["lane"], op), "src": src, "index": base + i, "step": d["step"], "lane": d["lane"],
                             "what": "step %s (%s) lane %s differs from V8: boa=%r v8=%r" % (d["step"], op, d["lane"], (d["boa"] or "")[:400],
                                                                                           (d["ref"] or "")[:400]),
                             "desc": h.describe()})
        for d in a["lane"]:
            bad = True
            op = op_of(h, d["step"])
            cx.cands.append({"kind": "lane", "sig": ("lane", d["lane"], op), "src": src, "index": base + i, "step": d["step"], "lane": d["lane"],
                             "what": "step %s (%s): real array and %s twin differ inside boa (V8's lanes agree): R=%r twin=%r" % (
                                 d["step"], op, "array-like" if d["lane"] == "L" else "Proxy", d["R"][:400], d["twin"][:400]),
                             "desc": h.describe()})
        if bad:
            continue
        # evidence (after a V8 self-inconsistency only the steps before it were compared)
        compared = h.meta[:int(a["v8_self"]["step"])] if a["v8_self"] else h.meta
        for m in compared:
            cx.count("ops", m["op"])
            for t in m["tags"]:
                cx.count("tags", t)
        for c in h.creates:
            cx.count("creation", c)
        cx.count("profile", h.profile + ("/strict" if h.strict else "/sloppy"))
        for f in h.forms:
            cx.form_hist[f] = cx.form_hist.get(f, 0) + 1
        # boa has two sparse forms: SparseElement (values only: holes, deletes, huge indices) and SparseProperty (full descriptors)
        if h.tags & DESCRIPTOR_TAGS or h.ops & {"Object.freeze", "Object.seal"}:
            cx.count("sparse_kind_by_construction(histories)", "descriptors(SparseProperty)")
        if h.tags & {"huge-index", "mut:delete", "mut:grow"} or h.ops & {"delete"} or any(c in ("literal-holes", "Array(n)") for c in h.creates):
            cx.count("sparse_kind_by_construction(histories)", "holes(SparseElement)")
        for tr in set(h.transitions):
            key = "%s->%s" % tr
            cx.trans_hist[key] = cx.trans_hist.get(key, 0) + 1
        changed = 0
        for k, lane, rest in lanes(tb):
            if lane == "R":
                m = OUTCOME_RE.match(rest)
                cx.count("step_outcome", m.group(1) if m else "value")
            elif lane == "O" and re.search(r"A\d=<", rest):
                changed += 1
        if tn is not None and len(h.meta) >= 5 and changed >= 2:
            cx.nontrivial.add(core.norm_hash(src))
            if len(cx.samples) < 6:
                cx.samples.append({"index": base + i, "profile": h.profile, "creates": h.creates, "ops": [m["op"] for m in h.meta][:40],
                                   "forms": sorted(h.forms), "transitions": ["%s->%s" % t for t in h.transitions],
                                   "last_line": (tb[-1] if tb else "")[:300]})


# --------------------------------------------------------------------------------------------
# reduction and reporting of candidates

def still_fails(cand):
    """returns a predicate over (boa_result, node_result) -> bool: the same failure (same step, same lane)"""
    kind, step, lane = cand["kind"], cand["step"], cand["lane"]

    def pred(x, y):
        fb = fatal_of(x)
        if kind == "internal":
            return bool(fb) and fb.startswith("internal") and fb[:40] == cand["what"][:40]
        if fb:
            return False
        tb = x.get("trace") or []
        if kind == "isfrozen":
            return any(BOA_F_RE.search(l) for l in tb)
        if node_fatal(y) or any(s["c"].startswith("early") for s in y.get("steps", [])):
            return False
        tn = [norm_v8(l) for l in (y.get("trace") or [])]
        if kind == "completion":
            return [s["c"] for s in x.get("steps", [])] != [s["c"] for s in y.get("steps", [])]
        a = analyse(tb, tn)
        if kind == "v8":
            return bool(a["v8"]) and a["v8"]["step"] == step and a["v8"]["lane"] == lane
        return any(d["step"] == step and d["lane"] == lane for d in a["lane"])
    return pred


def reduce_candidate(cx, cand, budget_s):
    pred = still_fails(cand)

    def batch(srcs):
        jobs = [job(i, s) for i, s in enumerate(srcs)]
        rb = runner.run_bvh(cx.binary, "session", jobs, "c14red", shards=min(8, max(1, len(jobs) // 8)), timeout=10)
        rn = cx.pool.run(jobs) if cx.pool else [None] * len(jobs)
        return [pred(x, y or {"fatal": "none"}) for x, y in zip(rb, rn)]
    try:
        src = reduce_steps(cand["src"], batch, budget_s * 0.5)
        return reducer.reduce(src, batch, budget_s=budget_s * 0.5)
    except Exception as e:  # reducer trouble never hides the finding
        cx.chk.inconc("reducer:" + type(e).__name__)
        return cand["src"]


def reduce_steps(src, batch, budget_s):
    """history-level delta debugging: drops whole step lines (chunks of n/2, n/4, .. 1) while the failure stays"""
    t_end = time.time() + budget_s
    lines = [l for l in src.split("\n") if l.strip()]
    header, steps = lines[0], lines[1:]

    def text(st):
        return "\n".join([header] + st) + "\n"
    size = max(1, len(steps) // 2)
    while size >= 1 and steps and time.time() < t_end:
        cands = [steps[:i] + steps[i + size:] for i in range(0, len(steps), size)]
        res = batch([text(c) for c in cands])
        ok = [c for c, r in zip(cands, res) if r]
        if ok:
            # try to drop all individually droppable chunks at once
            if len(ok) > 1:
                drop = set()
                for i, r in zip(range(0, len(steps), size), res):
                    if r:
                        drop.update(range(i, i + size))
                both = [s for j, s in enumerate(steps) if j not in drop]
                if batch([text(both)])[0]:
                    steps = both
                else:
                    steps = ok[0]
            else:
                steps = ok[0]
            size = min(size, max(1, len(steps) // 2)) if size > 1 else 1
        else:
            size //= 2
    return text(steps)


def report_candidates(cx, tier):
    groups = {}
    for c in cx.cands:
        groups.setdefault(c["sig"], []).append(c)
    budget = 40 if tier == "quick" else 120
    for n, (sig, cs) in enumerate(sorted(groups.items(), key=lambda kv: -len(kv[1]))):
        c = min(cs, key=lambda c: len(c["src"]))
        cx.count("candidates", "/".join(str(s) for s in sig), len(cs))
        if n >= 8:
            cx.chk.violations.append({"what": "%s (%d more, not reduced)" % (c["what"][:200], len(cs)), "replay": None})
            continue
        red = reduce_candidate(cx, c, budget)
        # what the reduced history shows
        x = runner.run_bvh(cx.binary, "session", [job(0, red)], "c14rep", shards=1, timeout=10)[0]
        y = cx.pool.run([job(0, red)])[0] if cx.pool else None
        tb = x.get("trace") or []
        tn = [norm_v8(l) for l in ((y or {}).get("trace") or [])]
        cx.chk.violation("%s [%d histories with this signature]; reduced history: %s" % (c["what"], len(cs), red[:1500]),
                         {"kind": "history", "src": red, "full_src": c["src"], "index": c["index"], "failure": c["kind"], "step": c["step"],
                          "lane": c["lane"], "observed": tb[:40], "expected_v8": tn[:40], "history": c["desc"], "fatal": x.get("fatal")})


# --------------------------------------------------------------------------------------------
# known findings: exact reproducers, replayed on every run

def replay_known(cx, findings):
    cases = []
    for k in findings:
        if k.get("status") != "open":
            continue
        for rep in k.get("reproducer", {}).get("snippets", []):
            cases.append((k, rep))
    if not cases:
        return
    jobs = [job(i, rep["src"], lib=False) for i, (k, rep) in enumerate(cases)]
    rb = runner.run_bvh(cx.binary, "session", jobs, "c14k", timeout=20, shards=min(4, len(jobs)))
    rn = cx.pool.run(jobs) if cx.pool else [None] * len(jobs)
    still = {}
    for (k, rep), x, y in zip(cases, rb, rn):
        fb = fatal_of(x)
        got = x.get("trace") if x and not fb else None
        if fb and fb.startswith("internal:enginepanic") and rep.get("observed_completion", "").startswith("enginepanic") \
                and fb[len("internal:"):].startswith(rep["observed_completion"][:60]):
            got = x.get("trace")        # the recorded failure IS this internal error (uncatchable, the program stops there)
        if y is not None and not node_fatal(y) and y.get("trace") != rep["expected"]:
            cx.chk.inconc("known-reproducer:v8-disagrees-with-recorded-expectation:" + k["id"])
        if got == rep["expected"]:
            continue                      # no longer failing
        if got == rep["observed"]:
            e = still.setdefault(k["id"], [k, 0])
            e[1] += 1
            continue
        cx.chk.violation("known finding %s: reproducer fails differently: %s expected %s observed %s" % (
            k["id"], rep["src"][:300], rep["expected"], got if got is not None else fb),
            {"kind": "snippet", "src": rep["src"], "expected": rep["expected"], "finding": k["id"]})
    for fid, (k, n) in still.items():
        cx.chk.known_finding(k, "%s — %d/%d reproducers still fail (%s)" % (k["title"], n, len(k["reproducer"]["snippets"]), fid))
        cx.chk.known_hits[fid] = n


# --------------------------------------------------------------------------------------------
# thorough: the same histories under AddressSanitizer (only crashes / sanitizer reports matter there)

def asan_stream(cx, seed, n, budget_s=480):
    try:
        binary = build.ensure("bvh", "asan")
    except build.BuildError as e:
        cx.chk.inconc("asan:build-failed")
        return
    env = {"ASAN_OPTIONS": "detect_leaks=0:abort_on_error=1:halt_on_error=1"}
    k = 0
    t_start = time.time()
    while k < n:
        if time.time() - t_start > budget_s or time.time() - cx.chk.t0 > 1740:
            cx.chk.assumptions.append("ASan stream: wall-clock cap reached after %d of %d planned histories" % (k, n))
            break
        m = min(250, n - k)
        hs = [G.generate(Rng(seed, "c14", "asan", k + i), cx.avoid) for i in range(m)]
        jobs = [job(k + i, h.src()) for i, h in enumerate(hs)]
        t0 = time.time()
        rb = runner.run_bvh(binary, "session", jobs, "c14asan", timeout=120, env=env)
        cx.phase["asan"] = round(cx.phase.get("asan", 0) + time.time() - t0, 1)
        for h, x in zip(hs, rb):
            fb = fatal_of(x)
            if fb and fb.startswith("internal"):
                cx.chk.violation("ASan build: %s; stderr tail: %s" % (fb, (x.get("stderr") or "")[-800:]),
                                 {"kind": "history", "src": h.src(), "failure": "internal", "flavour": "asan", "history": h.describe()})
            elif fb:
                cx.chk.inconc("asan:" + fb.split(":", 2)[1][:30])
            else:
                cx.count("asan", "histories-clean")
        k += m


# --------------------------------------------------------------------------------------------

def run(tier, seed):
    chk = core.Check(PID, tier, seed)
    thorough = tier == "thorough"
    findings = load_findings()
    avoid = avoid_flags(findings)
    binary = build.ensure("bvh", "native")
    pool = runner.NodePool(8, timeout_ms=20000) if runner.node_available() else None
    if pool is None:
        chk.inconc("v8-unavailable")
    cx = Ctx(chk, binary, pool, avoid)
    n_hist = 3000 if not thorough else 80000
    chunk = 3000 if not thorough else 4000
    try:
        k = 0
        while k < n_hist:
            m = min(chunk, n_hist - k)
            hs = [G.generate(Rng(seed, "c14", k + i), avoid) for i in range(m)]
            evaluate_chunk(cx, hs, k, "c14")
            k += m
            if len(cx.cands) > 400:
                break
            if time.time() - chk.t0 > 1080:
                chk.assumptions.append("wall-clock cap: %d of %d planned histories were run" % (k, n_hist))
                break
        if cx.cands:
            report_candidates(cx, tier)
        replay_known(cx, findings)
        if thorough:
            asan_stream(cx, seed, 6000)
    finally:
        if pool:
            pool.close()
    missing = [f for f in NEED_FORMS if not cx.form_hist.get(f)] + ["%s->%s" % t for t in NEED_TRANS if not cx.trans_hist.get("%s->%s" % t)]
    if missing:
        chk.inconc("storage forms / transitions not visited: %s" % ",".join(missing))
    chk.assumptions += [
        "V8 (node 20, V8 11.3) implements the ECMA-262 array algorithms; one known deviation is normalised (Object.isFrozen of an array "
        "ignores a writable length) and counted under histograms.v8_normalised",
        "the array-like / Proxy twins are per-step clones of the real array's pre-state (own keys in order, descriptors, prototype, "
        "extensibility); steps whose answer legitimately differs for an array-like are not given an L lane (see module docstring) and a lane "
        "difference that V8 shows too is counted as 'gated', not as a finding",
        "storage forms are approximated BY CONSTRUCTION (no JS-visible probe): int = only int32 values stored so far, double = a non-int32 "
        "number stored, value = a non-number stored, sparse = hole / huge index / delete / accessor or non-default attributes / length growth; "
        "boa's real transitions (object/property_map.rs) are monotone in the same order, but e.g. deleting the LAST element keeps boa dense "
        "while it counts as sparse here",
        "sort/toSorted only with consistent, side-effect-free comparators (an inconsistent comparator gives implementation-defined order)",
        "every O(length) step is guarded by length <= %d inside the program (`!big`), so histories with huge lengths terminate" % G.LIM,
        "main stream avoids the shapes of OPEN known findings: %s (their exact reproducers are replayed instead)" % (sorted(avoid) or "none"),
    ]
    return chk.finish(
        evaluations=cx.evaluations,
        distinct_nontrivial=0 if missing else len(cx.nontrivial),
        rule="evaluation = one history (program) run on boa and on V8, all trace lines compared + L/P twins compared per step; non-trivial = "
             "conclusive on both engines, >= 5 steps, the dump of some array changed in >= 2 steps; distinct by hash of the program text",
        samples=cx.samples,
        extra={
            "exhaustive": False,
            "steps_compared": cx.steps,
            "storage_forms_by_construction(histories)": cx.form_hist,
            "storage_transitions_by_construction(histories)": cx.trans_hist,
            "histograms": cx.hist,
            "gated_lane_difference_samples": cx.gated_samples,
            "v8_self_inconsistent_samples": cx.v8_self_samples,
            "avoid_flags": sorted(avoid),
            "phase_seconds": cx.phase,
        },
        min_nontrivial=1000 if not thorough else 20000,
    )


def replay(path, seed):
    with open(path) as f:
        rep = json.load(f)
    binary = build.ensure("bvh", "native")
    pool = runner.NodePool(1, timeout_ms=20000) if runner.node_available() else None
    try:
        lib = rep.get("kind") != "snippet"
        j = job(0, rep["src"], lib=lib)
        x = runner.run_bvh(binary, "session", [j], "c14replay", shards=1, timeout=20)[0]
        y = pool.run([j])[0] if pool else None
    finally:
        if pool:
            pool.close()
    fb = fatal_of(x)
    tb = x.get("trace") or []
    print("boa  :", fb or "", [s["c"] for s in x.get("steps", [])])
    if rep.get("kind") == "snippet":
        print("expected:", rep["expected"])
        print("observed:", tb)
        if tb == rep["expected"] and not fb:
            print("%s: replay agrees with the expectation now" % PID)
            return 0
        print("VIOLATION property=%s replay=%s" % (PID, path))
        return 1
    if fb and fb.startswith("internal"):
        print("VIOLATION property=%s replay=%s" % (PID, path))
        return 1
    if fb or y is None or node_fatal(y):
        print("NO-VERDICT %s: replay inconclusive (%s)" % (PID, fb or node_fatal(y) if y else "v8 unavailable"))
        return 2
    tn = [norm_v8(l) for l in (y.get("trace") or [])]
    sort_steps = sort_step_ids(rep["src"])
    if sort_steps:
        tb = [sort_log_as_set(l, sort_steps) for l in tb]
        tn = [sort_log_as_set(l, sort_steps) for l in tn]
    a = analyse(tb, tn)
    if a["v8"]:
        print("differs from V8 at line %d:\n  boa: %s\n  v8 : %s" % (a["v8"]["line"], a["v8"]["boa"], a["v8"]["ref"]))
    for d in a["lane"]:
        print("lane %s differs at step %s:\n  R   : %s\n  twin: %s" % (d["lane"], d["step"], d["R"], d["twin"]))
    if a["boa_f"]:
        print("boa reports isFrozen with writable length: %s" % a["boa_f"]["text"])
    if a["v8"] or a["lane"] or a["boa_f"] or [s["c"] for s in x.get("steps", [])] != [s["c"] for s in y.get("steps", [])]:
        print("VIOLATION property=%s replay=%s" % (PID, path))
        return 1
    print("%s: replay agrees with V8 and with its twins now" % PID)
    return 0
