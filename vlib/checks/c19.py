"""C19 — parsing is total; print -> reparse is the identity.

For every text s (generated programs, token- and byte-level mutants, the JS snippets embedded in the
repository's tests): the parser terminates (watchdog -> inconclusive), an error's position lies inside s,
nothing is interned that does not occur in s; for accepted s with p = print(parse(s)): p parses,
print(parse(p)) == p, parse(p) == parse(print(parse(p))), and trace(p) == trace(s) in boa."""
import json
import re

from .. import build, core, diffrun, gen_core, gen_opt, gen_priv, gen_shape, mutate, runner
from ..core import norm_hash
from ..rng import Rng

POS_RE = re.compile(r"line (\d+), col (\d+)")
ESC_RE = re.compile(r"\\u\{([0-9a-fA-F]{1,6})\}|\\u([0-9a-fA-F]{4})|\\x([0-9a-fA-F]{2})")


def cook(text):
    """left-to-right processing of string-literal escapes (applied to the whole text: over-approximates what can be interned)"""
    out = []
    i, n = 0, len(text)
    simple = {"n": "\n", "t": "\t", "r": "\r", "b": "\b", "f": "\f", "v": "\v", "0": "\0"}
    while i < n:
        c = text[i]
        if c != "\\" or i + 1 >= n:
            out.append(c)
            i += 1
            continue
        d = text[i + 1]
        if d == "u":
            m = re.match(r"u\{([0-9a-fA-F]{1,6})\}", text[i + 1:i + 12])
            if m and int(m.group(1), 16) < 0x110000:
                out.append(chr(int(m.group(1), 16)))
                i += 1 + m.end()
                continue
            m = re.match(r"u([0-9a-fA-F]{4})", text[i + 1:i + 6])
            if m:
                v = int(m.group(1), 16)
                m2 = re.match(r"\\u([dD][c-fC-F][0-9a-fA-F]{2})", text[i + 6:i + 12]) if 0xD800 <= v <= 0xDBFF else None
                if m2:
                    out.append(chr(0x10000 + ((v - 0xD800) << 10) + (int(m2.group(1), 16) - 0xDC00)))
                    i += 12
                else:
                    out.append(chr(v) if not (0xD800 <= v <= 0xDFFF) else "\\u%04X" % v)
                    i += 6
                continue
        if d == "x":
            m = re.match(r"x([0-9a-fA-F]{2})", text[i + 1:i + 4])
            if m:
                out.append(chr(int(m.group(1), 16)))
                i += 4
                continue
        if d in "01234567":
            # legacy octal escape (sloppy mode string literals): \0 .. \377, longest match
            m = re.match(r"[0-3][0-7]{0,2}|[4-7][0-7]?", text[i + 1:i + 4])
            out.append(chr(int(m.group(0), 8)))
            i += 1 + m.end()
            continue
        if d in simple:
            out.append(simple[d])
        elif d == "\r" and text[i + 2:i + 3] == "\n":
            i += 1
        elif d in "\n\r\u2028\u2029":
            pass
        else:
            out.append(d)
        i += 2
    return "".join(out)


def interned_ok(s, text, cooked, extra):
    if s in text or s in cooked or s in extra:
        return True
    # line continuations / CRLF normalisation inside templates
    if s.replace("\n", "\r\n") in text or s.replace("\n", "\r") in text:
        return True
    # regular expression flags are interned in canonical (sorted) order
    if 0 < len(s) <= 8 and all(ch in "dgimsuvy" for ch in s):
        import itertools
        if any(("/" + "".join(p)) in text for p in itertools.permutations(s)):
            return True
    return False


def check_positions(err, text):
    lines = re.split("\r\n|\n|\r|\u2028|\u2029", text)
    for m in POS_RE.finditer(err):
        line, col = int(m.group(1)), int(m.group(2))
        if line < 1 or line > len(lines) + 1:
            return "line %d, the text has %d lines" % (line, len(lines))
        ll = len(lines[line - 1]) if line <= len(lines) else 0
        # columns count code points (+1 for end of line, +1 for the position just past the end of the text)
        if col < 1 or col > ll + 2:
            return "line %d col %d, that line has %d characters" % (line, col, ll)
    return None


def run(tier, seed):
    chk = core.Check("C19", tier, seed)
    thorough = tier == "thorough"
    binary = build.ensure("bvh", "native")
    rng = Rng(seed, "c19")
    n_gen, n_tok, n_byte = (40000, 80000, 60000) if thorough else (2500, 6000, 4000)
    texts = []  # (origin, bytes)
    gens = []
    for i in range(n_gen):
        k = i % 10
        if k < 7:
            # function source text is observable (Function.prototype.toString): programs in the trace clause must not print it
            gens.append(gen_core.generate(seed, i, avoid={"fn_to_string"}, label="c19")[0])
        elif k < 9:
            gens.append(gen_opt.generate(seed, i))
        else:
            gens.append(gen_shape.generate(seed, i))
    snippets = mutate.harvest_repo_snippets()
    priv = [gen_priv.generate(seed, i) for i in range(n_gen // 3)]
    for g in priv:
        texts.append(("generated-priv", g.encode("utf8")))
    for k, g in enumerate(gens):
        texts.append(("generated" if k % 10 < 9 else "generated-shape", g.encode("utf8")))
    for s in snippets:
        texts.append(("repo-snippet", s.encode("utf8", "replace")))
    pool = gens + snippets + priv
    for i in range(n_tok):
        texts.append(("token-mutant", mutate.token_mutant(rng, pool[rng.below(len(pool))]).encode("utf8", "replace")))
    for i in range(n_byte):
        base = pool[rng.below(len(pool))].encode("utf8", "replace")
        texts.append(("byte-mutant", mutate.byte_mutant(rng, base[:4000])))
    for i in range(n_byte // 8):
        texts.append(("random", mutate.random_bytes(rng, 1 + rng.below(200))))
    jobs = []
    for i, (origin, b) in enumerate(texts):
        goal = "module" if (i % 9 == 0 and origin != "generated") else "script"
        jobs.append({"id": i, "src_hex": b.hex(), "goal": goal})
    res = runner.run_bvh(binary, "parse", jobs, "c19", prelude=False, timeout=20)
    counts = {"accepted": 0, "rejected": 0}
    by_origin = {}
    distinct = set()
    reported = 0
    reparse_texts = []

    def violation(what, i, extra=None):
        nonlocal reported
        if reported < 6:
            rep = {"kind": "parse", "src_hex": texts[i][1].hex(), "goal": jobs[i]["goal"], "origin": texts[i][0]}
            if extra:
                rep.update(extra)
            chk.violation(what, rep)
            reported += 1

    for i, ((origin, b), r) in enumerate(zip(texts, res)):
        f = r.get("fatal")
        text = b.decode("utf8", "replace")
        if f:
            f = str(f)
            if f.startswith(("panic", "died")):
                if mutate.nesting(text) > 64 and "SIGSEGV" in f or ("SIGABRT" in f and mutate.nesting(text) > 64):
                    chk.inconc("stack-exhaustion-beyond-nesting-bound")
                    continue
                violation("the parser fails internally on a %s text (%d bytes): %s" % (origin, len(b), f[:300]), i)
            else:
                chk.inconc("parse:" + f[:30])
            continue
        o = by_origin.setdefault(origin, {"accepted": 0, "rejected": 0})
        if not r["ok"]:
            counts["rejected"] += 1
            o["rejected"] += 1
            try:
                b.decode("utf8")
                bad = check_positions(r.get("err", ""), text)
            except UnicodeDecodeError:
                bad = None  # not a text: boa's decoder is unchecked on malformed UTF-8, positions are meaningless
            if bad:
                violation("syntax error positioned outside the text: %s (error: %s)" % (bad, r.get("err", "")[:200]), i)
            else:
                distinct.add(norm_hash("r" + text))
            continue
        counts["accepted"] += 1
        o["accepted"] += 1
        try:
            b.decode("utf8")
            valid_utf8 = True
        except UnicodeDecodeError:
            valid_utf8 = False
        if not valid_utf8:
            # A byte string that is not UTF-8 is not a text: boa's decoder is documented as unchecked there
            # (it folds the bytes after a stray lead byte into one code point). Only totality and positions are checked.
            r["interned"] = []
        cooked = cook(text)
        cooked2 = cook(cooked)  # code inside eval('...') / Function('...') strings is cooked twice
        bad_interned = [s for s in r.get("interned", []) if not interned_ok(s, text, cooked, cooked2)]
        if bad_interned:
            violation("the parser interned strings that do not occur in the text: %s" % bad_interned[:5], i)
            continue
        if r.get("module"):
            distinct.add(norm_hash("m" + text))
            continue
        if not r.get("reparse_ok"):
            violation("the printed form of an accepted %s text does not parse: %s -- printed: %s" % (origin, r.get("reparse_err", "")[:160], r.get("p1", "")[:300]), i)
            continue
        if not r.get("p2_equal"):
            violation("print(parse(p)) != p for the first printed form p = %s ; second form %s" % (r.get("p1", "")[:300], (r.get("p2") or "")[:300]), i)
            continue
        if not r.get("third_ok") or not r.get("ast_equal"):
            violation("parse(p) != parse(print(parse(p))) for p = %s" % r.get("p1", "")[:300], i)
            continue
        distinct.add(norm_hash("a" + text))
        if origin == "generated" and jobs[i]["goal"] == "script":
            reparse_texts.append((i, text, r["p1"]))
    # trace(p) == trace(s) for accepted generated programs and snippets
    sel = reparse_texts if thorough else reparse_texts[:1500]
    tj = []
    # function source text is observable and legitimately differs between s and print(parse(s)): neutralised in both runs
    neutral = "Function.prototype.toString = function () { return 'function () { [source] }'; };\n"
    for (i, text, p1) in sel:
        pre = neutral if not text.lstrip().startswith(("'use strict'", '"use strict"')) else "'use strict';\n" + neutral
        tj.append(diffrun.job(pre + text))
        tj.append(diffrun.job(pre + p1))
    tres = runner.run_bvh(binary, "session", tj, "c19t", timeout=30)
    trace_pairs = 0
    for k, (i, text, p1) in enumerate(sel):
        a, b2 = tres[2 * k], tres[2 * k + 1]
        ca, cb = diffrun.classify(a), diffrun.classify(b2)
        if ca.startswith("inconclusive") or cb.startswith("inconclusive"):
            chk.inconc("trace:" + (ca if ca != "ok" else cb)[:30])
            continue
        trace_pairs += 1
        if diffrun.record(a) != diffrun.record(b2):
            violation("the printed program behaves differently from the original: %s vs %s; printed: %s" % (
                str(diffrun.record(a))[:200], str(diffrun.record(b2))[:200], p1[:300]), i, {"printed": p1})
    for k in chk.open_known:
        rep = k.get("reproducer", {})
        if rep.get("kind") != "parse":
            continue
        rr = runner.run_bvh(binary, "parse", [{"id": 0, "src": rep["src"]}, {"id": 1, "src": rep["accepted_variant"]}], "c19k", shards=1, prelude=False)
        if rr[1].get("ok") and not rr[0].get("ok"):
            chk.known_finding(k, "%s: %s" % (k["title"], rr[0].get("err", "")[:120]))
        elif rr[1].get("ok") and rr[0].get("ok"):
            pass
        else:
            chk.violation("known finding %s now behaves differently: %s / %s" % (k["id"], str(rr[0])[:200], str(rr[1])[:200]), 0)
    chk.assumptions = ["termination is judged by the harness watchdog (20 s per text): a hit is inconclusive, never a violation",
                       "an interned string `occurs in the text` if it is a substring of the text or of the text with \\u / \\x / single-character escapes cooked",
                       "error positions are read from the parser's error message (`line L, col C`)"]
    return chk.finish(
        evaluations=len(texts), distinct_nontrivial=len(distinct),
        rule="texts: generated programs (core/opt/shape grammars), JS snippets harvested from the repository's tests, token-level and byte-level mutants of both, random "
             "bytes; parsed as script (module for a ninth of the mutants); non-trivial = the text was either rejected with a well-positioned error or accepted and passed "
             "all round-trip checks; distinct by text hash",
        samples=[texts[0][1].decode("utf8", "replace")[:300], texts[len(gens) + 5][1].decode("utf8", "replace")[:200], texts[-1][1].hex()[:120]],
        extra={"accepted": counts["accepted"], "rejected": counts["rejected"], "by_origin": by_origin, "repo_snippets": len(snippets),
               "trace_pairs_compared": trace_pairs},
        min_nontrivial=200)


def replay(path, seed):
    with open(path) as f:
        rep = json.load(f)
    binary = build.ensure("bvh", "native")
    r = runner.run_bvh(binary, "parse", [{"id": 0, "src_hex": rep["src_hex"], "goal": rep.get("goal", "script")}], "c19r", shards=1, prelude=False)[0]
    print(json.dumps(r)[:3000])
    return 2
