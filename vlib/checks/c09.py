"""C09 — the collector frees exactly the unreachable objects, exactly once.

Real boa_gc driven by gcmon (harness/gcmon): model-based histories (exhaustive small + random),
run natively (debug assertions), under AddressSanitizer and under Miri (tree borrows)."""
import json
import os
import subprocess
from concurrent.futures import ThreadPoolExecutor

from .. import build, core
from ..runner import NCPU, VERIF

KNOWN_DIR = os.path.join(VERIF, "known")


def _run(cmd, env=None, timeout=3600, cwd=None):
    e = dict(os.environ)
    if env:
        e.update(env)
    try:
        p = subprocess.run(cmd, stdout=subprocess.PIPE, stderr=subprocess.PIPE, env=e, timeout=timeout, cwd=cwd)
    except subprocess.TimeoutExpired:
        return None, "", "timeout"
    return p.returncode, p.stdout.decode("utf8", "replace"), p.stderr.decode("utf8", "replace")


def _parse(out):
    for line in reversed(out.strip().splitlines()):
        line = line.strip()
        if line.startswith("{"):
            try:
                return json.loads(line)
            except Exception:
                return None
    return None


class Agg:
    def __init__(self):
        self.histories = 0
        self.distinct = 0
        self.ops = {}
        self.collections = 0
        self.census = 0
        self.died = 0
        self.weak_obs = 0
        self.samples = []
        self.enumerated = 0

    def add(self, d):
        self.histories += d.get("histories", 0)
        self.distinct += d.get("distinct_nontrivial", 0)
        for k, v in d.get("ops", {}).items():
            self.ops[k] = self.ops.get(k, 0) + v
        self.collections += d.get("collections", 0)
        self.census += d.get("census_checks", 0)
        self.died += d.get("nodes_died", 0)
        self.weak_obs += d.get("upgrade_some", 0) + d.get("upgrade_none", 0) + d.get("ephemeron_some", 0) + d.get("ephemeron_none", 0)
        if len(self.samples) < 4:
            self.samples += d.get("samples", [])[:2]


def _handle(chk, tool, cmd, rc, out, err, agg, args_for_replay):
    """classify one gcmon process result"""
    d = _parse(out) if out else None
    if rc is None:
        chk.inconc("%s:watchdog" % tool)
        return
    san = None
    if "ERROR: AddressSanitizer" in err or "LeakSanitizer" in err:
        san = "asan"
    if "Undefined Behavior" in err or "error: memory leaked" in err or ("error:" in err and tool == "miri" and "unsupported operation" not in err):
        san = "miri" if tool == "miri" else san
    if d is not None and rc in (0, 1):
        agg.add(d)
    if rc == 0 and san is None:
        if d is None:
            chk.inconc("%s:no-output" % tool)
        return
    if d is not None and d.get("violation"):
        v = d["violation"]
        import re
        m = re.search(r"\[slots (\d+)/(\d+)/(\d+)\]", v["what"])
        slots = [int(x) for x in m.groups()] if m else [3, 1, 1]
        chk.violation("[%s] %s (at op %s of the history)" % (tool, v["what"], v["at_op"]),
                      {"kind": "gc-history", "tool": tool, "history": v["history"], "slots": slots, "args": args_for_replay})
        return
    if san or rc != 0:
        tail = "\n".join(err.strip().splitlines()[-25:])
        if tool == "miri" and ("unsupported operation" in err or "can't call foreign function" in err):
            chk.inconc("miri:unsupported")
            return
        # a panic inside boa_gc (debug assertion, overflow) or a sanitizer report
        chk.violation("[%s] process failed rc=%s: %s" % (tool, rc, tail[-1500:]), {"kind": "gc-process", "tool": tool, "cmd": cmd, "args": args_for_replay})


def known_resurrection(chk, binary):
    """replays the recorded reproducers of open known findings"""
    for k in chk.open_known:
        rep = k.get("reproducer", {})
        if rep.get("kind") != "gc-history":
            continue
        path = os.path.join(VERIF, rep["file"])
        rc, out, err = _run([binary, "replay", path] + [str(x) for x in rep.get("slots", [])], timeout=120)
        d = _parse(out)
        failing = rc != 0
        sig = ""
        if d and d.get("violation"):
            sig = d["violation"]["what"]
        elif rc not in (0, None):
            sig = err.strip().splitlines()[-1] if err.strip() else "rc=%s" % rc
        if failing and any(s in (sig + err) for s in k.get("signature_any", [])):
            chk.known_finding(k, "%s — %s" % (k["title"], sig[:160]))
        elif failing:
            chk.violation("known-finding reproducer %s fails differently: %s" % (k["id"], sig[:300]), {"kind": "gc-history-file", "file": rep["file"]})
        else:
            # no longer failing: nothing to report (a fixed finding suppresses nothing)
            pass


def run(tier, seed):
    chk = core.Check("C09", tier, seed)
    thorough = tier == "thorough"
    native = build.ensure("gcmon", "native")
    agg = Agg()
    ex_len = 7 if thorough else 6
    tasks = []
    # exhaustive small histories on the real heap
    for s in range(NCPU):
        tasks.append(("native-exhaustive", [native, "exhaustive", str(ex_len), str(s), str(NCPU), "3"], None, ["exhaustive", ex_len, s, NCPU, 3]))
    # random histories
    n_hist = 40000 if thorough else 4000
    for s in range(NCPU):
        ops, nodes = (5000, 200) if s % 4 == 0 else ((400, 40) if s % 4 == 1 else (60, 8))
        n = max(20, n_hist // (50 if ops == 5000 else (8 if ops == 400 else 1)))
        tasks.append(("native-random", [native, "random", str(seed * 1000 + s), str(n), str(ops), str(nodes)], None, ["random", seed * 1000 + s, n, ops, nodes]))
    # AddressSanitizer flavour
    asan = None
    try:
        asan = build.ensure("gcmon", "asan")
    except build.BuildError as e:
        chk.inconc("asan:build-failed")
    if asan:
        env = {"ASAN_OPTIONS": "halt_on_error=1:abort_on_error=0:detect_leaks=1:exitcode=66"}
        for s in range(NCPU // 2):
            ops, nodes = (2000, 120) if s % 2 == 0 else (80, 10)
            n = (200 if thorough else 30) if ops == 2000 else (20000 if thorough else 2000)
            tasks.append(("asan-random", [asan, "random", str(seed * 1000 + 500 + s), str(n), str(ops), str(nodes)], env, ["random", seed * 1000 + 500 + s, n, ops, nodes]))
        for s in range(NCPU // 2):
            tasks.append(("asan-exhaustive", [asan, "exhaustive", str(ex_len - 1), str(s), str(NCPU // 2), "3"], env, ["exhaustive", ex_len - 1, s, NCPU // 2, 3]))

    def work(t):
        tool, cmd, env, rargs = t
        rc, out, err = _run(cmd, env=env, timeout=3000)
        return t, rc, out, err

    with ThreadPoolExecutor(max_workers=NCPU) as ex:
        results = list(ex.map(work, tasks))
    per_tool = {}
    for (tool, cmd, env, rargs), rc, out, err in results:
        before = agg.histories
        _handle(chk, tool.split("-")[0], cmd, rc, out, err, agg, rargs)
        per_tool[tool] = per_tool.get(tool, 0) + (agg.histories - before)
        d = _parse(out)
        if d and "enumerated" in d:
            agg.enumerated = max(agg.enumerated, d["enumerated"])

    # Miri (tree borrows): seeded sample, one process per seed
    miri_runs = 0
    crate = build.crate_dir("gcmon")
    menv = {"CARGO_TARGET_DIR": build.target_dir_for("gcmon", "miri"), "MIRIFLAGS": "-Zmiri-tree-borrows", "CARGO_NET_OFFLINE": "true"}
    nm = 64 if thorough else 16
    mtasks = []
    for s in range(nm):
        ops, nodes, n = (40, 6, 3) if s % 2 == 0 else (15, 4, 10)
        mtasks.append(["cargo", "+nightly", "miri", "run", "--offline", "-q", "--", "random", str(seed * 1000 + 900 + s), str(n), str(ops), str(nodes)])
    # build once (serial) so the parallel runs do not fight for the build lock
    rc, out, err = _run(["cargo", "+nightly", "miri", "run", "--offline", "-q", "--", "random", "1", "1", "5", "2"], env=menv, cwd=crate, timeout=1800)
    if rc != 0:
        chk.inconc("miri:unavailable")
        miri_ok = False
    else:
        miri_ok = True

    def mwork(cmd):
        return cmd, _run(cmd, env=menv, cwd=crate, timeout=2400)

    if miri_ok:
        with ThreadPoolExecutor(max_workers=NCPU) as ex:
            for cmd, (rc, out, err) in ex.map(mwork, mtasks):
                before = agg.histories
                _handle(chk, "miri", cmd, rc, out, err, agg, cmd[7:])
                per_tool["miri"] = per_tool.get("miri", 0) + (agg.histories - before)
                miri_runs += 1

    known_resurrection(chk, native)

    chk.assumptions = [
        "the reachability model in harness/gcmon (roots, strong edges, ephemeron fix-point, weak-map rule) is the specification",
        "finalizer resurrection is exercised only by the recorded known-finding reproducer (quarantine), not by the main stream",
        "internal weak-pointer boxes are counted one collection late (census taken after a second, effect-free collection)",
    ]
    return chk.finish(
        evaluations=agg.histories,
        distinct_nontrivial=agg.distinct,
        rule="history = sequence of alloc/link/unlink/load/drop/clone/weak/ephemeron/weak-map/collect ops on the real boa_gc; "
             "non-trivial = at least one node died at a collection and (a weak observation was made or >1 node existed); distinct by history hash per process",
        samples=agg.samples,
        extra={
            "exhaustive": False,
            "exhaustive_subspace": {"exhaustive": True, "length": ex_len, "max_nodes": 3, "root_slots": 3, "histories_enumerated": agg.enumerated,
                                    "note": "all valid histories of exactly this length over the canonical alphabet, each followed by collect / drop-all / collect"},
            "histories_by_tool": per_tool,
            "op_histogram": agg.ops,
            "collections_observed": agg.collections,
            "census_checks": agg.census,
            "nodes_died": agg.died,
            "weak_observations": agg.weak_obs,
            "miri_processes": miri_runs,
        },
        min_nontrivial=100,
    )


def replay(path, seed):
    chk = core.Check("C09", "quick", seed)
    with open(path) as f:
        rep = json.load(f)
    native = build.ensure("gcmon", "native")
    if rep.get("kind") == "gc-history":
        tmp = path + ".history"
        with open(tmp, "w") as f:
            json.dump(rep["history"], f)
        rc, out, err = _run([native, "replay", tmp] + [str(x) for x in rep.get("slots", [3, 1, 1])], timeout=600)
        os.remove(tmp)
        print(out[-2000:], err[-2000:])
        if rc != 0:
            print("VIOLATION property=C09 replay=%s" % path)
            return 1
        return 0
    print("replay kind not supported natively: %s" % rep.get("kind"))
    return 2
