"""C18 — JSON.parse / JSON.stringify implement exactly the JSON grammar and value mapping.

Runtime monitoring of the real boa through the bvh session harness:
  (i)   accept/reject of JSON.parse(t) == strict ECMA-404 recogniser (vlib/models/jsonref.py)
  (ii)  structural dump of the parsed value (made by in-program JS) == reference mapping
  (iii) JSON.stringify(v, replacer, indent) == reference stringify, is valid JSON per the recogniser (when the
        gap is whitespace) and == V8's text code unit for code unit
  (iv)  parse(stringify(v)) is structurally v (JSON image: -0 -> 0, NaN/Infinity -> null)
  (v)   reviver call sequence (holder keys, key, value dump, context.source) == reference walk == V8
V8 (node) is a second opinion only: model != V8 is *inconclusive* and reported, never a violation.
Open known findings live in known/c18_findings.json; their input classes are avoided by the main stream
(`avoid` flags of gen_json) and their exact reproducers are replayed on every run.
"""
import json
import os

from .. import build, core, runner
from .. import gen_json as G
from ..models import jsonref as J
from ..rng import Rng

PID = "C18"
KNOWN_PATH = os.path.join(runner.VERIF, "known", "c18_findings.json")

# --------------------------------------------------------------------------------------------
# in-program library (plain ES5-style JS; the same source runs on boa and on V8)

LIB = r"""
var OP=Object.prototype,AP=Array.prototype,gpo=Object.getPrototypeOf,oks=Reflect.ownKeys,gd=Object.getOwnPropertyDescriptor,
    isA=Array.isArray,dp=Object.defineProperty,OK=Object.keys;
var SE=SyntaxError.prototype,TE=TypeError.prototype,RE=RangeError.prototype;
var JP=JSON.parse,JS=JSON.stringify;
var dv=new DataView(new ArrayBuffer(8));
function U(s){var n=s.length,a=[];for(var i=0;i<n;i++)a.push(s.charCodeAt(i));return 's'+n+'<'+a.join(',')+'>';}
function D(v){
  if(v===null)return 'n';if(v===true)return 't';if(v===false)return 'f';
  var t=typeof v;
  if(t==='number'){if(v!==v)return 'dNaN';dv.setFloat64(0,v);return 'd'+dv.getUint32(0)+'.'+dv.getUint32(4);}
  if(t==='string')return U(v);
  if(t==='undefined')return 'u';if(t==='function')return 'F';if(t==='symbol')return 'Y';if(t==='bigint')return 'B';
  var keys=oks(v),out=[],i,k,d,fl='';
  if(isA(v)){
    var n=v.length,seen=0;
    for(i=0;i<n;i++){
      d=gd(v,i);
      if(d===undefined){out.push('h');continue;}
      seen++;
      out.push((('value' in d)&&d.writable&&d.enumerable&&d.configurable?'':'!')+D(d.value));
    }
    if(keys.length!==seen+1)fl+='!k';
    if(gpo(v)!==AP)fl+='!p';
    return 'a'+n+'['+out.join(',')+']'+fl;
  }
  for(i=0;i<keys.length;i++){
    k=keys[i];
    if(typeof k==='symbol'){out.push('Y');continue;}
    d=gd(v,k);
    out.push(U(k)+':'+(('value' in d)&&d.writable&&d.enumerable&&d.configurable?'':'!')+D(d.value));
  }
  if(gpo(v)!==OP)fl+='!p';
  return 'o{'+out.join(',')+'}'+fl;
}
function EC(e){if(e===null||typeof e!=='object')return 'nonobject';var p=gpo(e);return p===SE?'SyntaxError':p===TE?'TypeError':p===RE?'RangeError':'other';}
function H(t){var h=0;for(var i=0;i<t.length;i++)h=(h*31+t.charCodeAt(i))%1000003;return h;}
function P(i,t,n,h){
  var r;
  if(t.length!==n||H(t)!==h){print(i+' X');return;}
  try{r='A '+D(JP(t));}catch(e){r='R '+EC(e);}
  print(i+' '+r);
}
function PD(i,t,n){
  var r;
  if(t.length!==n){print(i+' X');return;}
  try{var v=JP(t),d=0;while(v!==null&&typeof v==='object'&&d<100000){d++;var ks=OK(v);if(ks.length===0)break;v=v[ks[ks.length-1]];}r='A '+d;}catch(e){r='R '+EC(e);}
  print(i+' '+r);
}
function HK(h){if(isA(h))return 'a'+h.length;var ks=OK(h),s='o';for(var i=0;i<ks.length;i++)s+=U(ks[i]);return s;}
function POL(m,h,k,v){
  if(m===0)return v;
  if(m===1)return (v===null||v==='')?undefined:v;
  if(m===2){if(typeof v==='number')return v+1;if(typeof v==='string')return v+'!';if(typeof v==='boolean')return !v;return v;}
  if(m===3){if(isA(v)&&v.length===0)return {x:1};if(v!==null&&typeof v==='object'&&!isA(v)&&OK(v).length===0)return [7];return v;}
  if(m===4){if(isA(h)){if(k==='0'&&h.length>1)delete h[1];}else{var ks=OK(h),kk=ks[ks.length-1];if(ks.length>1&&k===ks[0]&&!(kk in OP))delete h[kk];}return v;}
  if(m===5){if(isA(h)&&k==='0'&&h.length>1)h[1]='new';return v;}
  return v;
}
function RV(i,t,n,h,m){
  var L=[],r;
  if(t.length!==n||H(t)!==h){print(i+' X');return;}
  var f=function(k,v,c){
    var src=c===undefined?'N':((typeof c==='object'&&c!==null)?(gd(c,'source')?(typeof c.source==='string'?U(c.source):'?'):'-'):'?');
    L.push(HK(this)+' '+(typeof k==='string'?U(k):'?'+typeof k)+' '+D(v)+' '+src);
    return POL(m,this,k,v);
  };
  try{r='A '+D(JP(t,f));}catch(e){r='R '+EC(e);}
  print(i+' '+r);
  print(i+' L '+L.join('|'));
}
var LOG=[];
function TL(k){LOG.push('toJSON:'+(typeof k==='string'?U(k):'?'+typeof k));}
function RL(h,k,v){LOG.push('r:'+(isA(h)?'a':'o')+OK(h).length+':'+(typeof k==='string'?U(k):'?'+typeof k)+':'+typeof v);}
function TJ(f){return {toJSON:f};}
function HN(o,k,v){dp(o,k,{value:v,enumerable:false,writable:true,configurable:true});return o;}
function HS(o,d,v){o[Symbol(d)]=v;return o;}
function CY(u){this.u=u;}
function FIX(root){
  var anc=[];
  function w(n){
    if(n===null||typeof n!=='object')return;
    if(!isA(n)&&gpo(n)!==OP)return;
    if(!isA(n)&&typeof n.toJSON==='function')return;
    anc.push(n);
    var ks=OK(n);
    for(var i=0;i<ks.length;i++){
      var c=n[ks[i]];
      if(c instanceof CY){var j=anc.length-1-c.u;n[ks[i]]=anc[j<0?0:j];}else w(c);
    }
    anc.pop();
  }
  w(root);return root;
}
function S(i,mk,rep,ind,fl){
  var v,r,s;
  LOG=[];
  try{v=mk();if(fl&4)v=FIX(v);}catch(e){print(i+' X '+EC(e));return;}
  if(fl&1)print(i+' c '+D(v));
  LOG=[];
  try{s=JS(v,rep,ind);r=s===undefined?'U':(typeof s==='string'?'T '+U(s):'W');}catch(e){r='E '+EC(e);}
  print(i+' '+r);
  print(i+' g '+LOG.join('|'));
  if((fl&2)&&typeof s==='string'){try{r='A '+D(JP(s));}catch(e){r='R '+EC(e);}print(i+' rt '+r);}
}
function F(i,f){var r;try{r='V '+f();}catch(e){r='E '+EC(e);}print(i+' '+r);}
"""


def job(jid, body):
    return {"id": jid, "steps": [{"op": "eval", "src": LIB + body}]}


def p_item(i, t):
    return "P(%d,%s,%d,%d);\n" % (i, G.js_lit(t), len(t), G.text_hash(t))


def rv_item(i, t, mode):
    return "RV(%d,%s,%d,%d,%d);\n" % (i, G.js_lit(t), len(t), G.text_hash(t), mode)


def parse_trace(res):
    """trace lines 'id rest' -> {id: [rest, ...]}; returns (dict, fatal or None, completion)"""
    out = {}
    if res is None:
        return out, "missing", None
    for line in res.get("trace", []) or []:
        sp = line.find(" ")
        if sp <= 0:
            continue
        try:
            i = int(line[:sp])
        except ValueError:
            continue
        out.setdefault(i, []).append(line[sp + 1:])
    comp = None
    steps = res.get("steps") or []
    if steps:
        comp = steps[0].get("c")
    return out, res.get("fatal"), comp


def undump_string(d):
    """'s3<97,98,99>' -> u16 string"""
    lt = d.index("<")
    body = d[lt + 1:-1]
    if not body:
        return ""
    return "".join(chr(int(x)) for x in body.split(","))


# --------------------------------------------------------------------------------------------
# python mirrors of the reviver policies

def policy(mode):
    def pol(h, k, v):
        if mode == 1:
            return J.UNDEF if (v is None or v == "" and isinstance(v, str)) else v
        if mode == 2:
            if isinstance(v, bool):
                return not v
            if isinstance(v, float):
                return v + 1
            if isinstance(v, str):
                return v + "!"
            return v
        if mode == 3:
            if isinstance(v, list) and len(v) == 0:
                return J.Obj([("x", 1.0)])
            if isinstance(v, J.Obj) and len(v) == 0:
                return [7.0]
            return v
        if mode == 4:
            if isinstance(h, list):
                if k == "0" and len(h) > 1:
                    h[1] = J.HOLE
            else:
                ks = h.keys()
                if len(ks) > 1 and k == ks[0] and ks[-1] != "__proto__" and ks[-1] not in J.OBJECT_PROTO_FUNCS:
                    h.delete(ks[-1])  # (a deleted key that Object.prototype also has would be re-read from there)
            return v
        if mode == 5:
            if isinstance(h, list) and k == "0" and len(h) > 1:
                h[1] = "new"
            return v
        return v
    return pol


# --------------------------------------------------------------------------------------------
# known findings (file owned by this check)

def load_findings():
    try:
        with open(KNOWN_PATH) as f:
            return json.load(f)
    except FileNotFoundError:
        return []


def avoid_flags(findings):
    av = set()
    for k in findings:
        if k.get("status") == "open":
            for a in k.get("avoid", []):
                av.add(a)
    return av


# --------------------------------------------------------------------------------------------
# shared machinery

class Ctx:
    def __init__(self, chk, binary, pool, avoid):
        self.chk = chk
        self.binary = binary
        self.pool = pool
        self.avoid = avoid
        self.evaluations = 0
        self.nontrivial = set()
        self.hist = {}
        self.samples = []
        self.suspects = []      # model != V8 (reported, inconclusive)
        self.quarantined = {}   # avoided input classes met by the stream (not evaluated)
        self.observations = []
        self.nviol = 0
        self.phase = {}

    def count(self, group, key, n=1):
        g = self.hist.setdefault(group, {})
        g[key] = g.get(key, 0) + n

    def violation(self, what, replay):
        self.nviol += 1
        if self.nviol <= 25:
            self.chk.violation(what, replay)
        else:
            self.chk.violations.append({"what": what, "replay": None})

    def suspect(self, kind, detail):
        self.chk.inconc("model-vs-v8:" + kind)
        if len(self.suspects) < 20:
            self.suspects.append(detail)

    def run_both(self, jobs, tag, timeout=60):
        import threading
        import time
        t0 = time.time()
        box = {}

        def v8():
            box["rn"] = self.pool.run(jobs) if self.pool else [{"fatal": "node-unavailable"} for _ in jobs]
            box["t"] = time.time()
        th = threading.Thread(target=v8)
        th.start()
        rb = runner.run_bvh(self.binary, "session", jobs, tag, timeout=timeout, shards=10)
        t1 = time.time()
        th.join()
        self.phase[tag + ":boa"] = round(self.phase.get(tag + ":boa", 0) + t1 - t0, 1)
        self.phase[tag + ":v8(concurrent)"] = round(self.phase.get(tag + ":v8(concurrent)", 0) + box["t"] - t0, 1)
        return rb, box["rn"]


def short(s, n=160):
    s = s.encode("unicode_escape").decode("ascii") if isinstance(s, str) else str(s)
    return s if len(s) <= n else s[:n] + "...(%d)" % len(s)


def batches(items, size):
    for i in range(0, len(items), size):
        yield items[i:i + size]


def first_missing(ids, got):
    for i in ids:
        if i not in got:
            return i
    return None


def triage_fatal(cx, what, fatal, comp, culprit_replay):
    """a job did not print everything: classify. Returns True if a violation was raised."""
    f = fatal or comp or "no-output"
    if fatal and (fatal.startswith("panic") or fatal.startswith("died")):
        cx.violation("%s: boa crashed (%s)" % (what, fatal[:300]), culprit_replay)
        return True
    cx.chk.inconc("boa:" + f.split(":")[0][:40])
    return False


# --------------------------------------------------------------------------------------------
# stream A: JSON.parse accept/reject + value mapping

def gen_texts(r, n, avoid):
    """list of (text, origin)"""
    out = []
    for t in G.INJECTION_TEXTS:
        out.append((t, "injection"))
    for tok, over in G.NUMBER_TOKENS:
        out.append((tok, "number-token"))
        out.append(("[" + tok + "]", "number-token"))
    for s in G.BAD_NUMBERS:
        out.append((s, "bad-number-token"))
        out.append(('{"a":' + s + "}", "bad-number-token"))
    for s in G.BARE_WORDS:
        out.append((s, "bare-word-token"))
    for e in G.BAD_ESCAPES:
        out.append(('"' + e + '"', "bad-escape-token"))
    for w in G.BAD_WS:
        out.append((w + "1", "bad-ws-token"))
        out.append(("[1," + w + "2]", "bad-ws-token"))
        out.append(('"' + w + '"', "raw-in-string"))
    for c in range(0x20):
        out.append(('"' + chr(c) + '"', "control-in-string"))
        out.append((chr(c) + "0" + chr(c), "control-as-ws"))
    for s in G.STRINGS + G.LONE_STRINGS:
        out.append((G.spell_string(r, s), "string-pool"))
        out.append(('"' + "".join("\\u%04x" % ord(c) for c in s) + '"', "string-pool-escaped"))
    for u in G.LONG_UNITS:
        for reps in (4097, 65536 // len(u) + 1):
            out.append((G.spell_string(r, u * reps, avoid), "very-long-string"))
    for k in G.KEYS:
        out.append(("{" + G.spell_string(r, k) + ":1," + G.spell_string(r, k) + ":[2]}", "key-pool"))
    fixed = len(out)
    while len(out) < n + fixed:
        k = r.below(100)
        if k < 32:
            out.append((G.gen_text(r, 0, 12, avoid, [r.choice([2, 5, 10, 20, 40, 80])]), "grammar"))
        elif k < 40:
            v = G.gen_value(r, 0, 12, avoid, False, [r.choice([3, 10, 25, 60])])
            sp = G.gen_space(r, avoid)
            t = J.stringify(v, None, sp[1] if sp[3] else ("none",))
            out.append((t, "stringified"))
        elif k < 45:
            out.append((G.gen_deep_text(r, r.range(8, 12), avoid), "deep-valid"))
        elif k < 50:
            t = G.gen_deep_text(r, r.range(8, 12), avoid)
            m, name = G.mutate(r, t)
            out.append((m, "mut:" + name))
        elif k < 96:
            t = G.gen_text(r, 0, 12, avoid, [r.choice([1, 3, 8, 20, 40])])
            m, name = G.mutate(r, t)
            if r.below(6) == 0:
                m, name2 = G.mutate(r, m)
                name = name + "+" + name2
            out.append((m, "mut:" + name))
        else:
            out.append((r.choice(G.INJECTION_TEXTS) + r.choice(["", " ", "\n", ")", ";"]), "injection+"))
    return out


def model_parse(t):
    info = J.ParseInfo()
    try:
        v = J.parse(t, info)
        return True, v, info
    except J.JSONSyntaxError:
        return False, None, info


_POW10 = [float("1e%d" % k) for k in range(309)]
_U64 = 2 ** 64 - 1


def serde_rejects_number(tok):
    """Trigger matcher of known finding C18-F1: does serde_json 1.0.x (default features, no float_roundtrip) answer
    'number out of range' for this VALID number token?  Transcribed from serde_json::de (parse_integer / parse_decimal /
    parse_exponent / f64_from_parts): the digits are accumulated in a u64 (further digits are dropped, integer digits
    bump the exponent), then `significand as f64 * 10^exponent` is computed in double arithmetic and an infinite
    product is an error.  Used ONLY to keep the main stream out of the finding's input class."""
    i = 1 if tok[0] == "-" else 0
    n = len(tok)
    sig = 0
    exp = 0
    over = False
    while i < n and tok[i].isdigit():
        d = ord(tok[i]) - 48
        if over or sig * 10 + d > _U64:
            over = True
            exp += 1
        else:
            sig = sig * 10 + d
        i += 1
    if i < n and tok[i] == ".":
        i += 1
        while i < n and tok[i].isdigit():
            d = ord(tok[i]) - 48
            if over or sig * 10 + d > _U64:
                over = True
            else:
                sig = sig * 10 + d
                exp -= 1
            i += 1
    if i < n and tok[i] in "eE":
        i += 1
        pos = True
        if tok[i] in "+-":
            pos = tok[i] == "+"
            i += 1
        e = int(tok[i:])
        if e > 2 ** 31 - 1:
            return sig != 0 and pos
        exp = min(2 ** 31 - 1, exp + e) if pos else max(-2 ** 31, exp - e)
    f = float(sig)
    if exp < 0 or f == 0.0:
        return False
    if exp > 308:
        return True
    return f * _POW10[exp] == float("inf")


def quarantine_reason(cx, accepted, info, text):
    """the input classes of open known findings, as narrow as they can be stated:
    only ACCEPTED texts (per the model) that contain
      - a number token on which serde_json's approximate conversion overflows (all tokens with an infinite value and
        a few within an ulp of the overflow threshold), or
      - a string with an unpaired surrogate in its value, or an unpaired surrogate code unit in the raw text (e.g. an
        escaped high surrogate followed by a raw low one: the value is a proper pair, the text is not well-formed UTF-16)"""
    if not accepted:
        return None
    if G.AVOID_OVERFLOW in cx.avoid and any(serde_rejects_number(tok) for tok in info.edge_numbers):
        return G.AVOID_OVERFLOW
    if G.AVOID_LONE in cx.avoid and (info.lone_surrogate or J.has_lone_surrogate(text)):
        return G.AVOID_LONE
    return None


def stream_parse(cx, r, n, chunk=20000, per_job=250):
    seen = set()
    done = 0
    while done < n:
        m = min(chunk, n - done)
        raw = gen_texts(r.fork("texts", done), m, cx.avoid) if done == 0 else \
            [x for x in gen_texts(r.fork("texts", done), m, cx.avoid) if x[1] in ("grammar", "stringified", "deep-valid", "injection+") or x[1].startswith("mut:")]
        done += m
        items = []
        for t, origin in raw:
            if hash(t) in seen:
                cx.count("parse", "duplicate-text-skipped")
                continue
            seen.add(hash(t))
            acc, v, info = model_parse(t)
            x = J.pyjson_crosscheck(t, acc, v)
            if x:
                cx.chk.inconc("model-vs-pyjson")
                if len(cx.suspects) < 20:
                    cx.suspects.append({"kind": "pyjson", "text": short(t), "detail": x})
                continue
            q = quarantine_reason(cx, acc, info, t)
            if q:
                cx.quarantined[q] = cx.quarantined.get(q, 0) + 1
                continue
            exp = ("A " + J.dump(v)) if acc else "R SyntaxError"
            items.append((t, origin, acc, info, exp))
        jobs = []
        index = []
        for bi, b in enumerate(batches(list(enumerate(items)), per_job)):
            jobs.append(job(bi, "".join(p_item(i, it[0]) for i, it in b)))
            index.append([i for i, _ in b])
        rb, rn = cx.run_both(jobs, "c18p")
        for ids, resb, resn in zip(index, rb, rn):
            tb, fb, cb = parse_trace(resb)
            tn, fnn, cn = parse_trace(resn)
            miss = first_missing(ids, tb)
            if miss is not None:
                t = items[miss][0]
                triage_fatal(cx, "JSON.parse(%s)" % short(t), fb, cb, {"kind": "parse", "text_units": J.units(t), "expected": items[miss][4]})
            for i in ids:
                t, origin, acc, info, exp = items[i]
                got = tb.get(i)
                if not got:
                    if i != miss:
                        cx.chk.inconc("boa:job-aborted")
                    continue
                got = got[0]
                if got == "X":
                    cx.chk.inconc("transport:text-did-not-arrive-intact")
                    continue
                cx.evaluations += 1
                v8 = (tn.get(i) or [None])[0]
                cx.count("parse_origin", origin.split("+")[0])
                cx.count("parse_outcome", "accepted" if acc else "rejected")
                for ft in info.features if acc else ():
                    cx.count("parse_features", ft)
                if acc:
                    cx.count("parse_depth", str(info.max_depth))
                if got == exp:
                    if v8 is not None and v8 != exp and v8 != "X":
                        cx.suspect("parse", {"kind": "parse", "text": short(t), "model": short(exp), "v8": short(v8), "boa": "== model"})
                        continue
                    if len(t) >= 2:
                        cx.nontrivial.add(core.norm_hash(t))
                    if len(cx.samples) < 2 and acc and info.max_depth >= 2 and len(t) < 120:
                        cx.samples.append({"text": short(t), "boa": short(got, 300)})
                    if len(cx.samples) < 4 and not acc and origin.startswith("mut:") and len(t) < 80 and len(cx.samples) >= 2:
                        cx.samples.append({"text": short(t), "origin": origin, "boa": got})
                    continue
                # boa differs from the model
                if v8 is None or v8 == "X" or v8 == exp:
                    kind = "accept/reject" if got[0] != exp[0] else ("value mapping" if got[0] == "A" else "error class")
                    cx.violation("JSON.parse(%s) [%s]: %s differs: expected %s, boa gave %s (V8: %s)" % (
                        short(t), origin, kind, short(exp, 300), short(got, 300), "agrees with expected" if v8 == exp else "n/a"),
                        {"kind": "parse", "text_units": J.units(t), "expected": exp, "observed": got})
                else:
                    cx.suspect("parse", {"kind": "parse", "text": short(t), "model": short(exp), "v8": short(v8), "boa": short(got)})


# --------------------------------------------------------------------------------------------
# stream B: reviver walk

def model_revive(t, mode):
    info = J.ParseInfo()
    try:
        v, rec = J.parse_with_records(t, info)
    except J.JSONSyntaxError:
        return False, info, "R SyntaxError", "L "
    log = []
    res = J.internalize(v, rec, policy(mode), log, True)
    return True, info, "A " + J.dump(res), "L " + "|".join(log)


def stream_reviver(cx, r, n, per_job=120):
    items = []
    seen = set()
    fixed = ['{"a":1,"a":2}', '{"a":[1,2],"a":"x"}', '[-0,0,0.0,1e0,1E0,"\\u0061","a"]', '{"__proto__":{"a":1},"__proto__":[1]}',
             '{"1":1,"b":2,"0":3,"a":{"2":null,"x":""}}', " 1 ", "null", '""', "[]", "{}", "[[[[[[[[[[[[1]]]]]]]]]]]]", '{"":{"":{"":1}}}',
             '[1,[2,[3,null]],"",{"k":null}]', '{"a":1.50,"b":-0.0e5,"c":"\\/","d":true,"e":false}', '[1,2', "[1,]", "01"]
    while len(items) < n:
        if fixed:
            t = fixed.pop()
            modes = list(range(6))
        else:
            k = r.below(10)
            if k < 6:
                t = G.gen_text(r, 0, 12, cx.avoid, [r.choice([4, 8, 15, 25])])
            elif k < 7:
                t = G.gen_deep_text(r, r.range(6, 12), cx.avoid)
            elif k < 9:
                t = J.stringify(G.gen_value(r, 0, 12, cx.avoid, False, [15]), None, ("num", float(r.below(3))))
            else:
                t, _ = G.mutate(r, G.gen_text(r, 0, 12, cx.avoid, [8]))
            modes = [r.below(6)]
        for mode in modes:
            if (t, mode) in seen:
                continue
            seen.add((t, mode))
            acc, info, e1, e2 = model_revive(t, mode)
            q = quarantine_reason(cx, acc, info, t)
            if q:
                cx.quarantined[q] = cx.quarantined.get(q, 0) + 1
                continue
            items.append((t, mode, acc, info, e1, e2))
    jobs, index = [], []
    for bi, b in enumerate(batches(list(enumerate(items)), per_job)):
        jobs.append(job(bi, "".join(rv_item(i, it[0], it[1]) for i, it in b)))
        index.append([i for i, _ in b])
    rb, rn = cx.run_both(jobs, "c18r")
    for ids, resb, resn in zip(index, rb, rn):
        tb, fb, cb = parse_trace(resb)
        tn, _, _ = parse_trace(resn)
        miss = first_missing(ids, tb)
        if miss is not None:
            t = items[miss][0]
            triage_fatal(cx, "JSON.parse(%s, reviver#%d)" % (short(t), items[miss][1]), fb, cb,
                         {"kind": "reviver", "text_units": J.units(t), "mode": items[miss][1]})
        for i in ids:
            t, mode, acc, info, e1, e2 = items[i]
            got = tb.get(i)
            if not got or len(got) < 2:
                if got and got[0] == "X":
                    cx.chk.inconc("transport:text-did-not-arrive-intact")
                elif i != miss:
                    cx.chk.inconc("boa:job-aborted")
                continue
            cx.evaluations += 1
            exp = [e1, e2]
            v8 = tn.get(i)
            ncalls = e2.count("|") + 1 if acc else 0
            cx.count("reviver", "policy-%d" % mode)
            cx.count("reviver", "accepted" if acc else "rejected")
            cx.count("reviver_calls", "total", ncalls)
            if "dup-key" in info.features and acc:
                cx.count("reviver", "with-duplicate-keys")
            if got == exp:
                if v8 is not None and v8 != exp:
                    cx.suspect("reviver", {"kind": "reviver", "text": short(t), "mode": mode, "model": [short(x, 400) for x in exp], "v8": [short(x, 400) for x in v8], "boa": "== model"})
                    continue
                if ncalls >= 2:
                    cx.nontrivial.add(core.norm_hash(t + "#rv%d" % mode))
                continue
            if v8 is None or v8 == exp:
                which = "result" if got[0] != exp[0] else "call sequence / context.source"
                cx.violation("JSON.parse(%s, reviver policy %d): %s differs: expected %s, boa gave %s (V8: %s)" % (
                    short(t), mode, which, [short(x, 300) for x in exp], [short(x, 300) for x in got], "agrees with expected" if v8 == exp else "n/a"),
                    {"kind": "reviver", "text_units": J.units(t), "mode": mode, "expected": exp, "observed": got})
            else:
                cx.suspect("reviver", {"kind": "reviver", "text": short(t), "mode": mode, "model": [short(x, 400) for x in exp], "v8": [short(x, 400) for x in v8], "boa": [short(x, 400) for x in got]})


# --------------------------------------------------------------------------------------------
# stream C: JSON.stringify (+ round trip)

def gen_stringify_item(cx, r):
    k = r.below(10)
    plain = k < 6
    # JSON.stringify itself is not affected by the open findings, but the parse-back is: most values stay out of the
    # avoided classes so that the round trip (iv) is checked; one in six may contain unpaired surrogates
    # (well-formed-stringify escaping), and then only the stringify half is checked
    av = () if r.below(6) == 0 else tuple(cx.avoid)
    if plain:
        if r.below(8) == 0:
            v = G.gen_deep_value(r, r.range(8, 12), av)
        else:
            v = G.gen_value(r, 0, 12, av, True, [r.choice([5, 15, 40])])
    else:
        v = G.gen_decorated(r, 0, 6, av, [r.choice([6, 15, 30])])
    feats = set()
    G.value_features(v, feats)
    has_cycle = G.contains(v, lambda x: isinstance(x, J.CycleRef))
    if has_cycle:
        feats.add("cycle")
    src = G.value_to_js(v)
    rep_src, rep, rep_tag = G.gen_replacer(r, v)
    sp_src, sp, sp_tag, ws_only = G.gen_space(r)
    if has_cycle:
        J.resolve_cycles(v)
    log = []
    try:
        res = J.stringify(v, rep, sp, log)
        e_main = "U" if res is J.UNDEF else "T " + J.dump(res)
    except J.JSTypeError:
        res = None
        e_main = "E TypeError"
    flags = (1 if plain else 0) | (4 if has_cycle else 0)
    exp = []
    if plain:
        exp.append("c " + J.dump(v))
    exp.append(e_main)
    exp.append("g " + "|".join(log))
    selfcheck = None
    if isinstance(res, str):
        acc, pv, info = model_parse(res)
        if ws_only and not acc:
            selfcheck = "model stringify output is not accepted by the model recogniser"
        elif ws_only and plain and rep is None and J.dump(pv) != J.dump(J.json_image(v)):
            selfcheck = "model parse(stringify(v)) is not the JSON image of v"
        q = quarantine_reason(cx, acc, info, res)
        if q:
            cx.quarantined[q + " (round trip only)"] = cx.quarantined.get(q + " (round trip only)", 0) + 1
        else:
            flags |= 2
            exp.append("rt " + (("A " + J.dump(pv)) if acc else "R SyntaxError"))
    body = "S(%%d,function(){return %s},%s,%s,%d);\n" % (src.replace("%", "%%"), rep_src.replace("%", "%%"), sp_src.replace("%", "%%"), flags)
    # V8 deviates from ECMA-262 for a numeric indent strictly between 0 and 1 (it still emits line breaks: ToIntegerOrInfinity
    # gives 0, so the gap must be empty): V8 is not consulted there
    nov8 = sp[0] in ("num", "boxnum") and 0 < sp[1] < 1
    return {"nov8": nov8, "body": body, "exp": exp, "feats": feats, "rep": rep_tag, "space": sp_tag, "plain": plain, "selfcheck": selfcheck,
            "res": res, "main": e_main[0], "desc": "JSON.stringify(%s, %s, %s)" % (short(src, 300), short(rep_src, 120), short(sp_src, 40)), "ws_only": ws_only}


def stream_stringify(cx, r, n, per_job=100):
    items = []
    seen = set()
    while len(items) < n:
        it = gen_stringify_item(cx, r)
        if it["body"] in seen:
            continue
        seen.add(it["body"])
        if it["selfcheck"]:
            cx.chk.inconc("model-self-check")
            if len(cx.suspects) < 20:
                cx.suspects.append({"kind": "model-self", "case": it["desc"], "detail": it["selfcheck"]})
            continue
        items.append(it)
    jobs, index = [], []
    for bi, b in enumerate(batches(list(enumerate(items)), per_job)):
        jobs.append(job(bi, "".join(it["body"] % i for i, it in b)))
        index.append([i for i, _ in b])
    rb, rn = cx.run_both(jobs, "c18s")
    for ids, resb, resn in zip(index, rb, rn):
        tb, fb, cb = parse_trace(resb)
        tn, _, _ = parse_trace(resn)
        miss = first_missing(ids, tb)
        if miss is not None:
            triage_fatal(cx, items[miss]["desc"], fb, cb, {"kind": "stringify", "body": items[miss]["body"] % 0})
        for i in ids:
            it = items[i]
            got = tb.get(i)
            exp = it["exp"]
            if not got:
                if i != miss:
                    cx.chk.inconc("boa:job-aborted")
                continue
            if got[0].startswith("X"):
                cx.chk.inconc("construction:value-builder-threw")
                continue
            if it["plain"] and got[0] != exp[0]:
                # the value was not built as intended (number literal / object literal semantics: other properties' domain)
                cx.chk.inconc("construction:value-differs")
                continue
            cx.evaluations += 1
            v8 = None if it["nov8"] else tn.get(i)
            if it["nov8"]:
                cx.count("stringify_space", "v8-not-consulted(0<indent<1)")
            cx.count("stringify_replacer", it["rep"])
            cx.count("stringify_space", it["space"])
            cx.count("stringify_outcome", {"T": "text", "U": "undefined", "E": "TypeError"}[it["main"]])
            for ft in it["feats"]:
                cx.count("value_features", ft)
            if got == exp:
                if v8 is not None and v8 != exp:
                    cx.suspect("stringify", {"kind": "stringify", "case": it["desc"], "model": [short(x, 300) for x in exp], "v8": [short(x, 300) for x in v8], "boa": "== model"})
                    continue
                if any(f in it["feats"] for f in ("array", "object")) or it["rep"] != "none":
                    cx.nontrivial.add(core.norm_hash(it["body"]))
                if any(x.startswith("rt ") for x in exp):
                    cx.count("roundtrip", "checked")
                if len(cx.samples) < 6 and isinstance(it["res"], str) and 10 < len(it["res"]) < 100 and it["rep"] != "none":
                    cx.samples.append({"case": it["desc"], "boa_text": short(it["res"], 200)})
                continue
            if v8 is None or v8 == exp:
                # which part differs
                part = "text"
                for a, b in zip(got, exp):
                    if a != b:
                        part = {"c": "construction", "g": "toJSON/replacer call log", "r": "parse(stringify(v)) round trip"}.get(b[0] if b[1:2] == " " or b[:2] == "rt" else "", "result")
                        break
                note = ""
                bt = [x for x in got if x.startswith("T ")]
                if bt and it["ws_only"]:
                    try:
                        ok = J.accepts(undump_string(bt[0][2:]))
                    except Exception:
                        ok = None
                    note = "; boa's text is %svalid JSON per the recogniser" % ("" if ok else "NOT ")
                cx.violation("%s: %s differs: expected %s, boa gave %s (V8: %s)%s" % (
                    it["desc"], part, [short(x, 300) for x in exp], [short(x, 300) for x in got], "agrees with expected" if v8 == exp else "n/a", note),
                    {"kind": "stringify", "body": it["body"] % 0, "expected": exp, "observed": got})
            else:
                cx.suspect("stringify", {"kind": "stringify", "case": it["desc"], "model": [short(x, 300) for x in exp], "v8": [short(x, 300) for x in v8], "boa": [short(x, 300) for x in got]})


# --------------------------------------------------------------------------------------------
# stream D: fixed semantic cases (hand-derived expectations from ECMA-262 25.5; V8 as second opinion)

FIXED = [
    # ToString(text) coercion
    ("D(JP(123))", "V d1079951360.0"), ("D(JP(null))", "V n"), ("D(JP(true))", "V t"), ("JP(undefined)", "E SyntaxError"), ("JP()", "E SyntaxError"),
    ("D(JP({toString:function(){return '[1]'}}))", "V a1[d1072693248.0]"), ("D(JP([1]))", "V d1072693248.0"), ("JP([1,2])", "E SyntaxError"),
    ("JP({})", "E SyntaxError"), ("D(JP(new String('\"x\"')))", "V s1<120>"), ("JP(Symbol())", "E TypeError"), ("D(JP(-0))", "V d0.0"),
    ("JP(1n)===1", "V true"), ("JP(NaN)", "E SyntaxError"), ("JP(Infinity)", "E SyntaxError"), ("D(JP(1e21))", "V " + J.dump(1e21)),
    ("D(JP('  [1] ', 5))", "V a1[d1072693248.0]"), ("D(JP('[1]', {}))", "V a1[d1072693248.0]"),
    # __proto__ is an ordinary own key; nothing leaks into prototypes
    ("var o=JP('{\"__proto__\":[1]}');(gpo(o)===OP)+','+OK(o).join()+','+isA(o.__proto__)", "V true,__proto__,true"),
    ("var o=JP('{\"__proto__\":null}');(gpo(o)===OP)+','+D(o)", "V true,o{s9<95,95,112,114,111,116,111,95,95>:n}"),
    ("JP('{\"__proto__\":{\"polluted\":1}}');typeof ({}).polluted", "V undefined"),
    ("JP('{\"constructor\":{\"prototype\":{\"p\":1}}}');typeof ({}).p", "V undefined"),
    # property setters on Object.prototype / Array.prototype must not be triggered (CreateDataProperty)
    ("var hit=0;dp(OP,'zz',{set:function(){hit++},configurable:true});var o=JP('{\"zz\":1}');delete OP.zz;hit+','+D(o)", "V 0,o{s2<122,122>:d1072693248.0}"),
    ("var hit=0;dp(AP,'0',{set:function(){hit++},configurable:true});var o=JP('[5]');delete AP[0];hit+','+D(o)", "V 0,a1[d1075052544.0]"),
    # reviver specifics
    ("D(JP('[1,2]',function(k,v){return k===''?v:undefined}))", "V a2[h,h]"),
    ("D(JP('{\"a\":1}',function(k,v){return k===''?undefined:v}))", "V u"),
    ("var n=0;try{JP('[1,2,3]',function(k,v){n++;if(k==='1')throw new RangeError('x');return v})}catch(e){n+=EC(e)};n", "V 2RangeError"),
    ("var th=[];JP('1',function(k,v){th.push(typeof this+OK(this).length+U(k));return v});th.join()", "V object1s0<>"),
    ("D(JP('{\"a\":{\"b\":1}}',function(k,v){if(k==='a')return 5;return v}))", "V o{s1<97>:d1075052544.0}"),
    ("D(JP('[[1]]',function(k,v){if(isA(v)&&v.length===1&&typeof v[0]==='number')v.push(9);return v}))", "V a1[a2[d1072693248.0,d1075970048.0]]"),
    ("var o=JP('{\"a\":1,\"b\":2}',function(k,v){if(k==='a')dp(this,'b',{value:7,configurable:false,writable:true,enumerable:true});return k==='b'?undefined:v});D(o)",
     "V o{s1<97>:d1072693248.0,s1<98>:!d1075576832.0}"),
    # stringify specifics
    ("JS(undefined)===undefined", "V true"), ("JS(function(){})===undefined", "V true"), ("JS(Symbol())===undefined", "V true"),
    ("JS()===undefined", "V true"), ("JS(null)", "V null"), ("JS(-0)", "V 0"), ("JS([undefined,function(){},Symbol()])", "V [null,null,null]"),
    ("JS({a:undefined,b:function(){},c:Symbol(),d:1})", 'V {"d":1}'), ("JS(1n)", "E TypeError"), ("JS({a:1n})", "E TypeError"), ("JS(Object(1n))", "E TypeError"),
    ("BigInt.prototype.toJSON=function(){return 'big'};var s=JS([1n,Object(2n)]);delete BigInt.prototype.toJSON;s", 'V ["big","big"]'),
    ("var a=[];a[0]=a;JS(a)", "E TypeError"), ("var o={};o.o=o;JS(o)", "E TypeError"), ("var o={};var a=[o,o];JS(a)", "V [{},{}]"),
    ("var o={};o.a={b:{c:o}};JS(o)", "E TypeError"), ("var o={a:1};JS({x:o,y:o,z:[o]})", 'V {"x":{"a":1},"y":{"a":1},"z":[{"a":1}]}'),
    ("var o={};o.t={toJSON:function(){return o}};JS(o)", "E TypeError"),
    ("var o={};JS({a:o},function(k,v){return k==='b'?1:(k==='a'?{b:v}:v)})", 'V {"a":{"b":1}}'),
    ("JS(new Proxy([1,2],{}))", "V [1,2]"), ("JS(new Proxy({a:1},{}))", 'V {"a":1}'), ("JS([new Proxy([],{})])", "V [[]]"),
    ("var r=Proxy.revocable([],{});r.revoke();JS(r.proxy)", "E TypeError"),
    ("JS({a:1,b:2},new Proxy(['b'],{}))", 'V {"b":2}'),
    ("JS({get a(){return 5},b:2})", 'V {"a":5,"b":2}'), ("JS({get a(){throw new RangeError('x')}})", "E RangeError"),
    ("JS({toJSON:function(){throw new RangeError('x')}})", "E RangeError"), ("JS({a:1},function(){throw new RangeError('x')})", "E RangeError"),
    ("JS(new Map([[1,2]]))", "V {}"), ("JS(new Set([1]))", "V {}"), ("JS(/x/)", "V {}"), ("JS(new Error('m'))", "V {}"), ("JS(new Uint8Array([1,2]))", 'V {"0":1,"1":2}'),
    ("JS(Object.create({inherited:1}))", "V {}"), ("JS(Object.create(null))", "V {}"),
    ("var o=Object.create({toJSON:function(k){return 'inh:'+k}});JS({p:o})", 'V {"p":"inh:p"}'),
    ("String.prototype.toJSON=function(){return 'no'};var s=JS(['a',new String('b')]);delete String.prototype.toJSON;s", 'V ["a","no"]'),
    ("var n=new Number(3);n.valueOf=function(){return 42};n.toString=function(){return '7'};JS(n)", "V 42"),
    ("var s=new String('x');s.toString=function(){return 'y'};s.valueOf=function(){return 'z'};JS(s)", 'V "y"'),
    ("var b=new Boolean(false);b.valueOf=function(){return true};JS(b)", "V false"),
    ("var n=new Number(1);n.valueOf=function(){throw new RangeError('x')};JS({n:n})", "E RangeError"),
    ("var sp=new Number(2);sp.valueOf=function(){return 4};JS([1],null,sp)", "V [\n    1\n]"),
    ("var sp=new String(' ');sp.toString=function(){return '--'};JS([1],null,sp)", "V [\n--1\n]"),
    ("var a=[1,2,3];a.extra=5;JS(a)", "V [1,2,3]"), ("var a=[1];a.length=3;JS(a)", "V [1,null,null]"),
    ("JS({length:2,0:'a',1:'b'})", 'V {"0":"a","1":"b","length":2}'),
    ("JS({b:1,a:2,1:3,0:4})", 'V {"0":4,"1":3,"b":1,"a":2}'),
    ("JS({a:1,b:2,c:3},['c','a','c',1,new String('b'),new Number(1),{},null,true])", 'V {"c":3,"a":1,"b":2}'),
    ("JS({1:'x',a:{1:'y',b:2}},[1])", 'V {"1":"x"}'), ("JS([{a:1,b:2}],['b'])", 'V [{"b":2}]'), ("JS({a:[{b:1,c:2}]},['a','c'])", 'V {"a":[{"c":2}]}'),
    ("JS({a:1},[])", "V {}"), ("JS({},['__proto__'])", 'V {"__proto__":{"__proto__":null}}'),
    ("var k=[];JS({a:{b:1}},function(x,v){k.push(x);return v});k.join('/')", "V /a/b"),
    ("var k=[];JS({a:[7,8]},function(x,v){k.push(typeof x+':'+x);return v});k.join('/')", "V string:/string:a/string:0/string:1"),
    ("var h;JS(5,function(k,v){h=this;return v});OK(h).join()+':'+h['']+':'+(gpo(h)===OP)", "V :5:true"),
    ("var t,o={a:{toJSON:function(k){t=(this===o.a)+':'+k;return 1}}};JS(o);t", "V true:a"),
    ("JS('\\u2028\\u2029')===String.fromCharCode(34,0x2028,0x2029,34)", "V true"),
    ("JS('\\ud800')==='\"\\\\ud800\"'", "V true"), ("JS('\\udc00\\ud800').length", "V 14"), ("JS('\\ud83d\\ude00').length", "V 4"),
    ("JS('\\x7f\\x80')===String.fromCharCode(34,0x7f,0x80,34)", "V true"), ("JS('\\u0000\\u001f')", 'V "\\u0000\\u001f"'), ("JS('\\b\\f\\n\\r\\t\\v')", 'V "\\b\\f\\n\\r\\t\\u000b"'),
    ("JS('/')", 'V "/"'), ("JS({'\\n':1})", 'V {"\\n":1}'), ("JS([[]],null,2)", "V [\n  []\n]"), ("JS({a:{}},null,2)", 'V {\n  "a": {}\n}'),
    ("JS([1,[2]],null,'ab')", "V [\nab1,\nab[\nabab2\nab]\n]"), ("JS({a:1},null,'0123456789XYZ')", 'V {\n0123456789"a": 1\n}'),
    ("JS([1],null,20).length", "V 15"), ("JS([1],null,0.99)", "V [1]", "nov8"), ("JS([1],null,-5)", "V [1]"), ("JS([1],null,'')", "V [1]"), ("JS([1],null,true)", "V [1]"),
    ("JS([1],null,[' '])", "V [1]"), ("JS([1],null,1.9)", "V [\n 1\n]"), ("JS(1e21)", "V 1e+21"), ("JS(1e-7)", "V 1e-7"), ("JS(123456789012345680000)", "V 123456789012345680000"),
    ("JS(5e-324)", "V 5e-324"), ("JS(1.7976931348623157e308)", "V 1.7976931348623157e+308"), ("JS(0.1+0.2)", "V 0.30000000000000004"),
    ("JS([NaN,Infinity,-Infinity])", "V [null,null,null]"), ("JS({a:NaN})", 'V {"a":null}'),
    ("typeof JSON[Symbol.toStringTag]+JSON[Symbol.toStringTag]+Object.prototype.toString.call(JSON)", "V stringJSON[object JSON]"),
    ("JP.length+','+JS.length+','+JP.name+','+JS.name", "V 2,3,parse,stringify"),
    ("var d=gd(JSON,'parse');d.writable+','+d.enumerable+','+d.configurable", "V true,false,true"),
    ("new JSON.parse('1')", "E TypeError"), ("JSON()", "E TypeError"), ("new JSON()", "E TypeError"),
]


def stream_fixed(cx):
    # one case per job so that prototype tampering of a case cannot leak
    jobs = [job(i, "F(%d,function(){%s});\n" % (i, _as_return(c[0]))) for i, c in enumerate(FIXED)]
    rb, rn = cx.run_both(jobs, "c18f")
    for i, (case, resb, resn) in enumerate(zip(FIXED, rb, rn)):
        src, exp = case[0], case[1]
        tb, fb, cb = parse_trace(resb)
        tn, _, _ = parse_trace(resn)
        got = (tb.get(i) or [None])[0]
        v8 = None if len(case) > 2 else (tn.get(i) or [None])[0]  # "nov8": documented V8 deviation
        if got is None:
            triage_fatal(cx, "fixed case `%s`" % src, fb, cb, {"kind": "fixed", "src": src, "expected": exp})
            continue
        cx.evaluations += 1
        cx.count("fixed_cases", "run")
        if got == exp:
            if v8 is not None and v8 != exp:
                cx.suspect("fixed", {"kind": "fixed", "src": src, "model": exp, "v8": v8, "boa": "== model"})
            else:
                cx.nontrivial.add(core.norm_hash("fixed:" + src))
            continue
        if v8 is None or v8 == exp:
            cx.violation("`%s`: expected %s, boa gave %s (V8: %s)" % (src, short(exp, 300), short(got, 300), "agrees with expected" if v8 == exp else "n/a"),
                         {"kind": "fixed", "src": src, "expected": exp, "observed": got})
        else:
            cx.suspect("fixed", {"kind": "fixed", "src": src, "model": exp, "v8": v8, "boa": got})


def _as_return(src):
    """the last `;`-separated statement of src becomes the returned expression"""
    depth = 0
    cut = -1
    instr = None
    i = 0
    while i < len(src):
        c = src[i]
        if instr:
            if c == "\\":
                i += 1
            elif c == instr:
                instr = None
        elif c in "'\"":
            instr = c
        elif c in "([{":
            depth += 1
        elif c in ")]}":
            depth -= 1
        elif c == ";" and depth == 0:
            cut = i
        i += 1
    return src[:cut + 1] + "return " + src[cut + 1:]


# --------------------------------------------------------------------------------------------
# stream E: nesting-depth probes (conclusive up to the property's depth bound 12; observation beyond)

def stream_depth(cx, r, depths):
    items = []
    for d in depths:
        for t, shape in G.depth_probe(r, d):
            items.append((d, shape, t))
    jobs = [job(i, "PD(%d,%s,%d);\n" % (i, G.js_lit(t), len(t))) for i, (d, shape, t) in enumerate(items)]
    rb = runner.run_bvh(cx.binary, "session", jobs, "c18d", timeout=60)
    for i, ((d, shape, t), res) in enumerate(zip(items, rb)):
        tb, fb, cb = parse_trace(res)
        got = (tb.get(i) or [None])[0]
        exp = "A %d" % d
        outcome = got if got is not None else (fb or cb or "no-output")
        if d <= 12:
            cx.evaluations += 1
            if got == exp:
                cx.nontrivial.add(core.norm_hash(t))
            elif got is None:
                triage_fatal(cx, "JSON.parse of depth-%d %s" % (d, shape), fb, cb, {"kind": "parse", "text_units": J.units(t), "expected": exp})
            else:
                cx.violation("JSON.parse of a depth-%d text (%s): expected %s, got %s" % (d, shape, exp, got), {"kind": "parse-depth", "text_units": J.units(t), "expected": exp})
        else:
            cx.observations.append({"depth": d, "shape": shape, "boa": outcome[:120], "expected_by_grammar": exp})
            if got != exp:
                cx.chk.inconc("depth>12:boa-did-not-accept")
            cx.count("depth_probes_beyond_bound", "accepted" if got == exp else "not-accepted")


# --------------------------------------------------------------------------------------------
# known findings: exact reproducers, replayed on every run

def finding_texts(k):
    rep = k.get("reproducer", {})
    return [J.to_u16(t) for t in rep.get("texts", [])]


def replay_known(cx, findings):
    cases = []
    for k in findings:
        if k.get("status") != "open" or k.get("reproducer", {}).get("kind") != "parse-texts":
            continue
        for t in finding_texts(k):
            cases.append((k, t))
    if not cases:
        return
    jobs = [job(i, p_item(i, t)) for i, (k, t) in enumerate(cases)]
    rb = runner.run_bvh(cx.binary, "session", jobs, "c18k", timeout=60)
    still = {}
    for i, ((k, t), res) in enumerate(zip(cases, rb)):
        tb, fb, cb = parse_trace(res)
        got = (tb.get(i) or [None])[0]
        acc, v, info = model_parse(t)
        exp = ("A " + J.dump(v)) if acc else "R SyntaxError"
        if got == exp:
            continue  # no longer failing
        if got == k["reproducer"].get("observed_line", "R SyntaxError"):
            still.setdefault(k["id"], [k, 0])[1] += 1
            continue
        cx.violation("known finding %s: reproducer JSON.parse(%s) fails differently: expected %s, observed %s" % (
            k["id"], short(t), short(exp, 300), short(got or fb or cb or "no-output", 300)), {"kind": "parse", "text_units": J.units(t), "expected": exp})
    for fid, (k, n) in still.items():
        cx.chk.known_finding(k, "%s — %d/%d reproducers still fail (%s)" % (k["title"], n, len(finding_texts(k)), k["id"]))
        cx.chk.known_hits[fid] = n


# --------------------------------------------------------------------------------------------

def run(tier, seed):
    chk = core.Check(PID, tier, seed)
    thorough = tier == "thorough"
    findings = load_findings()
    avoid = avoid_flags(findings)
    binary = build.ensure("bvh", "native")
    pool = runner.NodePool(6, timeout_ms=20000) if runner.node_available() else None
    if pool is None:
        chk.inconc("v8-unavailable")
    cx = Ctx(chk, binary, pool, avoid)
    r = Rng(seed, "c18")
    n_texts, n_rev, n_vals = (30000, 4000, 6000) if not thorough else (800000, 80000, 160000)
    try:
        stream_fixed(cx)
        stream_parse(cx, r.fork("parse"), n_texts)
        k = 0
        while k < n_rev:
            m = min(10000, n_rev - k)
            stream_reviver(cx, r.fork("reviver", k), m)
            k += m
        k = 0
        while k < n_vals:
            m = min(10000, n_vals - k)
            stream_stringify(cx, r.fork("stringify", k), m)
            k += m
        stream_depth(cx, r.fork("depth"), [1, 2, 11, 12, 13, 64, 127, 128, 129, 200, 1000] + ([5000] if thorough else []))
        replay_known(cx, findings)
    finally:
        if pool:
            pool.close()
    chk.assumptions = [
        "the recogniser/mapper/stringify/reviver model in vlib/models/jsonref.py is the specification (ECMA-404 + ECMA-262 25.5, json-parse-with-source for context.source)",
        "texts reach the program as JS string literals with \\uXXXX escapes; each item re-checks length and a hash of the code units inside the program",
        "V8 (node 20, --harmony-json-parse-with-source) is only a second opinion: model != V8 is inconclusive and listed under model_vs_v8",
        "main stream avoids the input classes of OPEN known findings: %s (their exact reproducers are replayed instead)" % (sorted(avoid) or "none"),
        "nesting deeper than 12 is outside the property's bound: probed and reported as observation only",
        "numbers are built from Python repr() literals and verified by a structural dump before use (a construction mismatch is inconclusive: other properties' domain)",
    ]
    return chk.finish(
        evaluations=cx.evaluations,
        distinct_nontrivial=len(cx.nontrivial),
        rule="evaluation = one JSON.parse(text) / JSON.parse(text, reviver) / JSON.stringify(value, replacer, indent)(+parse back) / fixed case, compared with the model "
             "(and V8); non-trivial = conclusive, agreed by V8 where V8 answered, and: text of >= 2 code units (parse), >= 2 reviver calls (reviver), "
             "a container value or a replacer (stringify); distinct by hash of text / program",
        samples=cx.samples,
        extra={
            "exhaustive": False,
            "histograms": cx.hist,
            "avoided_classes_met_and_skipped": cx.quarantined,
            "avoid_flags": sorted(avoid),
            "model_vs_v8": cx.suspects,
            "depth_probe_observations": cx.observations,
            "phase_seconds": cx.phase,
        },
        min_nontrivial=1000,
    )


def replay(path, seed):
    chk = core.Check(PID, "quick", seed)
    with open(path) as f:
        rep = json.load(f)
    binary = build.ensure("bvh", "native")
    kind = rep.get("kind")
    if kind in ("parse", "parse-depth"):
        t = "".join(chr(u) for u in rep["text_units"])
        body = p_item(0, t) if kind == "parse" else "PD(0,%s,%d);\n" % (G.js_lit(t), len(t))
        exp = [rep.get("expected")]
    elif kind == "reviver":
        t = "".join(chr(u) for u in rep["text_units"])
        body = rv_item(0, t, rep["mode"])
        exp = rep.get("expected") or list(model_revive(t, rep["mode"])[2:])
    elif kind == "stringify":
        body = rep["body"]
        exp = rep.get("expected")
    elif kind == "fixed":
        body = "F(0,function(){%s});\n" % _as_return(rep["src"])
        exp = [rep["expected"]]
    else:
        print("unknown replay kind %r" % kind)
        return 2
    res = runner.run_bvh(binary, "session", [job(0, body)], "c18replay", shards=1, timeout=60)[0]
    tb, fb, cb = parse_trace(res)
    got = tb.get(0)
    print("expected:", exp)
    print("observed:", got, fb or "", cb or "")
    if got is not None and exp is not None and list(got) == list(exp):
        print("%s: replay agrees with the expectation now" % PID)
        return 0
    if got is None and not (fb and (fb.startswith("panic") or fb.startswith("died"))):
        print("NO-VERDICT %s: replay produced no output (%s)" % (PID, fb or cb))
        return 2
    print("VIOLATION property=%s replay=%s" % (PID, path))
    return 1
