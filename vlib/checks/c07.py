"""C07 — every host entry leaves the VM balanced and the context reusable.

Monitors: (1) conservation at the host boundary: (frames, value-stack length, pending exception,
host_call_depth) read through the `vm_depths` hook before and after every entry must be equal;
(2) twin context: context A runs the whole sequence, context B only its successful entries; every
successful entry must give the same record in both."""
import json

from .. import build, core, runner
from ..rng import Rng
from ..core import norm_hash

SETUP = r"""
var __n = 0;
function okf(a, b) { __n++; return [a, b, __n]; }
function thrower(k) { if (k > 0) return thrower(k - 1); throw new RangeError('deep'); }
function argthrower() { return okf(1, thrower(0)); }
function pure(a, b) { return [a, b]; }
function nested(a) { return pure(pure(1, 2), [3, pure(4, thrower(a))]); }
function looper() { var i = 0; while (true) { i++; } }
function recurser() { return recurser() + 1; }
function Ctor(a) { this.a = a; __n++; }
function BadCtor() { throw new TypeError('ctor'); }
class Klass { constructor(a) { this.v = a; } static make() { return new Klass(1); } }
var bound = okf.bind(null, 'b');
var proxyf = new Proxy(okf, {});
var badproxy = new Proxy(okf, { apply() { throw new EvalError('trap'); } });
function* gen() { try { var x = yield 1; yield x; yield thrower(0); } finally { pure(1, 2); } }
var __gen = gen();
function reviver(k, v) { if (k === 'boom') throw new SyntaxError('reviver'); return v; }
var getterobj = { get g() { return thrower(2); } };
function catcher() { for (var i = 0; i < 5; i++) { try { okf(i, thrower(1)); } catch (e) {} } return 'caught5'; }
function finallyer() { try { return thrower(0); } finally { pure(3, 4); } }
"""

# (name, step, expected kind) — failing entries have no script-visible side effect before they fail
ENTRIES = [
    ("eval-ok", {"op": "eval", "src": "okf(1, 2)"}, "ok"),
    ("eval-ok-print", {"op": "eval", "src": "print('p', __n); __n"}, "ok"),
    ("eval-ok-catch-inside", {"op": "eval", "src": "catcher()"}, "ok"),
    ("eval-throw-top", {"op": "eval", "src": "throw new Error('top')"}, "fail"),
    ("eval-throw-deep", {"op": "eval", "src": "thrower(6)"}, "fail"),
    ("eval-throw-half-built-call", {"op": "eval", "src": "argthrower()"}, "fail"),
    ("eval-throw-nested-args", {"op": "eval", "src": "nested(3)"}, "fail"),
    ("eval-throw-getter", {"op": "eval", "src": "getterobj.g"}, "fail"),
    ("eval-early-syntax", {"op": "eval", "src": "let = ;"}, "fail"),
    ("eval-runtime-syntax", {"op": "eval", "src": "eval('let a = ;')"}, "fail"),
    ("eval-reference", {"op": "eval", "src": "undeclaredName + 1"}, "fail"),
    ("eval-loop-limit", {"op": "eval", "src": "looper()"}, "fail"),
    ("eval-loop-limit-top", {"op": "eval", "src": "while (true) {}"}, "fail"),
    ("eval-recursion-limit", {"op": "eval", "src": "recurser()"}, "fail"),
    ("eval-limit-in-try", {"op": "eval", "src": "try { looper() } catch (e) { 1 } finally { 2 }"}, "fail"),
    ("eval-limit-in-native-callback", {"op": "eval", "src": "[1, 2, 3].map(function () { return looper(); })"}, "fail"),
    ("eval-redeclare", {"op": "eval", "src": "let __dup = 1; let __dup = 2;"}, "fail"),
    ("script-ok", {"op": "parse_then_eval", "src": "okf('s', 1)"}, "ok"),
    ("script-throw", {"op": "parse_then_eval", "src": "finallyer()"}, "fail"),
    ("call-ok", {"op": "call", "name": "okf", "args": [1, 2]}, "ok"),
    ("call-bound", {"op": "call", "name": "bound", "args": [5]}, "ok"),
    ("call-proxy", {"op": "call", "name": "proxyf", "args": [7, 8]}, "ok"),
    ("call-native", {"op": "call", "name": "Math.max", "args": [1, 9, 3]}, "ok"),
    ("call-throw", {"op": "call", "name": "thrower", "args": [3]}, "fail"),
    ("call-throw-half-built", {"op": "call", "name": "argthrower"}, "fail"),
    ("call-badproxy", {"op": "call", "name": "badproxy", "args": [1]}, "fail"),
    ("call-class-without-new", {"op": "call", "name": "Klass", "args": [1]}, "fail"),
    ("call-loop-limit", {"op": "call", "name": "looper"}, "fail"),
    ("call-recursion-limit", {"op": "call", "name": "recurser"}, "fail"),
    ("call-json-parse-ok", {"op": "call", "name": "JSON.parse", "args": ["[1,{\"a\":2}]", {"$global": "reviver"}]}, "ok"),
    ("call-json-parse-reviver-throws", {"op": "call", "name": "JSON.parse", "args": ["{\"boom\":1}", {"$global": "reviver"}]}, "fail"),
    ("call-json-parse-syntax", {"op": "call", "name": "JSON.parse", "args": ["[1,"]}, "fail"),
    ("construct-ok", {"op": "construct", "name": "Ctor", "args": [4]}, "ok"),
    ("construct-class", {"op": "construct", "name": "Klass", "args": [4]}, "ok"),
    ("construct-throw", {"op": "construct", "name": "BadCtor"}, "fail"),
    ("construct-arrow", {"op": "construct", "name": "Math.max"}, "fail"),
    ("static-method", {"op": "callm", "name": "Klass.make"}, "ok"),
    ("gen-next", {"op": "callm", "name": "__gen.next", "args": ["x"]}, "any"),
    ("gen-throw", {"op": "callm", "name": "__gen.throw", "args": ["t"]}, "any"),
    ("gen-return", {"op": "callm", "name": "__gen.return", "args": ["r"]}, "any"),
    ("gen-renew", {"op": "eval", "src": "__gen = gen(); 'renewed'"}, "ok"),
    ("jobs-ok", {"op": "eval", "src": "Promise.resolve(1).then(function (v) { print('job', v, okf(v, 0)); }); 'queued'", "then_jobs": True}, "ok"),
    ("jobs-reject", {"op": "eval", "src": "Promise.reject(new Error('r')).catch(function () { return thrower(0); }); 'queued-reject'", "then_jobs": True}, "ok"),
    ("jobs-limit", {"op": "eval", "src": "Promise.resolve(1).then(function () { looper(); }); 'queued-limit'", "then_jobs": True}, "jobfail"),
    ("jobs-empty", {"op": "jobs"}, "ok"),
]


def expand(entry):
    name, step, kind = entry
    step = dict(step)
    steps = []
    if step.get("op") == "parse_then_eval":
        return None  # handled by builder (needs a script index)
    then_jobs = step.pop("then_jobs", False)
    steps.append(step)
    if then_jobs:
        steps.append({"op": "jobs"})
    return steps


def build_sequence(rng, length):
    """returns list of (entry name, kind, [steps])"""
    seq = []
    nscripts = 0
    for _ in range(length):
        name, step, kind = rng.choice(ENTRIES)
        if step.get("op") == "parse_then_eval":
            steps = [{"op": "parse_script", "src": step["src"]}, {"op": "eval_script", "k": nscripts}]
            nscripts += 1
        else:
            steps = expand((name, step, kind))
        seq.append((name, kind, steps))
    return seq


def failed(c):
    return not c.startswith("value:")


def run(tier, seed):
    chk = core.Check("C07", tier, seed)
    thorough = tier == "thorough"
    nseq = 6000 if thorough else 500
    binary = build.ensure("bvh", "native")
    jobs = []
    seqs = []
    for s in range(nseq):
        rng = Rng(seed, "c07", s)
        length = rng.choice([5, 20, 60, 200] if not thorough else [5, 20, 60, 200, 800, 2000])
        seq = build_sequence(rng, length)
        limits = {"loop": rng.choice([50, 200, 1000]), "recursion": rng.choice([8, 30, 120]), "stack": rng.choice([128, 256, 512, 2048, 10240])}
        steps = [{"op": "eval", "src": SETUP}, {"op": "limits", **limits}]
        idx = []  # (entry index, first step index, number of steps)
        for k, (name, kind, st) in enumerate(seq):
            idx.append((k, len(steps), len(st)))
            steps += st
        jobs.append({"id": s, "steps": steps})
        seqs.append((seq, idx, limits))
    resA = runner.run_bvh(binary, "session", jobs, "c07a", timeout=120)
    # twin: only the successful entries of A
    jobsB = []
    maps = []
    for (seq, idx, limits), ra, ja in zip(seqs, resA, jobs):
        if ra.get("fatal"):
            jobsB.append({"id": ja["id"], "steps": []})
            maps.append(None)
            continue
        stepsB = [{"op": "eval", "src": SETUP}, {"op": "limits", **limits}]
        m = []
        script_map = {}
        nscripts_b = 0
        for (k, first, n) in idx:
            cs = [ra["steps"][first + j]["c"] for j in range(n)]
            # entries that fail *with* a script-visible effect (a generator that throws is finished) are replayed in the twin too
            if any(failed(c) for c in cs) and seq[k][1] != "any":
                continue
            st = [dict(x) for x in seq[k][2]]
            for x in st:
                if x["op"] == "parse_script":
                    script_map[k] = nscripts_b
                    nscripts_b += 1
                if x["op"] == "eval_script":
                    x["k"] = script_map[k]
            m.append((k, first, len(stepsB), n))
            stepsB += st
        jobsB.append({"id": ja["id"], "steps": stepsB})
        maps.append(m)
    resB = runner.run_bvh(binary, "session", jobsB, "c07b", timeout=120)

    entries_checked = 0
    kinds_seen = {}
    outcomes = {}
    distinct = set()
    reported = 0
    leaks_seen = {}
    for (seq, idx, limits), ra, rb, m, ja in zip(seqs, resA, resB, maps, jobs):
        if ra.get("fatal"):
            f = str(ra["fatal"])
            if f.startswith(("panic", "died")):
                if reported < 5:
                    chk.violation("host-entry sequence made the engine fail internally: %s" % f[:300], {"kind": "hostseq", "job": ja})
                    reported += 1
            else:
                chk.inconc("A:" + f[:30])
            continue
        bad = None
        nfail = 0
        for (k, first, n) in idx:
            name = seq[k][0]
            for j in range(n):
                st = ra["steps"][first + j]
                entries_checked += 1
                kinds_seen[name] = kinds_seen.get(name, 0) + 1
                oc = st["c"].split(":")[0] + (":" + st["c"].split(":")[1][:12] if st["c"].startswith(("limit", "throw:Error")) else "")
                outcomes[oc] = outcomes.get(oc, 0) + 1
                if failed(st["c"]):
                    nfail += 1
                d0, d1 = st["d0"], st["d1"]
                if d0[:4] != d1[:4] and bad is None:
                    bad = (k, name, st["c"], d0, d1)
                    key = "%s/%s" % (name, st["c"][:24])
                    leaks_seen[key] = leaks_seen.get(key, 0) + 1
        if bad is not None:
            if reported < 5:
                k, name, c, d0, d1 = bad
                chk.violation("host entry #%d (%s, completed as %s) left the VM unbalanced: (frames, value stack, pending exception, host_call_depth) "
                              "before=%s after=%s; limits %s" % (k, name, c[:60], d0[:4], d1[:4], limits),
                              {"kind": "hostseq", "job": ja, "entry": k, "limits": limits})
                reported += 1
            continue
        # twin comparison
        if rb.get("fatal") or m is None:
            chk.inconc("B:" + str(rb.get("fatal"))[:30])
            continue
        diff = None
        for (k, firstA, firstB, n) in m:
            for j in range(n):
                a, b = ra["steps"][firstA + j], rb["steps"][firstB + j]
                ta = ra["trace"][a["t"][0]:a["t"][1]]
                tb = rb["trace"][b["t"][0]:b["t"][1]]
                ca, cb = a["c"], b["c"]
                if ca.startswith("value:script#") and cb.startswith("value:script#"):
                    ca = cb = "value:script"
                if ca != cb or ta != tb:
                    diff = (k, seq[k][0], a["c"], b["c"], ta[:3], tb[:3])
                    break
            if diff:
                break
        if diff:
            if reported < 5:
                chk.violation("entry #%d (%s) answers differently after failed entries (%s / %s) than in a context that only ran the successful ones (%s / %s)" % (
                    diff[0], diff[1], diff[2][:80], diff[4], diff[3][:80], diff[5]), {"kind": "hostseq-twin", "job": ja, "entry": diff[0]})
                reported += 1
            continue
        if nfail > 0:
            distinct.add(norm_hash(json.dumps(ja["steps"])))
    # ---- module evaluation as a host entry: load + link + evaluate + job drains of generated module graphs
    # (cycles, top-level await, throwing bodies, link and parse errors); several graphs share one context
    mod = module_stream(chk, binary, seed, 1500 if thorough else 150)
    entries_checked += mod["evaluations"]
    distinct |= mod["distinct"]
    chk.assumptions = ["failing entries are built so that they have no script-visible effect before they fail, which makes the twin comparison exact",
                       "depths are read through the vm_depths hook at the host boundary only"]
    return chk.finish(
        evaluations=entries_checked, distinct_nontrivial=len(distinct),
        rule="sequence of 5..2000 host entries (eval / parsed script / call / construct / method call on a generator / run_jobs) with every completion kind "
             "(value, throw at top and in nested frames, early and runtime SyntaxError, each RuntimeLimit kind) on one context with small limits; "
             "non-trivial = the sequence contained at least one failed entry and all conservation and twin comparisons were made; distinct by step list",
        samples=[[s[0] for s in seqs[k][0][:12]] for k in range(min(3, len(seqs)))],
        extra={"sequences": nseq, "entry_kinds_exercised": kinds_seen, "completion_kinds_observed": outcomes, "unbalanced_entries_by_kind": leaks_seen,
               "module_evaluations": mod["evaluations"], "module_outcomes": mod["outcomes"], "module_contexts": mod["contexts"]},
        min_nontrivial=20)


def module_stream(chk, binary, seed, ncontexts):
    from .. import gen_modgraph as G
    known = {}
    try:
        with open(core.os.path.join(core.VERIF, "known", "c17_findings.json")) as f:
            d = json.load(f)
        for k in (d["findings"] if isinstance(d, dict) else d):
            if k.get("status") == "open":
                known.update({a: k["id"] for a in k.get("avoid", [])})
    except (OSError, ValueError):
        pass
    jobs = []
    for c in range(ncontexts):
        r = Rng(seed, "c07", "mod", c)
        mods, entries = {}, []
        tries = 0
        want = r.choice([1, 3, 8])
        while len(entries) < want * 2 and tries < 60:
            tries += 1
            spec = G.random_spec(r.fork("g", tries))
            case = G.build_case(spec, "c07-%d-%d" % (c, tries), prefix="g%d_" % tries)
            # graphs on which an open C17 finding makes the engine panic or hang are C17's subject
            if G.avoid_flags(case["meta"], case["meta"]["entry"], case["meta"]["second"]) & set(known):
                continue
            mods.update(case["job"]["modules"])
            entries.append(["entry", case["job"]["entry"]])
            entries.append(["re", case["job"]["entry"]])
        jobs.append({"id": "c07m-%d" % c, "modules": mods, "entries": entries, "setup": G.SETUP})
    res = runner.run_bvh(binary, "modules", jobs, "c07m", timeout=60)
    out = {"evaluations": 0, "distinct": set(), "outcomes": {}, "contexts": 0}
    reported = 0
    for j, r in zip(jobs, res):
        f = r.get("fatal")
        if f:
            chk.inconc("modules:" + str(f)[:24])
            continue
        out["contexts"] += 1
        for ev in r.get("evals", []):
            out["evaluations"] += 1
            oc = str(ev.get("state", "?")).split(":")[0]
            out["outcomes"][oc] = out["outcomes"].get(oc, 0) + 1
            d0, d1 = ev.get("d0"), ev.get("d1")
            if d0 is None or d1 is None:
                raise core.NoVerdict("the modules subcommand does not report VM depths")
            if d0[:4] != d1[:4]:
                if reported < 3:
                    reported += 1
                    chk.violation("module evaluation %s(%s), settled as %s, left the VM unbalanced: (frames, value stack, pending exception, host_call_depth) "
                                  "before=%s after=%s" % (ev.get("what"), ev.get("name"), str(ev.get("state"))[:40], d0[:4], d1[:4]),
                                  {"kind": "modules", "job": j, "evaluation": [ev.get("what"), ev.get("name")]})
            elif oc != "fulfilled":
                out["distinct"].add(norm_hash(json.dumps([j["modules"], ev.get("name")], sort_keys=True)))
    return out


def replay(path, seed):
    with open(path) as f:
        rep = json.load(f)
    binary = build.ensure("bvh", "native")
    if rep.get("kind") == "modules":
        r = runner.run_bvh(binary, "modules", [rep["job"]], "c07r", shards=1, timeout=120)[0]
        if r.get("fatal"):
            print("fatal:", r["fatal"])
            print("NO-VERDICT C07: the module job did not run")
            return 2
        for ev in r.get("evals", []):
            if ev["d0"][:4] != ev["d1"][:4]:
                print("evaluation %s(%s) %s: %s -> %s" % (ev.get("what"), ev.get("name"), str(ev.get("state"))[:40], ev["d0"], ev["d1"]))
                print("VIOLATION property=C07 replay=%s" % path)
                return 1
        print("C07 replay: balanced")
        return 0
    r = runner.run_bvh(binary, "session", [rep["job"]], "c07r", shards=1, timeout=120)[0]
    if r.get("fatal"):
        print("fatal:", r["fatal"])
        print("VIOLATION property=C07 replay=%s" % path)
        return 1
    for k, st in enumerate(r["steps"]):
        if st["d0"][:4] != st["d1"][:4]:
            print("step %d %s: %s -> %s" % (k, st["c"][:60], st["d0"], st["d1"]))
            print("VIOLATION property=C07 replay=%s" % path)
            return 1
    print("balanced")
    return 0
