"""C05 — the AST optimizer preserves semantics (twin: optimizer options on/off through the public API)."""
from .. import core, diffrun, gen_core, gen_opt
from . import twin_common

# OptimizerOptions bits: CONSTANT_FOLDING=2, STRENGTH_REDUCTION=4, DEAD_CODE_ELIMINATION=8
ALL = 14
SUBSETS = [0, 2, 4, 8, 6, 10, 12, 14]
NAMES = {0: "none", 2: "fold", 4: "strength", 8: "dce", 6: "fold+strength", 10: "fold+dce", 12: "strength+dce", 14: "all"}


def make_job(src, cfg):
    return diffrun.job(src, opt=cfg.get("opt", ALL))


def run(tier, seed):
    chk = core.Check("C05", tier, seed)
    thorough = tier == "thorough"
    n_opt, n_core = (60000, 20000) if thorough else (2200, 600)
    eng = diffrun.Engines(tag="c05", node=False)
    try:
        progs = [gen_opt.generate(seed, i) for i in range(n_opt)]
        for i in range(n_core):
            progs.append(gen_core.generate(seed, i, avoid=set(), label="c05")[0])

        def variants(i):
            if thorough or i % 5 == 0:
                return [("opt:" + NAMES[b], {"opt": b}) for b in SUBSETS if b != 0]
            return [("opt:all", {"opt": 14}), ("opt:" + NAMES[SUBSETS[1 + i % 6]], {"opt": SUBSETS[1 + i % 6]})]
        out = twin_common.run_twin(chk, eng, progs, {"opt": 0}, variants, make_job,
                                   lambda name: "optimizer option set %s changes behaviour" % name)
        chk.assumptions = ["the unoptimized evaluation is the reference (its own correctness is C01's subject)",
                           "observability of the optimizer is by construction of the `opt` generator (literal operands, literal conditions); "
                           "whether a given program was actually rewritten is not measured (no public hook)"]
        return chk.finish(
            evaluations=out["jobs"], distinct_nontrivial=len(out["distinct"]),
            rule="program from the `opt` profile (literal-heavy expressions with observable coercions, literal conditions around hoisted declarations) "
                 "and from the core grammar, evaluated with optimizer options {} (reference) and with subsets of {constant folding, strength reduction, "
                 "dead code elimination}; non-trivial = printed at least one line; distinct by source hash",
            samples=[p[:500] for p in progs[:3]],
            extra={"programs": len(progs), "option_sets_compared": out["compared"], "candidates": out["candidates"]},
            min_nontrivial=50)
    finally:
        eng.close()


def replay(path, seed):
    return twin_common.replay_twin(path, "C05", make_job)
