"""C01 — core-language evaluation agrees with the reference (V8) for every text origin and entry route."""
import json

from .. import core, diffrun, gen_core
from ..core import norm_hash

ORIGINS = ["bytes", "utf16", "reader", "file", "script"]
MANDATORY = ["function_decl", "arrow", "generator", "class_decl", "try", "finally", "switch", "label", "tdz", "for", "forof",
             "forin", "destructuring_decl", "coercer", "update", "logical_assign", "closure_in_loop", "default_param", "yield"]


def gen_programs(seed, n, avoid):
    progs = []
    used_total = {}
    for i in range(n):
        parts, used = gen_core.generate_parts(seed, i, avoid=avoid, label="c01")
        for k, v in used.items():
            used_total[k] = used_total.get(k, 0) + v
        progs.append(parts)
    return progs, used_total


def resource_exhaustion_on_both(b, ref):
    """boa ended in its recursion / stack limit and V8 threw too, after printing at least as much: the program recurses
    without bound (e.g. a getter that reads itself), which has no specified outcome — the engines run out of different
    resources at different depths"""
    bc = [s["c"] for s in b.get("steps", [])]
    rc = [s["c"] for s in ref.get("steps", [])]
    nref = len(ref.get("trace") or [])
    if any(c == "throw:{}" for c in rc) and nref >= 2000 and nref >= len(b.get("trace") or []):
        # V8 ran out of stack (its RangeError belongs to the embedder's realm and shows as a plain object) after
        # thousands of lines: the program does not terminate by specification, whatever boa makes of it (boa cuts a
        # re-entrant ToPrimitive on the same object short, see DESIGN 8.5)
        return True
    if not any(c in ("limit:recursion", "limit:stack") for c in bc):
        return False
    if not any(c.startswith("throw:") for c in rc):
        return False
    return nref >= len(b.get("trace") or [])


def known_reproducers(chk, eng):
    """open findings of C01 are replayed on every run"""
    for k in chk.open_known:
        rep = k.get("reproducer", {})
        if rep.get("kind") != "js":
            continue
        src = rep["src"]
        rb = eng.boa([diffrun.job(src)], shards=1)[0]
        rn = eng.node([diffrun.job(src)])[0]
        if not diffrun.node_usable(rn):
            chk.inconc("known-finding-replay:no-reference")
            continue
        if diffrun.same(rb, rn):
            continue  # no longer failing
        observed = diffrun.record(rb)
        if rep.get("observed") is None or json.dumps(observed[1:]) == json.dumps(rep["observed"]):
            chk.known_finding(k, "%s: `%s` -> %s (reference %s)" % (k["title"], src, observed[1], diffrun.record(rn)[1]))
        else:
            chk.violation("known finding %s now fails differently: %s" % (k["id"], diffrun.describe(rb, rn)),
                          {"kind": "js", "src": src, "mode": "bytes/eval"})


def run(tier, seed):
    chk = core.Check("C01", tier, seed)
    thorough = tier == "thorough"
    n = 40000 if thorough else 3000
    avoid = set(diffrun.AVOID_V8)
    eng = diffrun.Engines(tag="c01")
    try:
        if not eng.pool:
            raise core.NoVerdict("reference engine (node) not available: C01 has no other oracle")
        progs, used = gen_programs(seed, n, avoid)
        missing = [f for f in MANDATORY if used.get(f, 0) == 0]
        if missing:
            raise core.NoVerdict("generator never produced: %s" % missing)
        # reference runs: plain text and the same program as the body of __main
        node_jobs, boa_jobs, meta = [], [], []
        for i, parts in enumerate(progs):
            plain = gen_core.render_plain(*parts)
            main_call = gen_core.render_main(*parts, call=True)
            main_decl = gen_core.render_main(*parts, call=False)
            node_jobs.append(diffrun.job(plain))
            node_jobs.append(diffrun.job(main_call))
            for o in (ORIGINS if (thorough or i % 5 == 0) else [ORIGINS[i % len(ORIGINS)]]):
                boa_jobs.append(diffrun.job(plain, origin=o))
                meta.append((i, "plain", o, 2 * i, None))
            boa_jobs.append(diffrun.job(main_call))
            meta.append((i, "main-vmcall", "bytes", 2 * i + 1, None))
            boa_jobs.append(diffrun.job(main_decl, entry="call_main"))
            # boa steps: [eval decl, call, jobs] vs node steps [eval decl+call, jobs]: compare call completion with node's eval completion
            meta.append((i, "main-hostcall", "bytes", 2 * i + 1, [(1, 0)]))
        rn = eng.node(node_jobs)
        rb = eng.boa(boa_jobs)
        candidates = []
        distinct = set()
        modes_seen = {}
        for (i, kind, origin, ni, smap), b in zip(meta, rb):
            ref = rn[ni]
            if not diffrun.node_usable(ref):
                chk.inconc("reference:" + str(ref.get("fatal") or "timeout")[:30])
                continue
            if smap and ref["steps"][0]["c"].startswith("early"):
                smap = [(0, 0)]  # the text does not parse: there is no __main to call
            cl = diffrun.classify(b)
            if cl.startswith("inconclusive"):
                chk.inconc(cl[:40])
                continue
            if resource_exhaustion_on_both(b, ref):
                chk.inconc("unbounded-recursion-in-both-engines")
                continue
            key = "%s/%s" % (kind, origin)
            modes_seen[key] = modes_seen.get(key, 0) + 1
            if cl.startswith("internal") or not diffrun.same(b, ref, smap):
                candidates.append((i, kind, origin, ni, smap, b, ref))
            else:
                tr = diffrun.record(ref)[2]
                if tr:  # non-trivial: the program printed something
                    distinct.add(norm_hash(node_jobs[ni]["steps"][0]["src"]))
        # confirm, reduce, report
        reported = 0
        seen_reduced = set()
        for (i, kind, origin, ni, smap, b, ref) in candidates:
            if reported >= 5:
                chk.inconc("further-candidates-not-reduced")
                continue
            parts = progs[i]
            if kind == "plain":
                mk = lambda s, o=origin: diffrun.job(s, origin=o)
                mkn = lambda s: diffrun.job(s)
                src = gen_core.render_plain(*parts)
            elif kind == "main-vmcall":
                mk = lambda s: diffrun.job(s)
                mkn = lambda s: diffrun.job(s)
                src = gen_core.render_main(*parts, call=True)
            else:
                mk = lambda s: diffrun.job(s, entry="call_main")
                mkn = lambda s: diffrun.job(s + "\n__main();")
                src = gen_core.render_main(*parts, call=False)
            # confirm alone
            b2 = eng.boa([mk(src)], shards=1)[0]
            r2 = eng.node([mkn(src)])[0]
            if not diffrun.node_usable(r2):
                chk.inconc("reference-on-confirm")
                continue
            if not diffrun.classify(b2).startswith("internal") and diffrun.same(b2, r2, smap):
                chk.inconc("not-reproduced-alone")
                continue
            red = eng.reduce_vs_node(src, mk, mkn, smap)
            h = norm_hash(red)
            if h in seen_reduced:
                continue
            seen_reduced.add(h)
            b3 = eng.boa([mk(red)], shards=1)[0]
            r3 = eng.node([mkn(red)])[0]
            chk.violation("boa differs from the reference in mode %s/%s on `%s`: %s" % (kind, origin, red[:300], diffrun.describe(b3, r3)),
                          {"kind": "js", "src": src, "reduced": red, "mode": "%s/%s" % (kind, origin),
                           "expected": diffrun.record(r3)[1:], "observed": list(diffrun.record(b3))})
            reported += 1
        known_reproducers(chk, eng)
        chk.assumptions = [
            "V8 (node %s) stands in for the ECMAScript-specified trace; shapes where V8 is known to deviate or boa has a documented limitation are not generated: %s" % ("20", sorted(avoid)),
            "error messages are never compared, only error classes",
        ]
        samples = [gen_core.render_plain(*progs[k])[:600] for k in range(min(3, len(progs)))]
        return chk.finish(
            evaluations=len(boa_jobs),
            distinct_nontrivial=len(distinct),
            rule="program from the core grammar (seeded), run as plain script through each text origin and as body of __main entered by the VM call opcode and by a host call; "
                 "non-trivial = reference run printed at least one line and both engines were conclusive; distinct by source hash",
            samples=samples,
            extra={"programs": len(progs), "feature_counts": used, "modes_compared": modes_seen, "candidates": len(candidates)},
            min_nontrivial=50,
        )
    finally:
        eng.close()


def replay(path, seed):
    with open(path) as f:
        rep = json.load(f)
    eng = diffrun.Engines(tag="c01r")
    try:
        src = rep.get("reduced") or rep["src"]
        kind, origin = (rep.get("mode", "plain/bytes").split("/") + ["bytes"])[:2]
        if kind == "main-hostcall":
            bj, nj, smap = diffrun.job(src, entry="call_main"), diffrun.job(src + "\n__main();"), [(1, 0)]
        else:
            bj, nj, smap = diffrun.job(src, origin=origin), diffrun.job(src), None
        b = eng.boa([bj], shards=1)[0]
        r = eng.node([nj])[0]
        print("boa      :", diffrun.record(b))
        print("reference:", diffrun.record(r))
        if diffrun.classify(b).startswith("internal") or (diffrun.node_usable(r) and not diffrun.same(b, r, smap)):
            print("VIOLATION property=C01 replay=%s" % path)
            return 1
        return 0
    finally:
        eng.close()
